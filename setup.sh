#!/bin/bash
# setup_cmd: build everything the checks need, offline, from files on disk only.
set -euo pipefail
cd "$(dirname "$(readlink -f "$0")")"; export VERIF_ROOT="$PWD"
export CARGO_NET_OFFLINE=true
if [ ! -f .cargo-home/.ok ]; then
  rm -rf .cargo-home
  python3 tools/mkhome.py "$PWD/.cargo-home"
  touch .cargo-home/.ok
fi
mkdir -p run evidence replays
. tools/env.sh
# pre-build both workspaces so that quick checks only do incremental work
(cd harness && vcargo_hooks build --release --bins 2>&1 | tail -3)
(cd loomh && vcargo_loom build --release 2>&1 | tail -3)
(cd loomb && vcargo_loomb build --release 2>&1 | tail -3)
echo "setup ok"
