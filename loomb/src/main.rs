//! E2 (second harness): loom model checking of the repository's own `metrics-util/src/storage/bucket.rs`
//! (path-included), with crossbeam-epoch / crossbeam-utils built in their own loom mode (`--cfg crossbeam_loom`),
//! so that every atomic access of the bucket *and* of the epoch reclamation it relies on goes through loom's
//! C11 memory model. Slot accesses are made visible to loom through one tracked cell per slot (`SlotTrack`).
//! usage: loomb <scenario> <preemption-bound|none>
//! prints one JSON line {"executions":N,"models":M,"outcomes":K,"sample":...}; a violation panics (exit != 0).
#![allow(dead_code)]
use std::collections::BTreeMap;
use std::sync::atomic::{AtomicUsize as StdAtomicUsize, Ordering as StdOrdering};
use std::sync::Mutex as StdMutex;

mod st {
    pub mod loom_shim {
        pub use loom::sync::atomic::{AtomicUsize, Ordering};
        /// One loom-tracked cell per slot: `write(i)` is a tracked mutable access, `read(len)` tracked shared
        /// accesses to slots `0..len`. loom reports any pair of them not ordered by happens-before.
        pub struct SlotTrack(Vec<loom::cell::UnsafeCell<()>>);
        impl SlotTrack {
            pub fn new() -> Self {
                SlotTrack((0..64).map(|_| loom::cell::UnsafeCell::new(())).collect())
            }
            pub fn write(&self, i: usize) {
                self.0[i].with_mut(|_| ());
            }
            pub fn read(&self, len: usize) {
                for c in &self.0[..len] {
                    c.with(|_| ());
                }
            }
        }
        pub fn spin() {
            loom::thread::yield_now();
        }
    }
    #[path = "/repo/metrics-util/src/storage/bucket.rs"]
    pub mod bucket;
}

use loom::sync::Arc;
use st::bucket::AtomicBucket;

static EXECS: StdAtomicUsize = StdAtomicUsize::new(0);
static OUTCOMES: StdMutex<BTreeMap<String, u64>> = StdMutex::new(BTreeMap::new());
fn outcome(s: String) {
    *OUTCOMES.lock().unwrap().entry(s).or_insert(0) += 1;
}

fn builder(pb: Option<usize>) -> loom::model::Builder {
    let mut b = loom::model::Builder::new();
    b.preemption_bound = pb;
    b.max_branches = 100_000;
    b
}

#[derive(Clone, Copy)]
enum Role {
    /// pushes the given number of distinct values
    Push(usize),
    /// one clear_with
    Clear,
    /// one data_with snapshot followed by is_empty
    Snap,
}

/// `prefill` values are pushed by the main thread before the model threads start (63 or 64 puts the hand-over
/// to a second block inside the explored window). Oracle (the multiset part of C05):
///  * every value handed to a clear or seen by the final drain was pushed, and no value is delivered twice;
///  * every pushed value is delivered exactly once over all clears + the final drain;
///  * values of one block appear in push order per pusher; a snapshot never shows a value that was not pushed,
///    nor the same value twice, and shows every value whose push completed before the snapshot began
///    (the prefill) unless a clear took it;
///  * loom itself reports slot accesses not ordered by happens-before (a value observed before it is fully
///    written) and use of freed blocks is caught through the epoch's own loom atomics.
fn bucket_scenario(pb: Option<usize>, prefill: usize, roles: &'static [Role]) {
    builder(pb).check(move || {
        EXECS.fetch_add(1, StdOrdering::Relaxed);
        let b: Arc<AtomicBucket<u64>> = Arc::new(AtomicBucket::new());
        for v in 0..prefill {
            b.push(1000 + v as u64);
        }
        let clears_before = roles.iter().any(|r| matches!(r, Role::Clear));
        let hs: Vec<_> = roles
            .iter()
            .enumerate()
            .map(|(ti, role)| {
                let b = b.clone();
                let role = *role;
                loom::thread::spawn(move || -> (Vec<Vec<u64>>, Vec<u64>) {
                    match role {
                        Role::Push(n) => {
                            let mut mine = Vec::new();
                            for k in 0..n {
                                let v = (ti as u64 + 1) * 10 + k as u64;
                                b.push(v);
                                mine.push(v);
                            }
                            (vec![], mine)
                        }
                        Role::Clear => {
                            let mut blocks = Vec::new();
                            b.clear_with(|s| blocks.push(s.to_vec()));
                            (blocks, vec![])
                        }
                        Role::Snap => {
                            let mut blocks = Vec::new();
                            b.data_with(|s| blocks.push(s.to_vec()));
                            let e = b.is_empty();
                            if !blocks.iter().all(|x| x.is_empty()) {
                                // values were visible and only a clear can take them away
                                let _ = e;
                            }
                            blocks.push(vec![u64::MAX, e as u64]);
                            (blocks, vec![])
                        }
                    }
                })
            })
            .collect();
        let res: Vec<(Vec<Vec<u64>>, Vec<u64>)> = hs.into_iter().map(|h| h.join().unwrap()).collect();
        // final drain on the main thread
        let mut fin = Vec::new();
        b.clear_with(|s| fin.push(s.to_vec()));
        assert!(b.is_empty(), "sig=loom-not-empty-after-clear: bucket not empty after a quiescent clear");

        let mut pushed: Vec<u64> = (0..prefill).map(|v| 1000 + v as u64).collect();
        for (_, mine) in &res {
            pushed.extend(mine);
        }
        let mut delivered: Vec<u64> = Vec::new();
        let mut desc = String::new();
        for (ti, role) in roles.iter().enumerate() {
            match role {
                Role::Clear => {
                    for blk in &res[ti].0 {
                        check_block_order(blk);
                        delivered.extend(blk);
                    }
                    desc.push_str(&format!("c{}={:?} ", ti, short(&res[ti].0)));
                }
                Role::Snap => {
                    let mut blocks = res[ti].0.clone();
                    let tail = blocks.pop().unwrap();
                    let empty = tail[1] == 1;
                    let mut seen: Vec<u64> = Vec::new();
                    for blk in &blocks {
                        check_block_order(blk);
                        for v in blk {
                            assert!(pushed.contains(v), "sig=loom-snapshot-fabricated: snapshot shows a value that was never pushed: {}", v);
                            assert!(!seen.contains(v), "sig=loom-snapshot-duplicate: snapshot shows a value twice: {}", v);
                            seen.push(*v);
                        }
                    }
                    if !clears_before {
                        for v in 0..prefill {
                            assert!(seen.contains(&(1000 + v as u64)), "sig=loom-snapshot-missed-completed-push: snapshot misses a value whose push completed before it began");
                        }
                        if prefill > 0 {
                            assert!(!empty, "sig=loom-is-empty-with-values: is_empty() true although completed pushes were never cleared");
                        }
                    }
                    desc.push_str(&format!("s{}={}/{} ", ti, seen.len(), empty));
                }
                Role::Push(_) => {}
            }
        }
        for blk in &fin {
            check_block_order(blk);
            delivered.extend(blk);
        }
        desc.push_str(&format!("fin={:?}", short(&fin)));
        let mut d = delivered.clone();
        d.sort_unstable();
        for w in d.windows(2) {
            assert!(w[0] != w[1], "sig=loom-value-delivered-twice: value {} handed to clearing reads twice", w[0]);
        }
        for v in &d {
            assert!(pushed.contains(v), "sig=loom-value-fabricated: value {} was never pushed", v);
        }
        let mut p = pushed.clone();
        p.sort_unstable();
        assert_eq!(p, d, "sig=loom-value-lost: pushed values were not all delivered exactly once");
        outcome(desc);
    });
}

/// within one block, values of the same pusher (same tens digit; the prefill is 1000+) appear in push order
fn check_block_order(blk: &[u64]) {
    for i in 0..blk.len() {
        for j in i + 1..blk.len() {
            let (a, b) = (blk[i], blk[j]);
            let same = if a >= 1000 || b >= 1000 { a >= 1000 && b >= 1000 } else { a / 10 == b / 10 };
            if same {
                assert!(a < b, "sig=loom-block-order: values of one block out of push order: {:?}", blk);
            }
        }
    }
}

fn short(b: &[Vec<u64>]) -> Vec<Vec<u64>> {
    b.iter().map(|x| x.iter().filter(|v| **v < 1000).cloned().collect::<Vec<u64>>()).map(|mut x: Vec<u64>| { x.truncate(8); x }).collect()
}

fn main() {
    // a model thread that loops without ever performing a synchronisation operation cannot be preempted by loom and never
    // ends: executions take milliseconds, so no completed execution for 30 s means exactly that
    std::thread::spawn(|| {
        let mut last = EXECS.load(StdOrdering::Relaxed);
        let mut since = std::time::Instant::now();
        loop {
            std::thread::sleep(std::time::Duration::from_millis(500));
            let now = EXECS.load(StdOrdering::Relaxed);
            if now != last {
                last = now;
                since = std::time::Instant::now();
            } else if since.elapsed().as_secs() >= 30 {
                eprintln!("thread 'watchdog' panicked at loom harness: sig=call-never-returns: execution #{} has not ended for 30 s: a thread waits in a loop that performs no synchronisation operation (it can never observe another thread's progress), so its call never returns", now);
                std::process::exit(101);
            }
        }
    });
    let a: Vec<String> = std::env::args().collect();
    let scn = a.get(1).cloned().unwrap_or_default();
    let pb: Option<usize> = a.get(2).and_then(|s| s.parse().ok());
    use Role::*;
    match scn.as_str() {
        "push_clear" => bucket_scenario(pb, 0, &[Push(2), Clear]),
        "push_snap" => bucket_scenario(pb, 1, &[Push(2), Snap]),
        "push_push_clear" => bucket_scenario(pb, 0, &[Push(1), Push(1), Clear]),
        "push_clear_snap" => bucket_scenario(pb, 1, &[Push(1), Clear, Snap]),
        "push_clear_clear" => bucket_scenario(pb, 1, &[Push(2), Clear, Clear]),
        "handover_clear" => bucket_scenario(pb, 63, &[Push(2), Clear]),
        "handover_snap" => bucket_scenario(pb, 63, &[Push(2), Snap]),
        "handover_push_push" => bucket_scenario(pb, 63, &[Push(1), Push(1)]),
        "handover_push_push_clear" => bucket_scenario(pb, 63, &[Push(1), Push(1), Clear]),
        "full_clear_clear" => bucket_scenario(pb, 64, &[Clear, Clear]),
        "full_push_clear" => bucket_scenario(pb, 64, &[Push(1), Clear]),
        _ => {
            eprintln!("unknown scenario");
            std::process::exit(2);
        }
    }
    let o = OUTCOMES.lock().unwrap();
    let sample = o.iter().next().map(|(k, v)| format!("{} x{}", k, v)).unwrap_or_default();
    println!("{{\"executions\":{},\"models\":1,\"outcomes\":{},\"sample\":{:?}}}", EXECS.load(StdOrdering::Relaxed), o.len(), sample);
}
