fn main() {
    println!("cargo:rustc-cfg=metrics_verif_loom");
    println!("cargo:rustc-check-cfg=cfg(metrics_verif_loom)");
    println!("cargo:rustc-check-cfg=cfg(metrics_verif)");
    println!("cargo:rerun-if-changed=/repo/metrics-util/src/storage/bucket.rs");
}
