//! E3 helpers: bounded exhaustive enumeration of operation sequences / inputs.
use std::collections::HashSet;
use std::hash::{Hash, Hasher};

/// Calls `run(seq)` for every sequence of exactly `depth` symbols over `0..alpha` in lexicographic order.
/// `run` executes the sequence on a fresh real object, checking after every step, and returns
/// `Some(i)` if it stopped at step `i` (violation or an inapplicable operation): all sequences sharing
/// `seq[..=i]` are then skipped. Every prefix of every sequence is thereby covered.
/// Returns the number of sequences executed; stops early when `stop()` is true.
pub fn for_each_seq(alpha: usize, depth: usize, run: &mut dyn FnMut(&[usize]) -> Option<usize>, stop: &dyn Fn() -> bool) -> (u64, bool) {
    let mut seq = vec![0usize; depth];
    let mut n = 0u64;
    if depth == 0 || alpha == 0 {
        run(&[]);
        return (1, true);
    }
    loop {
        if n % 256 == 0 && stop() {
            return (n, false);
        }
        let cut = run(&seq);
        n += 1;
        // advance: increment at position `cut` (or last), reset the tail
        let mut pos = cut.unwrap_or(depth - 1).min(depth - 1);
        loop {
            seq[pos] += 1;
            if seq[pos] < alpha {
                for x in seq.iter_mut().skip(pos + 1) {
                    *x = 0;
                }
                break;
            }
            if pos == 0 {
                return (n, true);
            }
            pos -= 1;
        }
    }
}

/// All strings of length 0..=max over `alphabet`.
pub fn strings(alphabet: &[&str], max: usize) -> Vec<String> {
    let mut out = vec![String::new()];
    let mut layer = vec![String::new()];
    for _ in 0..max {
        let mut next = Vec::new();
        for s in &layer {
            for a in alphabet {
                next.push(format!("{}{}", s, a));
            }
        }
        out.extend(next.iter().cloned());
        layer = next;
    }
    out
}

/// Distinct-state counter (hash set over canonical descriptions).
#[derive(Default)]
pub struct States(HashSet<u64>);
impl States {
    pub fn new() -> Self {
        States(HashSet::new())
    }
    pub fn add<T: Hash>(&mut self, t: &T) -> bool {
        let mut h = std::collections::hash_map::DefaultHasher::new();
        t.hash(&mut h);
        self.0.insert(h.finish())
    }
    pub fn len(&self) -> u64 {
        self.0.len() as u64
    }
}

/// Run `f`, turning a panic into `Err(message)`.
pub fn catch<R>(f: impl FnOnce() -> R) -> Result<R, String> {
    match std::panic::catch_unwind(std::panic::AssertUnwindSafe(f)) {
        Ok(r) => Ok(r),
        Err(e) => Err(e.downcast_ref::<String>().cloned().or_else(|| e.downcast_ref::<&str>().map(|s| s.to_string())).unwrap_or_else(|| "panic".into())),
    }
}

/// Silence the default panic message (panics are caught and reported by the oracles).
pub fn quiet_panics() {
    std::panic::set_hook(Box::new(|_| {}));
}

/// All merges of per-thread op-id sequences that preserve each thread's program order.
pub fn merges(threads: &[Vec<usize>]) -> Vec<Vec<usize>> {
    fn rec(pos: &mut Vec<usize>, threads: &[Vec<usize>], cur: &mut Vec<usize>, out: &mut Vec<Vec<usize>>) {
        let mut any = false;
        for t in 0..threads.len() {
            if pos[t] < threads[t].len() {
                any = true;
                cur.push(threads[t][pos[t]]);
                pos[t] += 1;
                rec(pos, threads, cur, out);
                pos[t] -= 1;
                cur.pop();
            }
        }
        if !any {
            out.push(cur.clone());
        }
    }
    let mut out = Vec::new();
    rec(&mut vec![0; threads.len()], threads, &mut Vec::new(), &mut out);
    out
}

/// NaN-canonical bit pattern of an f64 (all NaNs compare equal, -0.0 and 0.0 stay distinct).
pub fn fbits(v: f64) -> u64 {
    if v.is_nan() {
        0x7ff8_0000_0000_0000
    } else {
        v.to_bits()
    }
}
