//! Independent, strict parser of the Prometheus text exposition format 0.0.4, written from the format
//! description (not from the exporter): line classes, name grammars, escape sequences, value forms,
//! one TYPE per family and before its samples, sample-name suffixes allowed per type.
#[derive(Clone, Debug, PartialEq)]
pub struct Sample {
    pub name: String,
    /// decoded label pairs in the order written
    pub labels: Vec<(String, String)>,
    pub value: String,
}
impl Sample {
    pub fn value_f64(&self) -> f64 {
        parse_value(&self.value).unwrap_or(f64::NAN)
    }
    pub fn label(&self, k: &str) -> Option<&str> {
        self.labels.iter().find(|(n, _)| n == k).map(|(_, v)| v.as_str())
    }
    /// labels without `le` / `quantile`, sorted
    pub fn series_labels(&self) -> Vec<(String, String)> {
        let mut l: Vec<(String, String)> = self.labels.iter().filter(|(k, _)| k != "le" && k != "quantile").cloned().collect();
        l.sort();
        l
    }
}
#[derive(Clone, Debug, PartialEq)]
pub struct Family {
    pub name: String,
    pub help: Option<String>,
    pub ty: String,
    pub samples: Vec<Sample>,
}

fn is_name(s: &str, colon: bool) -> bool {
    let mut cs = s.chars();
    match cs.next() {
        Some(c) if c.is_ascii_alphabetic() || c == '_' || (colon && c == ':') => {}
        _ => return false,
    }
    cs.all(|c| c.is_ascii_alphanumeric() || c == '_' || (colon && c == ':'))
}

pub fn parse_value(s: &str) -> Option<f64> {
    let l = s.to_ascii_lowercase();
    let body = l.strip_prefix('+').or_else(|| l.strip_prefix('-')).unwrap_or(&l);
    match body {
        "inf" | "infinity" => return Some(if l.starts_with('-') { f64::NEG_INFINITY } else { f64::INFINITY }),
        "nan" => return Some(f64::NAN),
        _ => {}
    }
    if s.is_empty() || s.chars().any(|c| !(c.is_ascii_digit() || "+-.eE".contains(c))) {
        return None;
    }
    s.parse::<f64>().ok()
}

fn unescape(s: &str, allow_quote: bool) -> Result<String, String> {
    let mut out = String::new();
    let mut cs = s.chars();
    while let Some(c) = cs.next() {
        if c == '\\' {
            match cs.next() {
                Some('\\') => out.push('\\'),
                Some('n') => out.push('\n'),
                Some('"') if allow_quote => out.push('"'),
                Some(o) => return Err(format!("invalid escape sequence \\{}", o)),
                None => return Err("dangling backslash".into()),
            }
        } else {
            out.push(c);
        }
    }
    Ok(out)
}

fn parse_sample(line: &str) -> Result<Sample, String> {
    // name
    let end = line.find(|c: char| c == '{' || c == ' ').ok_or_else(|| format!("sample line without value: {:?}", line))?;
    let name = &line[..end];
    if !is_name(name, true) {
        return Err(format!("invalid metric name {:?} in line {:?}", name, line));
    }
    let mut rest = &line[end..];
    let mut labels = Vec::new();
    if rest.starts_with('{') {
        rest = &rest[1..];
        loop {
            if let Some(r) = rest.strip_prefix('}') {
                rest = r;
                break;
            }
            let eq = rest.find('=').ok_or_else(|| format!("label without '=' in {:?}", line))?;
            let lname = &rest[..eq];
            if !is_name(lname, false) {
                return Err(format!("invalid label name {:?} in line {:?}", lname, line));
            }
            rest = &rest[eq + 1..];
            if !rest.starts_with('"') {
                return Err(format!("label value not quoted in {:?}", line));
            }
            rest = &rest[1..];
            // find the closing quote: first '"' not preceded by an odd number of backslashes
            let bytes = rest.as_bytes();
            let mut i = 0;
            let mut close = None;
            while i < bytes.len() {
                if bytes[i] == b'\\' {
                    i += 2;
                    continue;
                }
                if bytes[i] == b'"' {
                    close = Some(i);
                    break;
                }
                i += 1;
            }
            let close = close.ok_or_else(|| format!("unterminated label value in {:?}", line))?;
            let raw = &rest[..close];
            let val = unescape(raw, true).map_err(|e| format!("{} in label value of {:?}", e, line))?;
            if labels.iter().any(|(k, _): &(String, String)| k == lname) {
                return Err(format!("label name {:?} repeated in {:?}", lname, line));
            }
            labels.push((lname.to_string(), val));
            rest = &rest[close + 1..];
            if let Some(r) = rest.strip_prefix(',') {
                rest = r;
                if rest.starts_with('}') {
                    // trailing comma is tolerated by the format
                    continue;
                }
            } else if !rest.starts_with('}') {
                return Err(format!("garbage after label value in {:?}", line));
            }
        }
    }
    let rest = rest.strip_prefix(' ').ok_or_else(|| format!("no space before value in {:?}", line))?;
    let mut parts = rest.split(' ');
    let value = parts.next().unwrap_or("");
    if parse_value(value).is_none() {
        return Err(format!("value {:?} is not a float in line {:?}", value, line));
    }
    if let Some(ts) = parts.next() {
        if ts.parse::<i64>().is_err() {
            return Err(format!("timestamp {:?} is not an integer in {:?}", ts, line));
        }
    }
    if parts.next().is_some() {
        return Err(format!("trailing garbage in {:?}", line));
    }
    Ok(Sample { name: name.to_string(), labels, value: value.to_string() })
}

fn allowed(fam: &Family, s: &Sample) -> bool {
    let n = &fam.name;
    match fam.ty.as_str() {
        "counter" | "gauge" | "untyped" => s.name == *n,
        "histogram" => (s.name == format!("{}_bucket", n) && s.label("le").is_some()) || s.name == format!("{}_sum", n) || s.name == format!("{}_count", n),
        "summary" => (s.name == *n && s.label("quantile").is_some()) || s.name == format!("{}_sum", n) || s.name == format!("{}_count", n),
        _ => false,
    }
}

pub fn parse(text: &str) -> Result<Vec<Family>, String> {
    let mut fams: Vec<Family> = Vec::new();
    if text.is_empty() {
        return Ok(fams);
    }
    if !text.ends_with('\n') {
        return Err("exposition does not end with a newline".into());
    }
    let mut pending_help: Option<(String, String)> = None;
    let mut open = false; // is the last family still accepting samples?
    for line in text[..text.len() - 1].split('\n') {
        if line.is_empty() {
            continue;
        }
        if let Some(r) = line.strip_prefix("# HELP ") {
            let (name, txt) = r.split_once(' ').unwrap_or((r, ""));
            if !is_name(name, true) {
                return Err(format!("invalid metric name in HELP line {:?}", line));
            }
            let txt = unescape(txt, false).map_err(|e| format!("{} in HELP line {:?}", e, line))?;
            if pending_help.is_some() {
                return Err(format!("HELP line {:?} follows another HELP line without a TYPE", line));
            }
            if fams.iter().any(|f| f.name == name) {
                return Err(format!("second HELP/TYPE block for family {:?}", name));
            }
            pending_help = Some((name.to_string(), txt));
            open = false;
        } else if let Some(r) = line.strip_prefix("# TYPE ") {
            let (name, ty) = r.split_once(' ').ok_or_else(|| format!("TYPE line without type: {:?}", line))?;
            if !is_name(name, true) {
                return Err(format!("invalid metric name in TYPE line {:?}", line));
            }
            if !["counter", "gauge", "histogram", "summary", "untyped"].contains(&ty) {
                return Err(format!("unknown type in {:?}", line));
            }
            if fams.iter().any(|f| f.name == name) {
                return Err(format!("more than one TYPE line for family {:?}", name));
            }
            let help = match pending_help.take() {
                Some((hn, ht)) => {
                    if hn != name {
                        return Err(format!("HELP for {:?} is followed by TYPE for {:?}", hn, name));
                    }
                    Some(ht)
                }
                None => None,
            };
            fams.push(Family { name: name.to_string(), help, ty: ty.to_string(), samples: vec![] });
            open = true;
        } else if line.starts_with('#') {
            return Err(format!("line is neither HELP, TYPE, sample nor blank: {:?}", line));
        } else {
            let s = parse_sample(line)?;
            if pending_help.is_some() {
                return Err(format!("sample {:?} follows a HELP line without TYPE", line));
            }
            let fam = match fams.last_mut() {
                Some(f) if open => f,
                _ => return Err(format!("sample {:?} is not preceded by the TYPE line of its family", line)),
            };
            if !allowed(fam, &s) {
                return Err(format!("sample name {:?} does not belong to the preceding family {:?} of type {} (family name or family name plus an allowed suffix)", s.name, fam.name, fam.ty));
            }
            fam.samples.push(s);
        }
    }
    if let Some((n, _)) = pending_help {
        return Err(format!("HELP for {:?} without TYPE", n));
    }
    Ok(fams)
}

/// (sample name, sorted labels) that occur more than once
pub fn duplicate_series(fams: &[Family]) -> Vec<String> {
    let mut seen = std::collections::BTreeSet::new();
    let mut dup = Vec::new();
    for f in fams {
        for s in &f.samples {
            let mut l = s.labels.clone();
            l.sort();
            let k = format!("{}{:?}", s.name, l);
            if !seen.insert(k.clone()) {
                dup.push(k);
            }
        }
    }
    dup
}
