//! Runs one scenario of the loom harness (`/verif/loomh`) as a part and converts its output.
use crate::driver::PartResult;
use serde_json::{json, Value};
use std::process::Command;

pub fn slug(s: &str) -> String {
    let mut out = String::new();
    for c in s.chars().take(70) {
        if c.is_ascii_alphanumeric() {
            out.push(c.to_ascii_lowercase());
        } else if !out.ends_with('-') {
            out.push('-');
        }
    }
    out.trim_matches('-').to_string()
}

/// `budget_s`: wall budget; a loom run that exceeds it is stopped and reported as a cap (not exhaustive), never as a verdict.
pub fn run_with_budget(scn: &str, pb: Option<u64>, budget_s: f64, res: &mut PartResult) {
    run_inner(scn, pb, budget_s, res)
}

pub fn run(scn: &str, pb: Option<u64>, res: &mut PartResult) {
    run_inner(scn, pb, 1e9, res)
}

/// The second loom harness (`/verif/loomb`: bucket.rs with crossbeam-epoch in its loom mode).
pub fn run_bucket_with_budget(scn: &str, pb: Option<u64>, budget_s: f64, res: &mut PartResult) {
    run_exe("VERIF_LOOMB", "/verif/target/loomb/release/loomb", scn, pb, budget_s, res)
}

fn run_inner(scn: &str, pb: Option<u64>, budget_s: f64, res: &mut PartResult) {
    run_exe("VERIF_LOOMH", "/verif/target/loom/release/loomh", scn, pb, budget_s, res)
}

fn run_exe(var: &str, default: &str, scn: &str, pb: Option<u64>, budget_s: f64, res: &mut PartResult) {
    res.engine = "E2 loom 0.7.2 on the path-included repository source".into();
    let exe = std::env::var(var).unwrap_or_else(|_| default.into());
    let pbs = pb.map(|p| p.to_string()).unwrap_or_else(|| "none".into());
    let mut child = match Command::new(&exe).arg(scn).arg(&pbs).env("LOOM_MAX_BRANCHES", "100000").stdout(std::process::Stdio::piped()).stderr(std::process::Stdio::piped()).spawn() {
        Ok(c) => c,
        Err(e) => {
            res.error = Some(format!("cannot run {}: {}", exe, e));
            return;
        }
    };
    // drain the pipes on helper threads so that a chatty failure cannot block the child
    let mut so = child.stdout.take().unwrap();
    let mut se = child.stderr.take().unwrap();
    let t1 = std::thread::spawn(move || {
        let mut v = Vec::new();
        let _ = std::io::Read::read_to_end(&mut so, &mut v);
        v
    });
    let t2 = std::thread::spawn(move || {
        let mut v = Vec::new();
        let _ = std::io::Read::read_to_end(&mut se, &mut v);
        v
    });
    let t0 = std::time::Instant::now();
    let status = loop {
        match child.try_wait() {
            Ok(Some(st)) => break Some(st),
            Ok(None) => {
                // budget in CPU time of the loom process (wall only as a 5x backstop): a loaded machine must not shrink the search
                let cpu = crate::driver::cpu_seconds_of(child.id()).unwrap_or(0.0);
                if cpu > budget_s || t0.elapsed().as_secs_f64() > 5.0 * budget_s {
                    let _ = child.kill();
                    let _ = child.wait();
                    break None;
                }
                std::thread::sleep(std::time::Duration::from_millis(20));
            }
            Err(e) => {
                res.error = Some(format!("wait: {}", e));
                return;
            }
        }
    };
    let (stdout_b, stderr_b) = (t1.join().unwrap_or_default(), t2.join().unwrap_or_default());
    let status = match status {
        Some(s) => s,
        None => {
            res.bound = json!({"loom_preemption_bound": pb, "scenario": scn});
            res.exhaustive = false;
            res.cap_hit = Some(format!("loom exploration stopped after the wall budget of {:.0}s: no failure found so far, space not exhausted", budget_s));
            res.executions = 1;
            res.states = 1;
            res.transitions = 1;
            res.sample(json!({"scenario": scn, "note": "stopped at the wall budget"}));
            return;
        }
    };
    struct Out {
        status: std::process::ExitStatus,
        stdout: Vec<u8>,
        stderr: Vec<u8>,
    }
    let out = Out { status, stdout: stdout_b, stderr: stderr_b };
    let stdout = String::from_utf8_lossy(&out.stdout).to_string();
    let stderr = String::from_utf8_lossy(&out.stderr).to_string();
    res.bound = json!({"loom_preemption_bound": pb, "scenario": scn});
    if out.status.success() {
        let v: Value = stdout.lines().last().and_then(|l| serde_json::from_str(l).ok()).unwrap_or(Value::Null);
        if v.is_null() {
            res.error = Some(format!("unparsable loom output: {}", stdout));
            return;
        }
        res.executions = v["executions"].as_u64().unwrap_or(0);
        res.transitions = res.executions; // loom does not expose its branch count; one per execution is a lower bound
        res.states = v["outcomes"].as_u64().unwrap_or(0).max(1);
        res.distinct_outcomes = v["outcomes"].as_u64().unwrap_or(0);
        res.sample(json!({"scenario": scn, "loom_models": v["models"], "outcome": v["sample"]}));
        res.exhaustive = true;
    } else if out.status.code() == Some(2) && stderr.contains("unknown scenario") {
        res.error = Some(format!("loom harness does not know scenario {}", scn));
    } else {
        // a loom failure: the panic message names the violated assertion
        let msg = stderr.lines().find(|l| l.contains("panicked at")).map(|l| {
            let idx = stderr.find(l).unwrap_or(0);
            stderr[idx..].lines().take(3).collect::<Vec<_>>().join(" ")
        }).unwrap_or_else(|| stderr.lines().rev().take(5).collect::<Vec<_>>().join(" | "));
        let core = msg.split(".rs:").nth(1).map(|s| s.splitn(2, ' ').nth(1).unwrap_or(s).to_string()).unwrap_or(msg.clone());
        let sig = if let Some(i) = msg.find("sig=") {
            msg[i + 4..].split(':').next().unwrap_or("loom-failure").trim().to_string()
        } else if msg.contains("Causality violation") || msg.contains("Concurrent") {
            "unsynchronized-cell-access".to_string()
        } else {
            slug(core.trim_start_matches(|c: char| c == ':' || c.is_ascii_digit() || c == '\n' || c == ' '))
        };
        res.executions += 1;
        res.states = 1;
        res.exhaustive = false;
        res.violation(&sig, format!("loom scenario {} pb={}: {}", scn, pbs, msg.chars().take(900).collect::<String>()), json!({"scenario": scn, "pb": pb}));
    }
}
