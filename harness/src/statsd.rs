//! Independent DogStatsD datagram parser, written from the protocol description:
//! `<name>:<value>(:<value>)*|<type>[|@<rate>][|#<tag>(,<tag>)*][|T<unix ts>]\n`
#[derive(Clone, Debug, PartialEq)]
pub struct Msg {
    pub name: String,
    pub values: Vec<String>,
    pub ty: char,
    pub rate: Option<String>,
    pub tags: Vec<String>,
    pub ts: Option<u64>,
}

/// Parses exactly one message (terminated by exactly one trailing newline).
pub fn parse_message(b: &[u8]) -> Result<Msg, String> {
    let s = std::str::from_utf8(b).map_err(|e| format!("not utf-8: {}", e))?;
    let body = s.strip_suffix('\n').ok_or_else(|| "message does not end with a newline".to_string())?;
    if body.contains('\n') {
        return Err("more than one line in one payload".into());
    }
    let mut sections = body.split('|');
    let head = sections.next().ok_or("empty")?;
    let mut hv = head.split(':');
    let name = hv.next().unwrap_or("").to_string();
    let values: Vec<String> = hv.map(|x| x.to_string()).collect();
    if values.is_empty() {
        return Err(format!("no value in `{}`", head));
    }
    for v in &values {
        if v.is_empty() {
            return Err(format!("empty value in `{}`", head));
        }
        if v.parse::<f64>().is_err() && !["NaN", "inf", "-inf"].contains(&v.as_str()) {
            return Err(format!("value `{}` is not a number", v));
        }
    }
    let ty = sections.next().ok_or("missing type section")?;
    let tyc = match ty {
        "c" => 'c',
        "g" => 'g',
        "h" => 'h',
        "d" => 'd',
        "ms" => 'm',
        "s" => 's',
        other => return Err(format!("unknown metric type `{}`", other)),
    };
    let mut rate = None;
    let mut tags: Vec<String> = Vec::new();
    let mut ts = None;
    let mut stage = 0; // 0: expect @/#/T, 1: after @, 2: after #, 3: after T
    for sec in sections {
        if let Some(r) = sec.strip_prefix('@') {
            if stage >= 1 {
                return Err("sample rate section out of order / repeated".into());
            }
            r.parse::<f64>().map_err(|_| format!("bad sample rate `{}`", r))?;
            rate = Some(r.to_string());
            stage = 1;
        } else if let Some(t) = sec.strip_prefix('#') {
            if stage >= 2 {
                return Err("tag section out of order / repeated".into());
            }
            if t.is_empty() {
                return Err("empty tag section".into());
            }
            tags = t.split(',').map(|x| x.to_string()).collect();
            if tags.iter().any(|x| x.is_empty()) {
                return Err(format!("empty tag in `{}`", t));
            }
            stage = 2;
        } else if let Some(t) = sec.strip_prefix('T') {
            if stage >= 3 {
                return Err("timestamp section repeated".into());
            }
            ts = Some(t.parse::<u64>().map_err(|_| format!("bad timestamp `{}`", t))?);
            stage = 3;
        } else {
            return Err(format!("unknown section `{}`", sec));
        }
    }
    Ok(Msg { name, values, ty: tyc, rate, tags, ts })
}

/// Splits a byte stream of u32-LE length-prefixed frames.
pub fn split_frames(mut b: &[u8]) -> Result<Vec<Vec<u8>>, String> {
    let mut out = Vec::new();
    while !b.is_empty() {
        if b.len() < 4 {
            return Err(format!("{} trailing byte(s) cannot hold a length prefix", b.len()));
        }
        let n = u32::from_le_bytes([b[0], b[1], b[2], b[3]]) as usize;
        if b.len() < 4 + n {
            return Err(format!("frame announces {} bytes but only {} follow", n, b.len() - 4));
        }
        out.push(b[4..4 + n].to_vec());
        b = &b[4 + n..];
    }
    Ok(out)
}
