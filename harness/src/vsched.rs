//! E1: controlled scheduler over real OS threads + preemption-bounded DFS (iterative context bounding).
//!
//! Scheduling points come from the `metrics::verif` facade (every atomic / lock / epoch-pointer / Arc
//! operation of the hooked files). Exactly one model thread runs at a time; at every point the schedule
//! decides who runs next. Choice 0 = keep running (or lowest enabled thread if the current one cannot
//! continue); any other choice while the current thread is still enabled costs one preemption.
use crate::driver::{Ctx, PartResult};
use serde_json::{json, Value};
use std::cell::RefCell;
use std::collections::{BTreeMap, HashSet};
use std::sync::{Arc, Condvar, Mutex};

#[derive(Clone, Debug)]
pub struct Decision {
    pub running: usize,
    pub running_enabled: bool,
    pub enabled: Vec<usize>,
    pub chosen: usize,
    pub kind: &'static str,
}

struct St {
    running: usize,
    done: Vec<bool>,
    waiting_since: Vec<Option<u64>>,
    wait_mark: Vec<u64>,
    points: Vec<u64>,
    /// points that can change shared state (everything but loads)
    wpoints: Vec<u64>,
    /// what the thread waits for: true = any point of another thread (lock), false = a state-changing point (spin)
    wait_any: Vec<bool>,
    /// consecutive read-only points of each thread (an un-annotated busy-wait shows up as an unbounded run of loads)
    ro_streak: Vec<u32>,
    /// consecutive annotated wait calls of a thread with no state-changing step of its own in between (impatient mode)
    spin_run: Vec<u32>,
    spin_seen: Vec<u64>,
    choices: Vec<usize>,
    pos: usize,
    decisions: Vec<Decision>,
    abort: Option<String>,
    horizon: usize,
}
pub struct Ctl {
    m: Mutex<St>,
    cv: Condvar,
}

thread_local! {
    static ME: RefCell<Option<(usize, Arc<Ctl>)>> = RefCell::new(None);
    /// scripted RNG answers for E3 probability-tree enumeration (front = next answer)
    pub static RNG_SCRIPT: RefCell<Option<RngScript>> = RefCell::new(None);
}

/// Scripted answers to `fastrand(upper)`: replays `prefix`, then answers 0, recording every `upper`.
#[derive(Default, Clone, Debug)]
pub struct RngScript {
    pub prefix: Vec<usize>,
    pub pos: usize,
    pub uppers: Vec<usize>,
    pub answers: Vec<usize>,
}

struct AbortExec;

fn others_progress(st: &St, id: usize) -> u64 {
    let v = if st.wait_any[id] { &st.points } else { &st.wpoints };
    v.iter().enumerate().filter(|(i, _)| *i != id).map(|(_, p)| *p).sum()
}

fn read_only(kind: &str) -> bool {
    matches!(kind, "load" | "ep_load" | "arc_count" | "spin_retry")
}

fn is_enabled(st: &St, t: usize) -> bool {
    if st.done[t] {
        return false;
    }
    match st.waiting_since[t] {
        None => true,
        Some(p) => others_progress(st, t) > p,
    }
}

#[derive(PartialEq)]
enum Why {
    Point,
    Wait,
    Finish,
}

/// A thread that has executed this many loads in a row without a single state-changing step is treated as a
/// busy-waiter (fair scheduling): while another thread can run it waits, like an annotated spin, until somebody makes
/// state-changing progress. Nothing in the checked code comes near this many consecutive loads outside a wait loop.
const SPIN_STREAK: u32 = 64;

fn sched(ctl: &Arc<Ctl>, id: usize, mut why: Why, mut kind: &'static str) {
    // Impatient mode (see `IMPATIENT`): an annotated wait is, for its first K calls in a row, an ordinary point that
    // returns at once — in reality a spinning thread keeps running whether or not anybody else makes progress, so a wait
    // loop that gives up after a bounded number of retries must be able to reach its bound while another thread is
    // descheduled in the middle of an operation. Only after K fruitless retries does the wait block as usual.
    {
        let k = IMPATIENT.load(std::sync::atomic::Ordering::Relaxed);
        if k > 0 {
            let mut st = ctl.m.lock().unwrap();
            if why == Why::Wait && kind == "spin" {
                // retries are counted per stretch in which nobody else changed anything (somebody else's progress is
                // what would have ended the wait anyway)
                let p: u64 = st.wpoints.iter().enumerate().filter(|(i, _)| *i != id).map(|(_, p)| *p).sum();
                if p != st.spin_seen[id] {
                    st.spin_seen[id] = p;
                    st.spin_run[id] = 0;
                }
                st.spin_run[id] += 1;
                if st.spin_run[id] <= k {
                    why = Why::Point;
                    kind = "spin_retry";
                }
            }
        }
    }
    let mut st = ctl.m.lock().unwrap();
    if why == Why::Point {
        if read_only(kind) {
            st.ro_streak[id] += 1;
            if st.ro_streak[id] >= SPIN_STREAK && (0..st.done.len()).any(|t| t != id && is_enabled(&st, t)) {
                why = Why::Wait;
                kind = "spin";
            }
        } else {
            st.ro_streak[id] = 0;
        }
    }
    if why == Why::Wait {
        let any = kind == "blocked";
        if st.wait_any[id] != any {
            st.wait_any[id] = any;
            st.wait_mark[id] = 0;
        }
        // Only really wait if nobody else progressed since our previous wait call: otherwise the condition we are
        // spinning on may already have changed, so just retry (ordinary point). Avoids lost wake-ups.
        let p = others_progress(&st, id);
        if p > st.wait_mark[id] {
            st.wait_mark[id] = p;
            why = Why::Point;
        }
    }
    if st.abort.is_some() {
        drop(st);
        if why == Why::Finish {
            return;
        }
        abort_exec();
        return;
    }
    match why {
        Why::Finish => st.done[id] = true,
        Why::Wait => {
            let p = others_progress(&st, id);
            st.waiting_since[id] = Some(p);
        }
        Why::Point => st.waiting_since[id] = None,
    }
    if why != Why::Wait && kind != "spin" && kind != "blocked" {
        // a (re)tried wait is not progress for anybody else; loads cannot release a spinner
        st.points[id] += 1;
        if !(read_only(kind) || kind == "spin" || kind == "blocked") || why == Why::Finish {
            st.wpoints[id] += 1;
        }
    }
    let n = st.done.len();
    let me_enabled = why == Why::Point;
    let mut enabled: Vec<usize> = Vec::new();
    if me_enabled {
        enabled.push(id);
    }
    for t in 0..n {
        if t != id && is_enabled(&st, t) {
            enabled.push(t);
        }
    }
    let fail = |mut st: std::sync::MutexGuard<'_, St>, msg: String, why: &Why| {
        st.abort = Some(msg);
        ctl.cv.notify_all();
        drop(st);
        if *why != Why::Finish {
            abort_exec();
        }
    };
    if enabled.is_empty() {
        if st.done.iter().all(|d| *d) {
            st.running = usize::MAX;
            ctl.cv.notify_all();
            return;
        }
        let msg = format!("DEADLOCK: no enabled thread (done={:?})", st.done);
        fail(st, msg, &why);
        return;
    }
    if st.decisions.len() >= st.horizon {
        fail(st, "HORIZON exceeded".into(), &why);
        return;
    }
    let pos = st.pos;
    let c = if pos < st.choices.len() { st.choices[pos] } else { 0 };
    if c >= enabled.len() {
        let msg = format!("DIVERGED at decision {}: choice {} of {:?}", pos, c, enabled);
        fail(st, msg, &why);
        return;
    }
    st.pos += 1;
    let nxt = enabled[c];
    st.decisions.push(Decision { running: id, running_enabled: me_enabled, enabled, chosen: c, kind });
    st.running = nxt;
    if nxt != id {
        ctl.cv.notify_all();
        if why != Why::Finish {
            while st.running != id && st.abort.is_none() {
                st = ctl.cv.wait(st).unwrap();
            }
            if st.abort.is_some() {
                drop(st);
                abort_exec();
                return;
            }
        }
    }
    if why != Why::Finish {
        st.waiting_since[id] = None;
    }
}

/// Leaves the current (aborted) execution by unwinding the model thread — unless that thread is already unwinding
/// from a panic of the code under test (a scheduling point reached from a destructor during cleanup): a second panic
/// there would abort the whole process, so the thread simply runs on freely; its panic is reported by `run_one`.
fn abort_exec() {
    if std::thread::panicking() {
        return;
    }
    std::panic::resume_unwind(Box::new(AbortExec));
}

fn with_me<F: FnOnce(usize, &Arc<Ctl>)>(f: F) -> bool {
    let me = ME.with(|m| m.borrow().clone());
    if let Some((id, ctl)) = me {
        f(id, &ctl);
        true
    } else {
        false
    }
}
fn h_point(kind: &'static str, _addr: usize) {
    with_me(|id, ctl| sched(ctl, id, Why::Point, kind));
}
fn h_blocked(_addr: usize) {
    if !with_me(|id, ctl| sched(ctl, id, Why::Wait, "blocked")) {
        std::thread::yield_now();
    }
}
fn h_spin() {
    if !with_me(|id, ctl| sched(ctl, id, Why::Wait, "spin")) {
        // A wait loop entered by the explorer itself while it reclaims an execution's state (deferred destructors run
        // from `flush_epoch`): every model thread has finished, so nobody can ever change what the loop waits for.
        // Retrying is bounded so that a destructor that can never complete is reported instead of hanging the part.
        let stuck = RECLAIMING.with(|r| {
            let mut r = r.borrow_mut();
            if let Some(n) = r.as_mut() {
                *n += 1;
                *n > RECLAIM_SPIN_LIMIT
            } else {
                false
            }
        });
        if stuck {
            panic!("RECLAIM-STUCK: a wait loop entered while reclaiming the state of a finished execution never ends (no thread is left that could release it)");
        }
        std::thread::yield_now();
    }
}
const RECLAIM_SPIN_LIMIT: u64 = 1 << 20;
/// 0 = waits block until another thread makes progress (default); K > 0 = impatient mode, see `sched`.
pub static IMPATIENT: std::sync::atomic::AtomicU32 = std::sync::atomic::AtomicU32::new(0);
thread_local! {
    static RECLAIMING: RefCell<Option<u64>> = RefCell::new(None);
}

/// Drops an execution's state and runs the epoch's deferred destructors on the exploring thread. `Err` if a destructor
/// ran into a wait loop that can never end (see `h_spin`).
fn reclaim<S>(state: Arc<S>) -> Result<(), String> {
    RECLAIMING.with(|r| *r.borrow_mut() = Some(0));
    let r = std::panic::catch_unwind(std::panic::AssertUnwindSafe(|| {
        drop(state);
        flush_epoch();
    }));
    RECLAIMING.with(|r| *r.borrow_mut() = None);
    r.map_err(|e| e.downcast_ref::<String>().cloned().or_else(|| e.downcast_ref::<&str>().map(|s| s.to_string())).unwrap_or("panic while reclaiming".into()))
}
fn h_rng(upper: usize) -> Option<usize> {
    let scripted = RNG_SCRIPT.with(|s| {
        let mut s = s.borrow_mut();
        s.as_mut().map(|sc| {
            let a = if sc.pos < sc.prefix.len() { sc.prefix[sc.pos] } else { 0 };
            sc.pos += 1;
            sc.uppers.push(upper);
            sc.answers.push(a);
            a
        })
    });
    if scripted.is_some() {
        return scripted;
    }
    // inside a model thread the RNG must not be a source of nondeterminism
    if ME.with(|m| m.borrow().is_some()) {
        return Some(0);
    }
    None
}
pub static HOOKS: metrics::verif::Hooks = metrics::verif::Hooks { point: h_point, blocked: h_blocked, spin: h_spin, rng_choice: h_rng };

pub fn install_hooks() {
    metrics::verif::set_hooks(&HOOKS);
}

/// True on a model thread (useful for doubles that want to add explicit points).
pub fn in_model() -> bool {
    ME.with(|m| m.borrow().is_some())
}

/// Explicit scheduling point usable by harness doubles.
pub fn point(kind: &'static str) {
    h_point(kind, 0)
}

pub struct Exec {
    pub decisions: Vec<Decision>,
    pub abort: Option<String>,
    pub panics: Vec<String>,
}

impl Exec {
    pub fn choices(&self) -> Vec<usize> {
        self.decisions.iter().map(|d| d.chosen).collect()
    }
    pub fn preemptions(&self) -> usize {
        self.decisions.iter().filter(|d| d.running_enabled && d.chosen != 0).count()
    }
    pub fn trace(&self) -> String {
        let mut out = String::new();
        for d in &self.decisions {
            let to = d.enabled[d.chosen];
            if d.running == usize::MAX {
                out.push_str(&format!("start->t{} ", to));
            } else if to != d.running {
                out.push_str(&format!("t{}:{}->t{} ", d.running, d.kind, to));
            } else {
                out.push_str(&format!("t{}:{} ", d.running, d.kind));
            }
        }
        out
    }
    fn shape_hash(&self, upto: usize) -> u64 {
        let mut h: u64 = 0xcbf29ce484222325;
        for d in self.decisions.iter().take(upto) {
            for x in [d.running as u64, d.running_enabled as u64, d.enabled.len() as u64, crate::driver::fnv(d.kind)] {
                h ^= x;
                h = h.wrapping_mul(0x100000001b3);
            }
            for e in &d.enabled {
                h ^= *e as u64 + 1;
                h = h.wrapping_mul(0x100000001b3);
            }
        }
        h
    }
}

pub type Body<S> = Arc<dyn Fn(&S) + Send + Sync>;

pub fn body<S, F: Fn(&S) + Send + Sync + 'static>(f: F) -> Body<S> {
    Arc::new(f)
}

fn run_one<S: Send + Sync + 'static>(state: Arc<S>, bodies: &[Body<S>], choices: Vec<usize>, horizon: usize) -> Exec {
    let n = bodies.len();
    let ctl = Arc::new(Ctl {
        m: Mutex::new(St { running: usize::MAX - 1, done: vec![false; n], waiting_since: vec![None; n], wait_mark: vec![0; n], points: vec![0; n], wpoints: vec![0; n], wait_any: vec![false; n], ro_streak: vec![0; n], spin_run: vec![0; n], spin_seen: vec![u64::MAX; n], choices, pos: 0, decisions: vec![], abort: None, horizon }),
        cv: Condvar::new(),
    });
    let panics = Arc::new(Mutex::new(Vec::new()));
    let hs: Vec<_> = (0..n)
        .map(|i| {
            let ctl = ctl.clone();
            let body = bodies[i].clone();
            let state = state.clone();
            let panics = panics.clone();
            std::thread::spawn(move || {
                {
                    let mut st = ctl.m.lock().unwrap();
                    while st.running != i && st.abort.is_none() {
                        st = ctl.cv.wait(st).unwrap();
                    }
                    if st.abort.is_some() {
                        return;
                    }
                }
                ME.with(|m| *m.borrow_mut() = Some((i, ctl.clone())));
                let r = std::panic::catch_unwind(std::panic::AssertUnwindSafe(|| body(&state)));
                if let Err(e) = r {
                    if e.downcast_ref::<AbortExec>().is_none() {
                        let msg = e.downcast_ref::<String>().cloned().or_else(|| e.downcast_ref::<&str>().map(|s| s.to_string())).unwrap_or("panic".into());
                        panics.lock().unwrap().push(format!("thread {} panicked: {}", i, msg));
                    }
                }
                drop(state);
                let _ = std::panic::catch_unwind(std::panic::AssertUnwindSafe(|| sched(&ctl, i, Why::Finish, "finish")));
                ME.with(|m| *m.borrow_mut() = None);
                // Stay alive until every model thread has finished: thread-local destructors (crossbeam-epoch's
                // participant pushes its garbage bag on exit) must not run concurrently with a running model thread.
                let mut st = ctl.m.lock().unwrap();
                while !(st.done.iter().all(|d| *d) || st.abort.is_some()) {
                    st = ctl.cv.wait(st).unwrap();
                }
            })
        })
        .collect();
    // initial decision: which thread starts (free choice, no preemption cost)
    {
        let mut st = ctl.m.lock().unwrap();
        let enabled: Vec<usize> = (0..n).collect();
        let c = if !st.choices.is_empty() { st.choices[0] } else { 0 };
        if c >= n {
            st.abort = Some(format!("DIVERGED at decision 0: choice {} of {:?}", c, enabled));
        } else {
            st.pos = 1;
            st.decisions.push(Decision { running: usize::MAX, running_enabled: false, enabled, chosen: c, kind: "start" });
            st.running = c;
        }
        ctl.cv.notify_all();
    }
    for h in hs {
        let _ = h.join();
    }
    let st = ctl.m.lock().unwrap();
    let p = panics.lock().unwrap().clone();
    Exec { decisions: st.decisions.clone(), abort: st.abort.clone(), panics: p }
}

pub enum Verdict {
    /// canonical description of the observable outcome of this execution
    Ok(String),
    Fail { sig: String, msg: String },
}

pub fn fail(sig: &str, msg: String) -> Verdict {
    Verdict::Fail { sig: sig.into(), msg }
}

pub struct Scenario<S> {
    pub name: String,
    pub setup: Box<dyn Fn() -> S>,
    pub bodies: Vec<Body<S>>,
    /// sequential epilogue + oracle, run on the (non-model) main thread after all bodies finished
    pub check: Box<dyn Fn(&S, &Exec) -> Verdict>,
    /// does the property promise termination (deadlock / livelock / horizon = violation)?
    pub termination_promised: bool,
}

pub struct Cfg {
    pub max_bound: usize,
    pub horizon: usize,
}

fn flush_epoch() {
    for _ in 0..64 {
        crossbeam_epoch::pin().flush();
    }
}

fn judge<S>(scn: &Scenario<S>, state: &S, ex: &Exec) -> Result<Verdict, String> {
    if let Some(a) = &ex.abort {
        if a.starts_with("DIVERGED") {
            return Err(a.clone());
        }
        if scn.termination_promised {
            let sig = if a.starts_with("DEADLOCK") { "deadlock-or-livelock" } else { "horizon-exceeded" };
            return Ok(fail(sig, a.clone()));
        }
        return Err(format!("scenario did not terminate: {}", a));
    }
    if !ex.panics.is_empty() {
        return Ok(fail("panic", ex.panics.join("; ")));
    }
    Ok((scn.check)(state, ex))
}

/// Explore all schedules of `scn` with at most 0, 1, .. `cfg.max_bound` preemptions; fills `res`.
/// With `ctx.replay` set, runs exactly the recorded schedule instead.
pub fn explore<S: Send + Sync + 'static>(scn: &Scenario<S>, cfg: &Cfg, ctx: &Ctx, res: &mut PartResult) {
    install_hooks();
    std::panic::set_hook(Box::new(|info| {
        let model = ME.with(|m| m.borrow().is_some());
        if !model {
            eprintln!("PANIC (non-model thread): {}", info);
        }
    }));
    res.engine = "E1 vsched (controlled scheduler, preemption-bounded DFS over real threads)".into();
    if let Some(rp) = &ctx.replay {
        let choices: Vec<usize> = rp["choices"].as_array().map(|a| a.iter().map(|x| x.as_u64().unwrap_or(0) as usize).collect()).unwrap_or_default();
        let mut verdicts = Vec::new();
        for _ in 0..2 {
            let state = Arc::new((scn.setup)());
            let ex = run_one(state.clone(), &scn.bodies, choices.clone(), cfg.horizon);
            res.executions += 1;
            res.transitions += ex.decisions.len() as u64;
            match judge(scn, &state, &ex) {
                Err(e) => {
                    res.error = Some(e);
                    return;
                }
                Ok(Verdict::Ok(o)) => verdicts.push(format!("ok:{}", o)),
                Ok(Verdict::Fail { sig, msg }) => {
                    verdicts.push(format!("fail:{}:{}", sig, msg));
                    if verdicts.len() == 1 {
                        res.violation(&sig, format!("{} TRACE {}", msg, ex.trace()), rp.clone());
                    }
                }
            }
            if let Err(e) = reclaim(state) {
                verdicts.push(format!("fail:reclamation-never-completes:{}", e));
                if verdicts.len() == 1 {
                    res.violation("reclamation-never-completes", format!("{} TRACE {}", e, ex.trace()), rp.clone());
                }
                res.states = 1;
                res.distinct_outcomes = 1;
                return;
            }
        }
        if verdicts[0] != verdicts[1] {
            res.error = Some(format!("replay is not deterministic: {:?}", verdicts));
        }
        res.states = 1;
        res.distinct_outcomes = 1;
        res.sample(json!({"replayed_choices": choices, "verdict": verdicts[0]}));
        return;
    }
    let mut outcomes: BTreeMap<String, u64> = BTreeMap::new();
    let mut state_hashes: HashSet<u64> = HashSet::new();
    let mut max_points = 0usize;
    let mut bound_completed: i64 = -1;
    let mut per_bound: Vec<Value> = Vec::new();
    let mut first_fail_bound: Option<usize> = None;
    'bounds: for bound in 0..=cfg.max_bound {
        // (prefix, shape hash expected for the decisions of the prefix)
        let mut stack: Vec<(Vec<usize>, u64, usize)> = vec![(vec![], 0, 0)];
        let mut n_exec = 0u64;
        let mut n_fail = 0u64;
        while let Some((prefix, expect_hash, expect_len)) = stack.pop() {
            if ctx.over_budget() {
                res.cap_hit = Some(format!("wall budget {:.0}s hit during preemption bound {} after {} schedules of that level", ctx.budget_s, bound, n_exec));
                res.exhaustive = false;
                break 'bounds;
            }
            let state = Arc::new((scn.setup)());
            let ex = run_one(state.clone(), &scn.bodies, prefix.clone(), cfg.horizon);
            n_exec += 1;
            res.executions += 1;
            res.transitions += ex.decisions.len() as u64;
            max_points = max_points.max(ex.decisions.len());
            if std::env::var("VSCHED_DEBUG").is_ok() && ex.decisions.len() > 1000 {
                let mut h: BTreeMap<String, u64> = BTreeMap::new();
                for d in &ex.decisions { *h.entry(format!("t{}:{}", d.running, d.kind)).or_insert(0) += 1; }
                eprintln!("long execution {} points prefix={:?}: {:?}\n first 200: {}", ex.decisions.len(), prefix, h, ex.trace().chars().take(3000).collect::<String>());
            }
            if expect_len > 0 && ex.shape_hash(expect_len) != expect_hash {
                res.error = Some(format!("nondeterminism: replaying prefix {:?} produced different scheduling points", prefix));
                return;
            }
            let verdict = match judge(scn, &state, &ex) {
                Ok(v) => v,
                Err(e) => {
                    res.error = Some(format!("{} (prefix {:?})", e, prefix));
                    return;
                }
            };
            let is_fail = matches!(verdict, Verdict::Fail { .. });
            let vkey = match &verdict {
                Verdict::Ok(o) => format!("ok:{}", o),
                Verdict::Fail { sig, msg } => format!("FAIL:{}:{}", sig, msg),
            };
            // own the nondeterminism: re-run failing executions and every 64th other one, compare
            let stuck = |res: &mut PartResult, e: String, ex: &Exec| {
                res.violation("reclamation-never-completes", format!("[{} pb={} preemptions={}] {} TRACE {}", scn.name, bound, ex.preemptions(), e, ex.trace().chars().take(1500).collect::<String>()), json!({"choices": ex.choices(), "scenario": scn.name}));
                res.exhaustive = false;
                res.cap_hit = Some("stopped at the first execution whose state could not be reclaimed".into());
            };
            if is_fail || n_exec % 64 == 1 {
                if let Err(e) = reclaim(state) {
                    stuck(res, e, &ex);
                    return;
                }
                let state2 = Arc::new((scn.setup)());
                let ex2 = run_one(state2.clone(), &scn.bodies, ex.choices(), cfg.horizon);
                let v2 = match judge(scn, &state2, &ex2) {
                    Ok(Verdict::Ok(o)) => format!("ok:{}", o),
                    Ok(Verdict::Fail { sig, msg }) => format!("FAIL:{}:{}", sig, msg),
                    Err(e) => format!("ERR:{}", e),
                };
                if v2 != vkey || ex2.shape_hash(usize::MAX) != ex.shape_hash(usize::MAX) {
                    res.error = Some(format!("nondeterminism: same schedule gave `{}` then `{}`", vkey, v2));
                    return;
                }
                if let Err(e) = reclaim(state2) {
                    stuck(res, e, &ex2);
                    return;
                }
            } else if let Err(e) = reclaim(state) {
                stuck(res, e, &ex);
                return;
            }
            *outcomes.entry(vkey.chars().take(300).collect()).or_insert(0) += 1;
            state_hashes.insert(crate::driver::fnv(&vkey));
            if let Verdict::Fail { sig, msg } = verdict {
                n_fail += 1;
                if first_fail_bound.is_none() {
                    first_fail_bound = Some(bound);
                }
                // lower bounds' schedules are re-explored at higher bounds: count a failing schedule only once
                if ex.preemptions() == bound || bound == 0 {
                    res.violation(&sig, format!("[{} pb={} preemptions={}] {} TRACE {}", scn.name, bound, ex.preemptions(), msg, ex.trace().chars().take(1500).collect::<String>()), json!({"choices": ex.choices(), "scenario": scn.name}));
                }
            } else if res.samples.len() < 3 && (n_exec + ctx.seed) % 7 == 0 {
                res.sample(json!({"scenario": scn.name, "choices": ex.choices(), "outcome": vkey, "trace": ex.trace().chars().take(400).collect::<String>()}));
            }
            let mut pre = 0usize;
            for (i, d) in ex.decisions.iter().enumerate() {
                if i >= prefix.len() {
                    let cost = pre + if d.running_enabled { 1 } else { 0 };
                    if cost <= bound {
                        for alt in 1..d.enabled.len() {
                            let mut p: Vec<usize> = ex.decisions[..i].iter().map(|x| x.chosen).collect();
                            p.push(alt);
                            stack.push((p, ex.shape_hash(i + 1), i + 1));
                        }
                    }
                }
                if d.running_enabled && d.chosen != 0 {
                    pre += 1;
                }
            }
        }
        bound_completed = bound as i64;
        per_bound.push(json!({"preemption_bound": bound, "schedules": n_exec, "failing": n_fail}));
    }
    if res.samples.is_empty() {
        if let Some((k, _)) = outcomes.iter().next() {
            res.sample(json!({"scenario": scn.name, "outcome": k}));
        }
    }
    res.states += state_hashes.len() as u64;
    res.distinct_outcomes += outcomes.len() as u64;
    res.bound = json!({"preemption_bound_completed": bound_completed, "preemption_bound_target": cfg.max_bound, "per_bound": per_bound, "max_points_per_execution": max_points, "threads": scn.bodies.len(), "first_failing_bound": first_fail_bound});
    let top: Vec<String> = outcomes.iter().take(12).map(|(k, v)| format!("{} x{}", k.chars().take(120).collect::<String>(), v)).collect();
    res.notes.push(format!("{}: outcomes: {}", scn.name, top.join(" ;; ")));
}

/// Real-time order helper: a log of call/return events kept by scenarios (std mutex: not a scheduling point).
pub struct Log<E>(pub Mutex<Vec<E>>);
impl<E: Clone> Log<E> {
    pub fn new() -> Self {
        Log(Mutex::new(Vec::new()))
    }
    pub fn push(&self, e: E) -> usize {
        let mut g = self.0.lock().unwrap();
        g.push(e);
        g.len() - 1
    }
    pub fn get(&self) -> Vec<E> {
        self.0.lock().unwrap().clone()
    }
}

/// Brute-force linearizability: is there a total order of `ops` (each with call/return indices into one
/// global event order) consistent with real time such that `apply` accepts every op in turn?
/// `apply(state, op_index) -> Option<state>` returns the next state if the recorded result matches.
pub fn linearizable<St: Clone>(n: usize, call: &[usize], ret: &[usize], init: St, apply: &dyn Fn(&St, usize) -> Option<St>) -> bool {
    fn rec<St: Clone>(n: usize, done: u32, call: &[usize], ret: &[usize], st: &St, apply: &dyn Fn(&St, usize) -> Option<St>) -> bool {
        if done.count_ones() as usize == n {
            return true;
        }
        for i in 0..n {
            if done & (1 << i) != 0 {
                continue;
            }
            // i may go next only if no other pending op returned before i was called
            let mut ok = true;
            for j in 0..n {
                if j != i && done & (1 << j) == 0 && ret[j] < call[i] {
                    ok = false;
                    break;
                }
            }
            if !ok {
                continue;
            }
            if let Some(ns) = apply(st, i) {
                if rec(n, done | (1 << i), call, ret, &ns, apply) {
                    return true;
                }
            }
        }
        false
    }
    rec(n, 0, call, ret, &init, apply)
}
