//! End-to-end driver for the DogStatsD exporter as a user builds it: the public builder, a unix datagram socket that
//! plays the agent, the exporter's own forwarder thread. Used where a property depends on what the *builder* hands to
//! the parts the other checks drive directly (payload limit, reservoir size, option order).
use metrics_exporter_dogstatsd::{DogStatsDBuilder, DogStatsDRecorder};
use std::path::Path;
use std::time::{Duration, Instant};

/// Binds `<dir>/<tag>.sock`, builds an exporter that sends there (flush interval 30 ms, telemetry off, then `cfg`),
/// runs `emit` and collects datagrams until `done` says so or `collect` has passed. The forwarder thread of the exporter
/// lives on (the exporter has no shutdown); callers build a handful of exporters per process.
pub fn run_exporter(
    dir: &Path,
    tag: &str,
    cfg: impl FnOnce(DogStatsDBuilder) -> Result<DogStatsDBuilder, String>,
    emit: impl FnOnce(&DogStatsDRecorder),
    collect: Duration,
    done: impl Fn(&[Vec<u8>]) -> bool,
) -> Result<Vec<Vec<u8>>, String> {
    let path = dir.join(format!("{}.sock", tag));
    let _ = std::fs::remove_file(&path);
    let sock = std::os::unix::net::UnixDatagram::bind(&path).map_err(|e| format!("machinery: bind {}: {}", path.display(), e))?;
    sock.set_read_timeout(Some(Duration::from_millis(25))).unwrap();
    let b = DogStatsDBuilder::default().with_remote_address(format!("unixgram://{}", path.display())).map_err(|e| format!("builder: {}", e))?.with_flush_interval(Duration::from_millis(30)).with_telemetry(false);
    let b = cfg(b)?;
    let rec = b.build().map_err(|e| format!("build: {}", e))?;
    emit(&rec);
    let mut got: Vec<Vec<u8>> = Vec::new();
    let t0 = Instant::now();
    let mut buf = vec![0u8; 1 << 16];
    while t0.elapsed() < collect && !done(&got) {
        if let Ok(n) = sock.recv(&mut buf) {
            got.push(buf[..n].to_vec());
        }
    }
    // a little longer: nothing else may follow
    let t1 = Instant::now();
    while t1.elapsed() < Duration::from_millis(120) {
        if let Ok(n) = sock.recv(&mut buf) {
            got.push(buf[..n].to_vec());
        }
    }
    drop(rec);
    let _ = std::fs::remove_file(&path);
    Ok(got)
}

/// The same over UDP: binds 127.0.0.1:0 and hands `cfg` a fresh default builder together with the receiver's address;
/// `cfg` names the address itself (so that it can name other addresses before it).
pub fn run_exporter_udp(
    cfg: impl FnOnce(DogStatsDBuilder, &str) -> Result<DogStatsDBuilder, String>,
    emit: impl FnOnce(&DogStatsDRecorder),
    collect: Duration,
    done: impl Fn(&[Vec<u8>]) -> bool,
) -> Result<Vec<Vec<u8>>, String> {
    let sock = std::net::UdpSocket::bind("127.0.0.1:0").map_err(|e| format!("machinery: bind udp: {}", e))?;
    sock.set_read_timeout(Some(Duration::from_millis(25))).unwrap();
    let addr = sock.local_addr().unwrap().to_string();
    let b = cfg(DogStatsDBuilder::default().with_flush_interval(Duration::from_millis(30)).with_telemetry(false), &addr)?;
    let rec = b.build().map_err(|e| format!("build: {}", e))?;
    emit(&rec);
    let mut got: Vec<Vec<u8>> = Vec::new();
    let t0 = Instant::now();
    let mut buf = vec![0u8; 1 << 16];
    while t0.elapsed() < collect && !done(&got) {
        if let Ok(n) = sock.recv(&mut buf) {
            got.push(buf[..n].to_vec());
        }
    }
    let t1 = Instant::now();
    while t1.elapsed() < Duration::from_millis(150) {
        if let Ok(n) = sock.recv(&mut buf) {
            got.push(buf[..n].to_vec());
        }
    }
    drop(rec);
    Ok(got)
}
