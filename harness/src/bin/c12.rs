//! C12 — idle metrics are dropped exactly when they were idle longer than the timeout (E3).
use metrics::{CounterFn, GaugeFn, HistogramFn, Key, Level, Metadata, Recorder};
use metrics_exporter_prometheus::PrometheusBuilder;
use metrics_util::registry::{GenerationalAtomicStorage, GenerationalStorage, Recency, Registry, AtomicStorage};
use metrics_util::{MetricKind, MetricKindMask};
use quanta::Clock;
use std::collections::BTreeMap;
use std::time::Duration;
use vcore::driver::{self, CheckDef, Ctx, PartResult, PartSpec};
use vcore::json;
use vcore::promtext;
use vcore::vseq;
use vcore::vsched::{self, body, fail, Cfg, Scenario, Verdict};

static META: Metadata<'static> = Metadata::new("t", Level::INFO, None);
const T: u64 = 1000; // idle timeout in clock ticks (ns)
/// the idle timeout the direct part runs with (T by default; parts with a zero and a one-tick timeout set it)
/// prometheus part variant: the builder's idle_timeout option is given twice, the second time with None (withdrawn)
static WITHDRAWN: std::sync::atomic::AtomicBool = std::sync::atomic::AtomicBool::new(false);
static TICKS: std::sync::atomic::AtomicU64 = std::sync::atomic::AtomicU64::new(T);

#[derive(Clone, Copy, Debug, PartialEq, Eq, PartialOrd, Ord, Hash)]
enum K {
    C,
    G,
    H,
}
fn mk(k: K) -> MetricKind {
    match k {
        K::C => MetricKind::Counter,
        K::G => MetricKind::Gauge,
        K::H => MetricKind::Histogram,
    }
}
/// metric universe: the same key `foo` under all three kinds, plus a second counter key
const METRICS: [(K, &str); 4] = [(K::C, "foo"), (K::G, "foo"), (K::H, "foo"), (K::C, "bar")];

#[derive(Clone, Copy, Debug)]
enum Op {
    Update(usize),
    /// an update that leaves the value unchanged: counter increment(0) / absolute(current), gauge set(same), histogram: n/a
    Touch(usize),
    /// registration without any update (the handle is looked up or created, nothing is written): generation 0
    Register(usize),
    Advance(u64),
    Observe(usize),
    ObserveAll,
}
fn alphabet() -> Vec<Op> {
    let mut a = Vec::new();
    for i in 0..4 {
        a.push(Op::Update(i));
    }
    a.push(Op::Touch(0));
    a.push(Op::Touch(3));
    a.push(Op::Register(0));
    a.push(Op::Register(2));
    for d in [1, T - 1, T, T + 1] {
        a.push(Op::Advance(d));
    }
    for i in 0..4 {
        a.push(Op::Observe(i));
    }
    a.push(Op::ObserveAll);
    a
}

#[derive(Default, Clone, Debug)]
struct MState {
    exists: bool,
    gen: u64,
    updates_since_registration: u64,
    entry: Option<(u64, u64)>, // (generation seen, time of the last observation that saw a change)
}

fn masks() -> Vec<(MetricKindMask, &'static str)> {
    vec![(MetricKindMask::NONE, "NONE"), (MetricKindMask::COUNTER, "COUNTER"), (MetricKindMask::GAUGE | MetricKindMask::HISTOGRAM, "GAUGE|HISTOGRAM"), (MetricKindMask::ALL, "ALL")]
}

struct Real {
    reg: Registry<Key, GenerationalAtomicStorage>,
    rec: Recency<Key>,
    mock: std::sync::Arc<quanta::Mock>,
}

fn observe_real(r: &Real, i: usize) -> Option<bool> {
    let (k, name) = METRICS[i];
    let key = Key::from_name(name);
    match k {
        K::C => r.reg.get_counter(&key).map(|h| r.rec.should_store_counter(&key, h.get_generation(), &r.reg)),
        K::G => r.reg.get_gauge(&key).map(|h| r.rec.should_store_gauge(&key, h.get_generation(), &r.reg)),
        K::H => r.reg.get_histogram(&key).map(|h| r.rec.should_store_histogram(&key, h.get_generation(), &r.reg)),
    }
}
fn exists_real(r: &Real, i: usize) -> Option<u64> {
    let (k, name) = METRICS[i];
    let key = Key::from_name(name);
    match k {
        K::C => r.reg.get_counter(&key).map(|h| h.get_inner().load(std::sync::atomic::Ordering::SeqCst)),
        K::G => r.reg.get_gauge(&key).map(|h| h.get_inner().load(std::sync::atomic::Ordering::SeqCst)),
        K::H => r.reg.get_histogram(&key).map(|h| h.get_inner().data().len() as u64),
    }
}

fn observe_model(m: &mut MState, now: u64, covered: bool) -> Option<bool> {
    if !m.exists {
        return None;
    }
    if !covered {
        return Some(true);
    }
    match m.entry {
        None => {
            m.entry = Some((m.gen, now));
            Some(true)
        }
        Some((g, t)) if g == m.gen => {
            if now - t > TICKS.load(std::sync::atomic::Ordering::Relaxed) {
                *m = MState::default();
                Some(false)
            } else {
                Some(true)
            }
        }
        Some(_) => {
            m.entry = Some((m.gen, now));
            Some(true)
        }
    }
}

fn direct(ctx: &Ctx, res: &mut PartResult, depth: usize, mask_i: usize, timeout: bool, first: Option<usize>) {
    res.engine = "E3 bounded exhaustive update/advance/observe sequences on the real Recency + Registry under a mock clock".into();
    vseq::quiet_panics();
    let alpha = alphabet();
    let (mask, mask_name) = masks()[mask_i];
    let mut states = vseq::States::new();
    let mut fails: Vec<(String, String, Vec<usize>)> = Vec::new();
    let mut transitions = 0u64;
    let replay_seq: Option<Vec<usize>> = ctx.replay.as_ref().and_then(|r| r["seq"].as_array().map(|a| a.iter().map(|x| x.as_u64().unwrap() as usize).collect()));
    let mut run_seq = |tail: &[usize]| -> Option<usize> {
        let mut seq: Vec<usize> = first.into_iter().collect();
        seq.extend_from_slice(tail);
        let off = first.is_some() as usize;
        let (clock, mock) = Clock::mock();
        let r = Real { reg: Registry::new(GenerationalStorage::new(AtomicStorage)), rec: Recency::new(clock, mask, if timeout { Some(Duration::from_nanos(TICKS.load(std::sync::atomic::Ordering::Relaxed))) } else { None }), mock };
        let mut ms: Vec<MState> = vec![MState::default(); 4];
        let mut now = 0u64;
        // every sequence is followed by one more observation of everything (what the next scrape would do)
        let mut with_final: Vec<usize> = seq.clone();
        with_final.push(alpha.len() - 1);
        for (i, o) in with_final.iter().enumerate() {
            transitions += 1;
            let op = alpha[*o];
            let i = i.min(seq.len() - 1);
            let mut bad: Option<(String, String)> = None;
            let mut check_obs = |mi: usize, ms: &mut Vec<MState>, bad: &mut Option<(String, String)>| {
                let covered = timeout && mask.matches(mk(METRICS[mi].0));
                let before = ms[mi].clone();
                let want = observe_model(&mut ms[mi], now, covered);
                let got = observe_real(&r, mi);
                if got != want && bad.is_none() {
                    let sig = match (got, want) {
                        (Some(false), Some(true)) => {
                            if !covered {
                                "metric-outside-mask-or-without-timeout-dropped"
                            } else {
                                "metric-dropped-before-idle-timeout"
                            }
                        }
                        (Some(true), Some(false)) => "idle-metric-not-dropped",
                        _ => "observation-of-missing-metric",
                    };
                    *bad = Some((sig.into(), format!("observing {:?} at t={} (state before: {:?}, mask {}, timeout {}): keep={:?}, expected {:?}", METRICS[mi], now, before, mask_name, timeout, got, want)));
                }
            };
            match op {
                Op::Update(mi) => {
                    let (k, name) = METRICS[mi];
                    let key = Key::from_name(name);
                    match k {
                        K::C => r.reg.get_or_create_counter(&key, |c| CounterFn::increment(c, 1)),
                        // a gauge update that leaves the value unchanged
                        K::G => r.reg.get_or_create_gauge(&key, |g| GaugeFn::set(g, 1.0)),
                        // both entry points of a histogram, alternately: record and the batched record_many
                        K::H => {
                            if ms[mi].gen % 2 == 0 {
                                r.reg.get_or_create_histogram(&key, |h| HistogramFn::record(h, 1.0))
                            } else {
                                r.reg.get_or_create_histogram(&key, |h| HistogramFn::record_many(h, 1.0, 1))
                            }
                        }
                    }
                    let m = &mut ms[mi];
                    m.exists = true;
                    m.gen += 1;
                    m.updates_since_registration += 1;
                }
                Op::Touch(mi) => {
                    let (_, name) = METRICS[mi];
                    let key = Key::from_name(name);
                    // counters only (metrics 0 and 3): alternate increment(0) and absolute(current value)
                    let cur = ms[mi].updates_since_registration;
                    if ms[mi].gen % 2 == 0 {
                        r.reg.get_or_create_counter(&key, |c| CounterFn::increment(c, 0));
                    } else {
                        r.reg.get_or_create_counter(&key, |c| CounterFn::absolute(c, cur));
                    }
                    let m = &mut ms[mi];
                    m.exists = true;
                    m.gen += 1;
                }
                Op::Register(mi) => {
                    let (k, name) = METRICS[mi];
                    let key = Key::from_name(name);
                    match k {
                        K::C => r.reg.get_or_create_counter(&key, |_| ()),
                        K::G => unreachable!(),
                        K::H => r.reg.get_or_create_histogram(&key, |_| ()),
                    }
                    ms[mi].exists = true;
                }
                Op::Advance(d) => {
                    r.mock.increment(d);
                    now += d;
                }
                Op::Observe(mi) => check_obs(mi, &mut ms, &mut bad),
                Op::ObserveAll => {
                    for mi in 0..4 {
                        check_obs(mi, &mut ms, &mut bad);
                    }
                }
            }
            // registry contents after every step
            if bad.is_none() {
                for mi in 0..4 {
                    let want = if ms[mi].exists {
                        Some(match METRICS[mi].0 {
                            K::G => 1.0f64.to_bits(),
                            _ => ms[mi].updates_since_registration,
                        })
                    } else {
                        None
                    };
                    let got = exists_real(&r, mi);
                    if got != want {
                        let sig = if got.is_some() && want.is_some() { "kept-metric-lost-its-value" } else if want.is_some() { "metric-dropped-before-idle-timeout" } else { "idle-metric-not-dropped" };
                        bad = Some((sig.into(), format!("after {:?}: registry holds {:?} for {:?}, expected {:?}", op, got, METRICS[mi], want)));
                        break;
                    }
                }
            }
            states.add(&format!("{:?}", ms));
            if let Some((sig, msg)) = bad {
                fails.push((sig, format!("{} ;; sequence {:?}", msg, seq[..=i].iter().map(|x| alpha[*x]).collect::<Vec<_>>()), seq[..=i].to_vec()));
                return Some(i.saturating_sub(off));
            }
        }
        None
    };
    if let Some(seq) = replay_seq {
        run_seq(if first.is_some() { &seq[1..] } else { &seq[..] });
        res.executions = 1;
    } else {
        let d = if first.is_some() { depth - 1 } else { depth };
        let (n, complete) = vseq::for_each_seq(alpha.len(), d, &mut run_seq, &|| ctx.over_budget());
        res.executions = n;
        res.exhaustive = complete;
        if !complete {
            res.cap_hit = Some("budget (cpu time of the part)".into());
        }
    }
    res.transitions = transitions;
    res.states = states.len();
    res.distinct_outcomes = states.len();
    res.bound = json!({"depth": depth, "alphabet": alpha.len(), "mask": mask_name, "timeout": timeout, "first_op_fixed": first});
    for (sig, msg, seq) in fails {
        res.violation(&sig, msg, json!({"seq": seq}));
    }
    res.sample(json!({"mask": mask_name, "timeout_ticks": if timeout { Some(T) } else { None }, "ops": format!("{:?}", [alpha[0], alpha[14], alpha[9], alpha[1], alpha[4]])}));
}

// ------------------------------------------------------------------ through the Prometheus exporter
#[derive(Clone, Copy, Debug)]
enum POp {
    Inc,
    Set,
    Rec,
    Advance(u64),
    Render,
}
fn prom(ctx: &Ctx, res: &mut PartResult, depth: usize, mask_i: usize, global_label: bool) {
    res.engine = "E3 bounded exhaustive update/advance/render sequences through the real Prometheus exporter under a mock clock".into();
    vseq::quiet_panics();
    let alpha = [POp::Inc, POp::Set, POp::Rec, POp::Advance(1), POp::Advance(T), POp::Advance(T + 1), POp::Render];
    let (mask, mask_name) = masks()[mask_i];
    let kinds = [K::C, K::G, K::H];
    let names = ["c_m", "g_m", "h_m"];
    let mut states = vseq::States::new();
    let mut fails: Vec<(String, String, Vec<usize>)> = Vec::new();
    let mut transitions = 0u64;
    let replay_seq: Option<Vec<usize>> = ctx.replay.as_ref().and_then(|r| r["seq"].as_array().map(|a| a.iter().map(|x| x.as_u64().unwrap() as usize).collect()));
    let mut run_seq = |seq: &[usize]| -> Option<usize> {
        let (clock, mock) = Clock::mock();
        let withdrawn = WITHDRAWN.load(std::sync::atomic::Ordering::Relaxed);
        let mut b = if withdrawn {
            // a timeout for everything first, then the option again with None: no timeout is set
            PrometheusBuilder::new().idle_timeout(MetricKindMask::ALL, Some(Duration::from_nanos(T))).idle_timeout(mask, None)
        } else {
            // (the same option given twice with a timeout: the later call counts)
            PrometheusBuilder::new().idle_timeout(MetricKindMask::NONE, Some(Duration::from_nanos(T * 7))).idle_timeout(mask, Some(Duration::from_nanos(T)))
        };
        if global_label {
            // the aggregated distributions are keyed by the merged label set: expiry has to find them under it too
            b = b.add_global_label("service", "demo");
        }
        let rec = b.verif_build_with_clock(clock);
        let h = rec.handle();
        let mut ms: Vec<MState> = vec![MState::default(); 3];
        let mut now = 0u64;
        let n = seq.len();
        for i in 0..=n {
            let op = if i < n { alpha[seq[i]] } else { POp::Render };
            transitions += 1;
            let mut touch = |mi: usize, ms: &mut Vec<MState>| {
                ms[mi].exists = true;
                ms[mi].gen += 1;
                ms[mi].updates_since_registration += 1;
            };
            match op {
                POp::Inc => {
                    rec.register_counter(&Key::from_name(names[0]), &META).increment(1);
                    touch(0, &mut ms);
                }
                POp::Set => {
                    rec.register_gauge(&Key::from_name(names[1]), &META).set(1.0);
                    touch(1, &mut ms);
                }
                POp::Rec => {
                    if ms[2].gen % 2 == 0 {
                        rec.register_histogram(&Key::from_name(names[2]), &META).record(1.0);
                    } else {
                        rec.register_histogram(&Key::from_name(names[2]), &META).record_many(1.0, 1);
                    }
                    touch(2, &mut ms);
                }
                POp::Advance(d) => {
                    mock.increment(d);
                    now += d;
                }
                POp::Render => {
                    let text = h.render();
                    let mut want: BTreeMap<&str, u64> = BTreeMap::new();
                    for mi in 0..3 {
                        let covered = !withdrawn && mask.matches(mk(kinds[mi]));
                        if observe_model(&mut ms[mi], now, covered) == Some(true) {
                            want.insert(names[mi], ms[mi].updates_since_registration);
                        }
                    }
                    let bad = match promtext::parse(&text) {
                        Err(e) => Some(("malformed-exposition".to_string(), e)),
                        Ok(fams) => {
                            let mut got: BTreeMap<String, u64> = BTreeMap::new();
                            for f in &fams {
                                let v = match f.ty.as_str() {
                                    "counter" => f.samples[0].value.parse::<u64>().unwrap_or(u64::MAX),
                                    "gauge" => if f.samples[0].value_f64() == 1.0 { 1 } else { u64::MAX },
                                    _ => f.samples.iter().find(|s| s.name.ends_with("_count")).and_then(|s| s.value.parse().ok()).unwrap_or(u64::MAX),
                                };
                                got.insert(f.name.clone(), v);
                            }
                            let wantv: BTreeMap<String, u64> = want.iter().map(|(k, v)| (k.to_string(), if *k == "g_m" { 1 } else { *v })).collect();
                            states.add(&format!("{:?}", got));
                            if got != wantv {
                                let sig = if got.len() > wantv.len() { "idle-metric-not-dropped" } else if got.len() < wantv.len() { "metric-dropped-before-idle-timeout" } else { "kept-metric-lost-its-value" };
                                Some((sig.to_string(), format!("render at t={} shows {:?}, expected {:?}", now, got, wantv)))
                            } else {
                                None
                            }
                        }
                    };
                    if let Some((sig, msg)) = bad {
                        fails.push((sig, format!("{} (mask {}) ;; sequence {:?}", msg, mask_name, seq[..i.min(n)].iter().map(|x| alpha[*x]).collect::<Vec<_>>()), seq[..(i + 1).min(n)].to_vec()));
                        return Some(i.min(n.saturating_sub(1)));
                    }
                }
            }
        }
        None
    };
    if let Some(seq) = replay_seq {
        run_seq(&seq);
        res.executions = 1;
    } else {
        let (n, complete) = vseq::for_each_seq(alpha.len(), depth, &mut run_seq, &|| ctx.over_budget());
        res.executions = n;
        res.exhaustive = complete;
        if !complete {
            res.cap_hit = Some("budget (cpu time of the part)".into());
        }
    }
    res.transitions = transitions;
    res.states = states.len();
    res.distinct_outcomes = states.len();
    res.bound = json!({"depth": depth, "alphabet": alpha.len(), "mask": mask_name});
    for (sig, msg, seq) in fails {
        res.violation(&sig, msg, json!({"seq": seq}));
    }
    res.sample(json!({"mask": mask_name, "ops": "Inc, Render, Advance(1001), Render, Inc, Render"}));
}

/// Several series of ONE metric name (label sets a, b, c) under the exporter: all are written at t=0, every subset U of
/// them is written again at T/2, renders follow at T/2, T+1 and 2T+2. At T+1 exactly the series in U are shown (with both
/// writes), the others have disappeared together; at 2T+2 all are gone; a series written again afterwards starts from
/// zero. For counters, gauges and histograms (a histogram series also has an aggregated distribution to forget).
fn same_name_series(res: &mut PartResult) {
    res.engine = "E3 subsets of same-name series x kinds through the Prometheus exporter under a mock clock".into();
    let mut states = vseq::States::new();
    let shards = ["a", "b", "c"];
    for kind in 0..3usize {
        for u in 0..8u8 {
            res.executions += 1;
            let (clock, mock) = Clock::mock();
            let rec = PrometheusBuilder::new().idle_timeout(MetricKindMask::ALL, Some(Duration::from_nanos(T))).verif_build_with_clock(clock);
            let h = rec.handle();
            let write = |sh: &str| {
                let key = Key::from_parts("m", vec![metrics::Label::new("shard", sh.to_string())]);
                match kind {
                    0 => rec.register_counter(&key, &META).increment(1),
                    1 => rec.register_gauge(&key, &META).increment(1.0),
                    _ => rec.register_histogram(&key, &META).record(1.0),
                }
            };
            // per shard: the value shown (counter value / gauge value / histogram _count), None = absent
            let shown = |text: &str| -> Result<BTreeMap<String, u64>, String> {
                let fams = promtext::parse(text)?;
                let mut m = BTreeMap::new();
                for f in &fams {
                    for sm in &f.samples {
                        if kind == 2 && !sm.name.ends_with("_count") {
                            continue;
                        }
                        if let Some(sh) = sm.label("shard") {
                            m.insert(sh.to_string(), sm.value_f64() as u64);
                        }
                    }
                }
                Ok(m)
            };
            let cfg = json!({"same_name": [kind, u]});
            let mut step = |at: &str, want: BTreeMap<String, u64>, res: &mut PartResult| {
                res.transitions += 1;
                match shown(&h.render()) {
                    Err(e) => res.violation("malformed-exposition", format!("{}: {}", at, e), cfg.clone()),
                    Ok(got) => {
                        states.add(&(kind, format!("{:?}", got)));
                        if got != want {
                            let sig = if got.len() > want.len() { "idle-metric-not-dropped" } else if got.len() < want.len() { "metric-dropped-before-idle-timeout" } else { "kept-metric-lost-its-value" };
                            res.violation(sig, format!("three {} series m{{shard=a|b|c}} written at t=0, the subset {:?} again at T/2; render {}: shows {:?}, expected {:?}", ["counter", "gauge", "histogram"][kind], shards.iter().enumerate().filter(|(i, _)| u & (1 << i) != 0).map(|(_, s)| *s).collect::<Vec<_>>(), at, got, want), cfg.clone());
                        }
                    }
                }
            };
            for sh in shards {
                write(sh);
            }
            step("at t=0", shards.iter().map(|s| (s.to_string(), 1)).collect(), res);
            mock.increment(T / 2);
            for (i, sh) in shards.iter().enumerate() {
                if u & (1 << i) != 0 {
                    write(sh);
                }
            }
            step("at T/2", shards.iter().enumerate().map(|(i, s)| (s.to_string(), if u & (1 << i) != 0 { 2 } else { 1 })).collect(), res);
            mock.increment(T / 2 + 1);
            step("at T+1", shards.iter().enumerate().filter(|(i, _)| u & (1 << i) != 0).map(|(_, s)| (s.to_string(), 2)).collect(), res);
            mock.increment(T + 1);
            step("at 2T+2", BTreeMap::new(), res);
            // a series written again starts from zero
            write("b");
            step("after b was written again", [("b".to_string(), 1u64)].into_iter().collect(), res);
        }
    }
    res.states = states.len();
    res.distinct_outcomes = states.len();
    res.sample(json!({"series": "m{shard=a}, m{shard=b}, m{shard=c}", "rewritten_at_T/2": ["b"], "expected_at_T+1": "only b"}));
}

// ------------------------------------------------------------------ E1: an update racing an observation
struct ES {
    rec: metrics_exporter_prometheus::PrometheusRecorder,
    h: metrics_exporter_prometheus::PrometheusHandle,
    mock: std::sync::Arc<quanta::Mock>,
    seen: std::sync::Mutex<Vec<Option<(u64, f64)>>>,
}
/// (count-like value, sum-like value) of the one family under test in a rendering; None = the family is absent
fn seen_in(text: &str, kind: K) -> Option<(u64, f64)> {
    let fams = promtext::parse(text).ok()?;
    let f = fams.first()?;
    match kind {
        K::C => Some((f.samples[0].value.parse().ok()?, 0.0)),
        K::G => Some((0, f.samples[0].value_f64())),
        K::H => Some((f.samples.iter().find(|s| s.name.ends_with("_count"))?.value.parse().ok()?, f.samples.iter().find(|s| s.name.ends_with("_sum"))?.value_f64())),
    }
}
/// One metric, updated once and observed (render #1) at t=0. Then an updater thread applies one more update while an
/// observer thread advances the clock by T/2 and renders (#2). Afterwards the clock advances by T+1 and a final render
/// (#3) is made. Whatever the interleaving: render #2 shows the metric (it was not idle) with its value before or after
/// the racing update; and the racing update is never lost — if render #3 no longer shows the metric (dropped as idle
/// since render #2), render #2 must already have reported the updated value; if it still shows it, with the updated value.
fn e1_update_vs_observe(ctx: &Ctx, res: &mut PartResult, pb: usize, kind: K) {
    let (before, after): ((u64, f64), (u64, f64)) = match kind {
        K::C => ((1, 0.0), (6, 0.0)),
        K::G => ((0, 1.5), (0, 4.0)),
        K::H => ((1, 1.0), (2, 5.0)),
    };
    let scn = Scenario {
        name: format!("{:?}: updater (one update) || observer (advance T/2, render); then advance T+1, render", kind),
        setup: Box::new(move || {
            let (clock, mock) = Clock::mock();
            let rec = PrometheusBuilder::new().idle_timeout(MetricKindMask::ALL, Some(Duration::from_nanos(T))).verif_build_with_clock(clock);
            let h = rec.handle();
            match kind {
                K::C => rec.register_counter(&Key::from_name("m"), &META).increment(1),
                K::G => rec.register_gauge(&Key::from_name("m"), &META).set(1.5),
                K::H => rec.register_histogram(&Key::from_name("m"), &META).record(1.0),
            }
            let first = seen_in(&h.render(), kind);
            // the render drained the histogram's bucket: let the epoch collector free that block now, on this
            // (non-model) thread, so that its destructor does not run at an epoch-dependent point inside the exploration
            for _ in 0..64 {
                crossbeam_epoch::pin().flush();
            }
            ES { rec, h, mock, seen: std::sync::Mutex::new(vec![first]) }
        }),
        bodies: vec![
            body(move |s: &ES| match kind {
                K::C => s.rec.register_counter(&Key::from_name("m"), &META).increment(5),
                K::G => s.rec.register_gauge(&Key::from_name("m"), &META).increment(2.5),
                K::H => s.rec.register_histogram(&Key::from_name("m"), &META).record(4.0),
            }),
            body(move |s: &ES| {
                s.mock.increment(T / 2);
                let v = seen_in(&s.h.render(), kind);
                s.seen.lock().unwrap().push(v);
            }),
        ],
        check: Box::new(move |s, _| {
            s.mock.increment(T + 1);
            let last = seen_in(&s.h.render(), kind);
            let seen = s.seen.lock().unwrap().clone();
            if seen[0] != Some(before) {
                return fail("kept-metric-lost-its-value", format!("render #1 shows {:?}, expected {:?}", seen[0], before));
            }
            let second = seen[1];
            if second != Some(before) && second != Some(after) {
                let sig = if second.is_none() { "metric-dropped-before-idle-timeout" } else { "kept-metric-lost-its-value" };
                return fail(sig, format!("render #2 (T/2 after render #1, racing with an update) shows {:?}; expected {:?} or {:?}", second, before, after));
            }
            match last {
                Some(v) if v == after => Verdict::Ok(format!("{:?} kept", second)),
                // a histogram that was dropped and whose racing sample arrives afterwards starts a fresh series
                Some(v) => fail("kept-metric-lost-its-value", format!("final render shows {:?}, expected {:?} (render #2 showed {:?})", v, after, second)),
                None if second == Some(after) => Verdict::Ok("reported in full, then dropped as idle".into()),
                None => fail("metric-dropped-before-idle-timeout", format!("the metric was updated ({:?} -> {:?}) after render #2 had reported {:?}, yet the final render (T+1 later) dropped it as idle: the update was never reported", before, after, second)),
            }
        }),
        termination_promised: true,
    };
    vsched::explore(&scn, &Cfg { max_bound: pb, horizon: 20000 }, ctx, res);
}

fn parts(ctx: &Ctx) -> Vec<PartSpec> {
    let mut v = Vec::new();
    let n = alphabet().len();
    for mi in 0..4 {
        for to in [false, true] {
            if !to && mi != 3 {
                continue; // without a timeout the mask is irrelevant: one configuration suffices
            }
            if ctx.quick() {
                v.push(PartSpec::new(&format!("direct-d5-mask{}-timeout{}", mi, to as u8), json!({"depth": 5, "mask": mi, "timeout": to})).budget(150.0));
            } else {
                for f in 0..n {
                    v.push(PartSpec::new(&format!("direct-d7-mask{}-timeout{}-first{}", mi, to as u8, f), json!({"depth": 7, "mask": mi, "timeout": to, "first": f})).budget(2400.0));
                }
            }
        }
        v.push(PartSpec::new(&format!("prometheus-mask{}", mi), json!({"prom": true, "mask": mi, "depth": if ctx.quick() { 6 } else { 8 }})).budget(if ctx.quick() { 150.0 } else { 2400.0 }));
    }
    // the timeout itself is a value like any other: zero (every covered metric found unchanged at a later observation
    // is dropped) and one tick
    for (mi, ticks) in [(3usize, 0u64), (1, 0), (3, 1)] {
        let d = if ctx.quick() { 5 } else { 6 };
        v.push(PartSpec::new(&format!("direct-d{}-mask{}-timeout-{}-ticks", d, mi, ticks), json!({"depth": d, "mask": mi, "timeout": true, "ticks": ticks})).budget(if ctx.quick() { 150.0 } else { 2400.0 }));
    }
    v.push(PartSpec::new("prometheus-mask3-timeout-withdrawn", json!({"prom": true, "mask": 3, "withdrawn": true, "depth": if ctx.quick() { 5 } else { 7 }})).budget(if ctx.quick() { 150.0 } else { 2400.0 }));
    v.push(PartSpec::new("prometheus-same-name-series", json!({"same_name": true})));
    v.push(PartSpec::new("prometheus-mask3-global-label", json!({"prom": true, "mask": 3, "global": true, "depth": if ctx.quick() { 5 } else { 7 }})).budget(if ctx.quick() { 150.0 } else { 2400.0 }));
    for (ki, kn) in ["counter", "gauge", "histogram"].iter().enumerate() {
        let pb = if ctx.quick() { 2 } else { 4 };
        v.push(PartSpec::new(&format!("e1-update-vs-observe-{}-pb{}", kn, pb), json!({"e1": pb, "kind": ki})).cpus("0").budget(if ctx.quick() { 150.0 } else { 1500.0 }));
    }
    v
}

fn run(ctx: &Ctx, spec: &PartSpec) -> PartResult {
    let mut res = PartResult::new(&spec.name, "");
    let mask = spec.arg["mask"].as_u64().unwrap_or(3) as usize;
    let depth = spec.arg["depth"].as_u64().unwrap_or(5) as usize;
    if let Some(pb) = spec.arg["e1"].as_u64() {
        let kind = [K::C, K::G, K::H][spec.arg["kind"].as_u64().unwrap_or(0) as usize];
        e1_update_vs_observe(ctx, &mut res, pb as usize, kind);
    } else if spec.arg["same_name"].as_bool() == Some(true) {
        same_name_series(&mut res);
    } else if spec.arg["prom"].as_bool() == Some(true) {
        WITHDRAWN.store(spec.arg["withdrawn"].as_bool().unwrap_or(false), std::sync::atomic::Ordering::Relaxed);
        prom(ctx, &mut res, depth, mask, spec.arg["global"].as_bool().unwrap_or(false));
    } else {
        TICKS.store(spec.arg["ticks"].as_u64().unwrap_or(T), std::sync::atomic::Ordering::Relaxed);
        direct(ctx, &mut res, depth, mask, spec.arg["timeout"].as_bool().unwrap_or(true), spec.arg["first"].as_u64().map(|x| x as usize));
    }
    res
}

fn main() {
    driver::main(CheckDef {
        prop: "C12",
        level: "model_checking",
        rule: "direct: every sequence of the stated depth over 13 operations (update of 4 metrics incl. the same key under three kinds and a gauge update leaving the value unchanged; clock advance by 1, T-1, T, T+1 ticks; observe one metric; observe all) on the real Recency + Registry<Key, GenerationalAtomicStorage> under quanta's mock clock, for masks {NONE, COUNTER, GAUGE|HISTOGRAM, ALL} with the timeout and ALL without, plus timeouts of zero and one tick; via Prometheus: every sequence over {inc, set, record, advance 1/T/T+1, render} through verif_build_with_clock and the strict parser (the builder's idle_timeout option given twice: the later call counts, and a later None withdraws the timeout); three series of one name (label sets a, b, c) x every subset written again at T/2 x 3 kinds through the exporter: exactly the rewritten ones survive T+1, all are gone at 2T+2, a series written again starts from zero; reference per (kind,key): (generation, time of the last observation that saw a change); E1: every SC interleaving (pb-bounded) of one update (counter increment / gauge increment / histogram record through the exporter's generational handles) with an observation (clock advance + render) between two sequential observations: the racing update is reported before the metric can be dropped as idle; distinct = distinct reference states; a registration that writes nothing (get-or-create with an empty operation) for a counter and a histogram is part of the alphabet",
        assumptions: &["time only advances through the mock clock", "the direct part observes a metric the way the exporters do: look the handle up, read its generation, ask should_store_*"],
        parts,
        run,
    });
}
