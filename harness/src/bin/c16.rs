//! C16 — the sampling reservoir reports true counts and favours no stream position (E3 probability tree + E1).
use metrics_util::storage::reservoir::AtomicSamplingReservoir;
use vcore::driver::{self, CheckDef, Ctx, PartResult, PartSpec};
use vcore::json;
use vcore::vseq;
use vcore::vsched::{self, body, fail, Cfg, Log, RngScript, Scenario, Verdict, RNG_SCRIPT};

fn gcd(a: u128, b: u128) -> u128 {
    if b == 0 {
        a
    } else {
        gcd(b, a % b)
    }
}
#[derive(Clone, Copy, Debug, PartialEq)]
struct Q(u128, u128);
impl Q {
    fn add(self, o: Q) -> Q {
        let n = self.0 * o.1 + o.0 * self.1;
        let d = self.1 * o.1;
        let g = gcd(n, d).max(1);
        Q(n / g, d / g)
    }
    fn same(self, o: Q) -> bool {
        self.0 * o.1 == o.0 * self.1
    }
}

struct Leaf {
    answers: Vec<usize>,
    uppers: Vec<usize>,
    /// per cycle: (yielded values, reported sample rate, is_empty before, is_empty after)
    cycles: Vec<(Vec<f64>, f64)>,
    panic: Option<String>,
}

/// One complete run: `cycles` = number of pushes per cycle; values are distinct: cycle k pushes k*100+1 ..
fn run_leaf(cap: usize, cycles: &[usize], prefix: &[usize]) -> Leaf {
    RNG_SCRIPT.with(|s| *s.borrow_mut() = Some(RngScript { prefix: prefix.to_vec(), ..Default::default() }));
    let mut out: Vec<(Vec<f64>, f64)> = Vec::new();
    let r = vseq::catch(|| {
        let res = AtomicSamplingReservoir::new(cap);
        for (k, n) in cycles.iter().enumerate() {
            for i in 0..*n {
                res.push((k * 100 + i + 1) as f64);
            }
            let mut got = Vec::new();
            let mut rate = -1.0;
            res.consume(|mut d| {
                rate = d.sample_rate();
                let l = d.len();
                // the reported rate does not depend on when it is asked: before, in the middle of, or after iterating
                let mut v: Vec<f64> = Vec::new();
                while let Some(x) = d.next() {
                    v.push(x);
                    let r = d.sample_rate();
                    assert!(r == rate, "sig=sample-rate-wrong: sample_rate() changed from {} to {} after {} of {} values were taken from the drain", rate, r, v.len(), l);
                    assert_eq!(d.len(), l - v.len(), "Drain::len() disagrees with the number of values still to be yielded");
                }
                assert_eq!(l, v.len(), "Drain::len() disagrees with the number of values yielded");
                got = v;
            });
            out.push((got, rate));
        }
    });
    let sc = RNG_SCRIPT.with(|s| s.borrow_mut().take()).unwrap();
    Leaf { answers: sc.answers, uppers: sc.uppers, cycles: out, panic: r.err() }
}

fn e3_tree(ctx: &Ctx, res: &mut PartResult, caps: &[usize], extra: usize) {
    vcore::vsched::install_hooks();
    vseq::quiet_panics();
    res.engine = "E3 complete tree of RNG answers with exact rational path weights".into();
    let mut states = vseq::States::new();
    if let Some(rp) = &ctx.replay {
        let cap = rp["cap"].as_u64().unwrap() as usize;
        let cycles: Vec<usize> = rp["cycles"].as_array().unwrap().iter().map(|x| x.as_u64().unwrap() as usize).collect();
        let prefix: Vec<usize> = rp["answers"].as_array().map(|a| a.iter().map(|x| x.as_u64().unwrap() as usize).collect()).unwrap_or_default();
        check_config(res, &mut states, cap, &cycles, Some(prefix));
        return;
    }
    for &cap in caps {
        for n1 in 0..=cap + extra {
            for n2 in [0usize, 1, cap + 1] {
                if ctx.over_budget() {
                    res.cap_hit = Some("budget (cpu time of the part)".into());
                    res.exhaustive = false;
                    return;
                }
                check_config(res, &mut states, cap, &[n1, n2], None);
            }
        }
    }
    res.states = states.len();
    res.distinct_outcomes = states.len();
    res.bound = json!({"capacities": caps, "pushes_per_cycle": format!("0..=cap+{}", extra), "cycles": 2});
}

fn check_config(res: &mut PartResult, states: &mut vseq::States, cap: usize, cycles: &[usize], only: Option<Vec<usize>>) {
    // DFS over answer prefixes
    let mut stack: Vec<Vec<usize>> = vec![only.clone().unwrap_or_default()];
    let mut leaves: Vec<Leaf> = Vec::new();
    while let Some(prefix) = stack.pop() {
        let leaf = run_leaf(cap, cycles, &prefix);
        res.executions += 1;
        res.transitions += cycles.iter().sum::<usize>() as u64 + cycles.len() as u64;
        if only.is_none() {
            for i in prefix.len()..leaf.uppers.len() {
                for alt in 1..leaf.uppers[i] {
                    let mut p = leaf.answers[..i].to_vec();
                    p.push(alt);
                    stack.push(p);
                }
            }
        }
        leaves.push(leaf);
        if leaves.len() > 2_000_000 {
            res.error = Some("probability tree too large".into());
            return;
        }
    }
    let cfg = |l: &Leaf| json!({"cap": cap, "cycles": cycles, "answers": l.answers});
    // per-leaf oracle
    for l in &leaves {
        states.add(&format!("{}/{:?}/{:?}/{:?}", cap, cycles, l.cycles, l.panic.is_some()));
        if let Some(p) = &l.panic {
            let sig = if p.contains("empty range") { "push-panics-capacity-zero" } else if p.contains("sig=sample-rate-wrong") { "sample-rate-wrong" } else { "reservoir-panic" };
            res.violation(sig, format!("capacity {} pushes/cycle {:?}: panic: {}", cap, cycles, p), cfg(l));
            continue;
        }
        for (k, (got, rate)) in l.cycles.iter().enumerate() {
            let n = cycles[k];
            let lo = (k * 100 + 1) as f64;
            let hi = (k * 100 + n) as f64;
            let mut seen = std::collections::BTreeSet::new();
            for v in got {
                if !(*v >= lo && *v <= hi) {
                    res.violation("drain-yields-value-not-pushed-this-cycle", format!("capacity {} cycle {} ({} pushes): yielded {:?}", cap, k, n, got), cfg(l));
                }
                if !seen.insert(v.to_bits()) {
                    res.violation("drain-yields-duplicate", format!("capacity {} cycle {}: yielded {:?}", cap, k, got), cfg(l));
                }
            }
            if got.len() != n.min(cap) {
                res.violation("drain-yields-wrong-count", format!("capacity {} cycle {} ({} pushes): yielded {} values {:?}, expected {}", cap, k, n, got.len(), got, n.min(cap)), cfg(l));
            }
            let want_rate = if n == 0 { 1.0 } else { got.len() as f64 / n as f64 };
            if (rate - want_rate).abs() > 1e-12 {
                res.violation("sample-rate-wrong", format!("capacity {} cycle {} ({} pushes, {} yielded): sample_rate {} expected {}", cap, k, n, got.len(), rate, want_rate), cfg(l));
            }
        }
    }
    if only.is_some() {
        return;
    }
    // retention probabilities of cycle 0 (exact)
    let n = cycles[0];
    if n > cap && cap > 0 && leaves.iter().all(|l| l.panic.is_none()) {
        let mut total = Q(0, 1);
        let mut p = vec![Q(0, 1); n];
        for l in &leaves {
            let w = Q(1, l.uppers.iter().map(|u| *u as u128).product::<u128>().max(1));
            total = total.add(w);
            for v in &l.cycles[0].0 {
                let i = *v as usize - 1;
                if i < n {
                    p[i] = p[i].add(w);
                }
            }
        }
        if !total.same(Q(1, 1)) {
            res.error = Some(format!("path weights sum to {:?}", total));
            return;
        }
        for (i, q) in p.iter().enumerate() {
            if !q.same(Q(cap as u128, n as u128)) {
                res.violation("stream-position-favoured", format!("capacity {} with {} pushes: P(position {} retained) = {}/{} instead of {}/{} (all positions: {:?})", cap, n, i, q.0, q.1, cap, n, p.iter().map(|x| format!("{}/{}", x.0, x.1)).collect::<Vec<_>>()), json!({"cap": cap, "cycles": cycles}));
                break;
            }
        }
    }
    if res.samples.len() < 3 && cap == 2 && cycles[0] == 4 {
        res.sample(json!({"cap": cap, "pushes_per_cycle": cycles, "leaves": leaves.len(), "one_leaf": {"answers": leaves[0].answers, "uppers": leaves[0].uppers, "yielded": leaves[0].cycles.iter().map(|c| c.0.clone()).collect::<Vec<_>>()}}));
    }
}

// ------------------------------------------------------------------ E1: push vs consume
#[derive(Clone, Debug)]
enum Ev {
    PushCall(u64),
    PushRet(u64),
    ConsCall(usize),
    /// the drain closure of consume #id started (the active side has been swapped by then)
    ConsClosure(usize),
    ConsRet(usize, Vec<f64>, f64),
}
struct S {
    r: AtomicSamplingReservoir,
    log: Log<Ev>,
}
fn consume(s: &S, id: usize) {
    s.log.push(Ev::ConsCall(id));
    let mut got = Vec::new();
    let mut rate = 0.0;
    s.r.consume(|d| {
        s.log.push(Ev::ConsClosure(id));
        rate = d.sample_rate();
        got = d.collect();
    });
    s.log.push(Ev::ConsRet(id, got, rate));
}

fn e1(ctx: &Ctx, res: &mut PartResult, pb: usize, two_pushers: bool, two_consumers: bool, cap: usize) {
    let mut bodies = vec![body(|s: &S| {
        for v in [1u64, 2] {
            s.log.push(Ev::PushCall(v));
            s.r.push(v as f64);
            s.log.push(Ev::PushRet(v));
        }
    })];
    if two_pushers {
        bodies.push(body(|s: &S| {
            s.log.push(Ev::PushCall(3));
            s.r.push(3.0);
            s.log.push(Ev::PushRet(3));
        }));
    }
    if two_consumers {
        bodies.push(body(|s: &S| consume(s, 0)));
        bodies.push(body(|s: &S| consume(s, 1)));
    } else {
        bodies.push(body(|s: &S| {
            consume(s, 0);
            consume(s, 1);
        }));
    }
    let npush: u64 = if two_pushers { 3 } else { 2 };
    let scn = Scenario {
        name: format!("pusher(2 pushes){} || {}, capacity {cap}, then 2 sequential consumes", if two_pushers { " || pusher(1 push)" } else { "" }, if two_consumers { "consumer(1 consume) || consumer(1 consume)" } else { "consumer(2 consumes)" }),
        setup: Box::new(move || S { r: AtomicSamplingReservoir::new(cap), log: Log::new() }),
        bodies,
        check: Box::new(move |s, _| {
            consume(s, 2);
            consume(s, 3);
            let log = s.log.get();
            // does some push overlap a consume (in real time)?
            let mut pushes: Vec<(usize, usize)> = Vec::new();
            let mut push_vals: Vec<u64> = Vec::new();
            let mut conses: Vec<(usize, usize, usize)> = Vec::new(); // (call, return, consume id)
            let mut open_p = std::collections::BTreeMap::new();
            let mut open_c = std::collections::BTreeMap::new();
            let mut yielded: Vec<f64> = Vec::new();
            for (i, e) in log.iter().enumerate() {
                match e {
                    Ev::PushCall(v) => {
                        open_p.insert(*v, i);
                    }
                    Ev::PushRet(v) => {
                        pushes.push((open_p[v], i));
                        push_vals.push(*v as u64);
                    }
                    Ev::ConsCall(id) => {
                        open_c.insert(*id, i);
                    }
                    Ev::ConsClosure(_) => {}
                    Ev::ConsRet(id, got, _) => {
                        conses.push((open_c[id], i, *id));
                        yielded.extend(got.iter());
                    }
                }
            }
            // The recorded defect needs a push that STARTED before the drain closure of an overlapping consume began
            // (it chose its side before the swap). A push that started after the closure began goes to the fresh side
            // by design and must never be lost or drained early: that is not covered by the known finding.
            let closures: std::collections::BTreeMap<usize, usize> = log.iter().enumerate().filter_map(|(i, e)| if let Ev::ConsClosure(id) = e { Some((*id, i)) } else { None }).collect();
            let overlap = pushes.iter().any(|(pc, pr)| conses.iter().any(|(cc, cr, id)| pc < cr && cc < pr && closures.get(id).map(|cl| pc < cl).unwrap_or(true)));
            let sig = |base: &str| if overlap { format!("drain-vs-unfinished-push:{}", base) } else { base.to_string() };
            // the values of the pushes that can be caught unfinished by a drain (the recorded finding is about these only)
            let late: Vec<u64> = pushes.iter().zip(&push_vals).filter(|((pc, pr), _)| conses.iter().any(|(cc, cr, id)| pc < cr && cc < pr && closures.get(id).map(|cl| pc < cl).unwrap_or(true))).map(|(_, v)| *v).collect();
            let mut seen = std::collections::BTreeSet::new();
            for v in &yielded {
                if !(*v >= 1.0 && *v <= npush as f64 && v.fract() == 0.0) {
                    // recorded: the drain reads the slot an unfinished push has claimed and not yet written, i.e. 0.0
                    let s = if v.to_bits() == 0 { sig("drain-yields-value-not-pushed") } else { "drain-yields-value-not-pushed".to_string() };
                    return Verdict::Fail { sig: s, msg: format!("a drain yielded {} which was never pushed (log {:?})", v, log) };
                }
                if !seen.insert(v.to_bits()) {
                    return Verdict::Fail { sig: sig("drain-yields-duplicate"), msg: format!("value {} yielded twice (log {:?})", v, log) };
                }
            }
            // with more pushes than capacity the replacement branch decides what is retained: only "nothing invented, nothing twice"
            if npush as usize <= cap && seen.len() as u64 != npush {
                // recorded: only the value of a push caught unfinished by a drain can go missing
                // ... or the value of a push that ran concurrently with such a late push: the late push stores into the slot
                // it claimed before the drain reset the count, which a push that claimed the same index after the reset has
                // just written (same mechanism, the victim is the other pusher's value; needs two pushers)
                let late_iv: Vec<(usize, usize)> = pushes.iter().zip(&push_vals).filter(|(_, v)| late.contains(v)).map(|(iv, _)| *iv).collect();
                let beside_late: Vec<u64> = pushes.iter().zip(&push_vals).filter(|((pc, pr), _)| late_iv.iter().any(|(lc, lr)| pc < lr && lc < pr)).map(|(_, v)| *v).collect();
                let missing_are_late = (1..=npush).filter(|v| !seen.contains(&(*v as f64).to_bits())).all(|v| late.contains(&v) || beside_late.contains(&v));
                let s = if missing_are_late { sig("pushed-value-never-yielded") } else { "pushed-value-never-yielded".to_string() };
                return Verdict::Fail { sig: s, msg: format!("{} values pushed (capacity 4) but only {:?} ever yielded (log {:?})", npush, yielded, log) };
            }
            for e in &log {
                if let Ev::ConsRet(_, got, rate) = e {
                    if npush as usize <= cap && *rate != 1.0 && !overlap {
                        return fail("sample-rate-wrong", format!("sample rate {} with {} yielded and capacity not exceeded", rate, got.len()));
                    }
                }
            }
            Verdict::Ok(format!("{:?}", log.iter().filter_map(|e| if let Ev::ConsRet(_, g, _) = e { Some(g.clone()) } else { None }).collect::<Vec<_>>()))
        }),
        termination_promised: true,
    };
    vsched::explore(&scn, &Cfg { max_bound: pb, horizon: 5000 }, ctx, res);
}

/// The other side of the RNG seam. The E3 tree replaces `fastrand(upper)` by the enumeration of all its answers with
/// weight 1/upper each; that is only the retention probability of the real reservoir if the real generator's answers are
/// not the same on every thread. This part does not enumerate anything: it runs the same overfull fill on fresh threads
/// (whose thread-local generator is initialised by that very fill) with the seam switched off and requires that the
/// retained positions are not identical everywhere. With a generator seeded per thread from the OS all 48 threads
/// agreeing has probability < 28^-47 (capacity 2 of 8: 28 possible sets) — a false alarm is out of the question —, while
/// a constant or otherwise shared seed makes them agree always.
/// The reservoir as a user configures it: exporters built through the public DogStatsD builder with a reservoir size and
/// sampling switched on, the two options given in either order, 100 values recorded before the first flush. The histogram
/// message carries at most `size` values, and its sample rate is values carried / values recorded.
fn builder_order_part(ctx: &Ctx, res: &mut PartResult) {
    use metrics::{Key, Recorder};
    static META: metrics::Metadata<'static> = metrics::Metadata::new("t", metrics::Level::INFO, None);
    res.engine = "E4 exporters built through the public builder: reservoir size x option order, datagrams read from the agent's socket".into();
    let mut states = vseq::States::new();
    let dir = ctx.run_dir();
    const PUSHED: usize = 100;
    for size in [0usize, 1, 4, 2000] {
        for (size_first, as_dist) in [(false, true), (true, true), (false, false), (true, false)] {
            let tag = format!("c16-size{}-{}-{}", size, if size_first { "size-then-sampling" } else { "sampling-then-size" }, if as_dist { "d" } else { "h" });
            let got = vcore::dsd::run_exporter(
                &dir,
                &tag,
                |b| Ok(if size_first { b.with_histogram_reservoir_size(size).with_histogram_sampling(true) } else { b.with_histogram_sampling(true).with_histogram_reservoir_size(size) }.send_histograms_as_distributions(as_dist)),
                |rec| {
                    let h = rec.register_histogram(&Key::from_name("lat"), &META);
                    for i in 0..PUSHED {
                        h.record(i as f64);
                    }
                },
                // (capacity 0: nothing is expected, so there is nothing to wait for but a few flush intervals)
                std::time::Duration::from_millis(if size == 0 { 600 } else { 3000 }),
                |got| got.iter().any(|d| d.starts_with(b"lat:")),
            );
            res.executions += 1;
            res.transitions += PUSHED as u64 + 1;
            let cfg = json!({"builder_order": tag});
            let got = match got {
                Ok(g) => g,
                Err(e) => {
                    res.error = Some(e);
                    return;
                }
            };
            let mut values = 0usize;
            let mut rates: Vec<Option<String>> = Vec::new();
            for d in &got {
                for line in d.split_inclusive(|b| *b == b'\n') {
                    if let Ok(m) = vcore::statsd::parse_message(line) {
                        if m.name == "lat" {
                            values += m.values.len();
                            rates.push(m.rate.clone());
                        }
                    }
                }
            }
            states.add(&(size, size_first, values.min(size + 1)));
            let want = size.min(PUSHED);
            let want_rate = want as f64 / PUSHED as f64;
            let rate_ok = rates.iter().all(|r| match r {
                Some(r) => (r.parse::<f64>().unwrap_or(-1.0) - want_rate).abs() < 1e-9,
                None => want == PUSHED,
            });
            if values != want || !rate_ok {
                let sig = if values > size { "drain-yields-more-than-capacity" } else { "sample-rate-not-yielded-over-pushed" };
                res.violation(sig, format!("exporter built with {} (reservoir size {}), {} values recorded before the first flush: the agent received {} values with sample rates {:?}; expected {} values at rate {}", if size_first { "with_histogram_reservoir_size(n) then with_histogram_sampling(true)" } else { "with_histogram_sampling(true) then with_histogram_reservoir_size(n)" }, size, PUSHED, values, rates, want, want_rate), cfg);
            }
        }
    }
    res.states = states.len();
    res.distinct_outcomes = states.len();
    res.sample(json!({"size": 4, "order": "size then sampling", "pushed": 100, "expected": "4 values |@0.04"}));
}

fn rng_part(res: &mut PartResult) {
    res.engine = "assumption check behind the E3 RNG seam: the real per-thread generator on fresh threads (not an enumeration)".into();
    let mut states = vseq::States::new();
    for (cap, n) in [(2usize, 8usize), (1, 6), (3, 9)] {
        let sets: Vec<Vec<u64>> = (0..48)
            .map(|_| {
                std::thread::spawn(move || {
                    let r = AtomicSamplingReservoir::new(cap);
                    for i in 0..n {
                        r.push((i + 1) as f64);
                    }
                    let mut got: Vec<u64> = Vec::new();
                    r.consume(|d| got = d.map(|x| x as u64).collect());
                    got.sort_unstable();
                    got
                })
                .join()
                .unwrap()
            })
            .collect();
        res.executions += sets.len() as u64;
        res.transitions += (sets.len() * (n + 1)) as u64;
        let distinct: std::collections::BTreeSet<&Vec<u64>> = sets.iter().collect();
        states.add(&(cap, n, distinct.len().min(2)));
        if sets.iter().any(|s| s.len() != cap || s.iter().any(|v| *v < 1 || *v > n as u64)) {
            res.violation("drain-yields-value-not-pushed", format!("capacity {} of {} pushes on a fresh thread: retained {:?}", cap, n, sets[0]), json!({"cap": cap, "n": n}));
        }
        if distinct.len() < 2 {
            res.violation("replacement-choices-identical-on-every-fresh-thread", format!("capacity {} of {} pushes on 48 fresh threads: every thread retained the same positions {:?}; the replacement choices are not independent between threads, so over trials on fresh threads a position is retained with probability 0 or 1 instead of {}/{}", cap, n, sets[0], cap, n), json!({"cap": cap, "n": n}));
        }
    }
    // The enumeration over the seam's answers decides "each of n values retained with probability capacity/n" only if
    // the real generator answers a request for one of k choices uniformly. That assumption is measured here on the real
    // generator (a statistical test with a 7-sigma acceptance band, not an enumeration): over many trials every
    // position is retained about capacity/n of the time, for stream lengths that are and are not powers of two.
    for (cap, n) in [(1usize, 3usize), (1, 5), (2, 5), (3, 7), (2, 4), (1, 11)] {
        const TRIALS: usize = 60_000;
        let mut kept = vec![0u64; n];
        for _ in 0..TRIALS {
            let r = AtomicSamplingReservoir::new(cap);
            for i in 0..n {
                r.push((i + 1) as f64);
            }
            r.consume(|d| {
                for x in d {
                    let i = x as usize;
                    if (1..=n).contains(&i) {
                        kept[i - 1] += 1;
                    }
                }
            });
        }
        res.executions += TRIALS as u64;
        res.transitions += (TRIALS * (n + 1)) as u64;
        let p = cap as f64 / n as f64;
        let mean = TRIALS as f64 * p;
        let sigma = (TRIALS as f64 * p * (1.0 - p)).sqrt();
        states.add(&(cap, n, "uniformity"));
        if let Some((i, k)) = kept.iter().enumerate().find(|(_, k)| (**k as f64 - mean).abs() > 7.0 * sigma) {
            res.violation("retention-frequency-not-capacity-over-n", format!("capacity {} of {} pushes, {} trials on the real generator: position {} was retained {} times, expected {:.0} +- {:.0} (7 sigma) for probability {}/{}; all positions: {:?}", cap, n, TRIALS, i, k, mean, 7.0 * sigma, cap, n, kept), json!({"cap": cap, "n": n, "uniformity": true}));
        }
    }
    res.states = states.len();
    res.distinct_outcomes = states.len();
    res.sample(json!({"capacity": 2, "pushes": 8, "threads": 48, "expected": "at least two different retained sets; and over 60000 trials every position retained capacity/n of the time within 7 sigma"}));
}

/// Values that are not ordinary numbers: every f64 bit pattern pushed is a value like any other (NaN with a payload,
/// the infinities, both zeros). Below capacity the drain yields exactly the pushed bit patterns at rate 1; above it, the
/// configured number of them at rate capacity / pushed, for every answer of the RNG seam.
fn nonfinite_part(res: &mut PartResult) {
    vcore::vsched::install_hooks();
    res.engine = "E3 non-finite and signed-zero values through push / consume / is_empty".into();
    let mut states = vseq::States::new();
    let nan = |p: u64| f64::from_bits(0x7ff8_0000_0000_0000 | p);
    let streams: Vec<Vec<f64>> = vec![
        vec![nan(1)],
        vec![f64::INFINITY],
        vec![1.0, nan(1), f64::INFINITY, f64::NEG_INFINITY, nan(2), -0.0, 0.0, 2.0],
        vec![nan(1), nan(2), f64::NEG_INFINITY, 1.0],
    ];
    for stream in &streams {
        for cap in [1usize, 2, 4, 8] {
            // every answer sequence of the seam (at most 3 replacement draws here)
            let mut stack: Vec<Vec<usize>> = vec![vec![]];
            while let Some(prefix) = stack.pop() {
                res.executions += 1;
                res.transitions += stream.len() as u64 + 1;
                RNG_SCRIPT.with(|s| *s.borrow_mut() = Some(RngScript { prefix: prefix.clone(), ..Default::default() }));
                let r = AtomicSamplingReservoir::new(cap);
                let mut empty_after_first = None;
                for (i, v) in stream.iter().enumerate() {
                    r.push(*v);
                    if i == 0 {
                        empty_after_first = Some(r.is_empty());
                    }
                }
                let mut got: Vec<u64> = Vec::new();
                let mut rate = -1.0;
                r.consume(|d| {
                    rate = d.sample_rate();
                    got = d.map(|x| x.to_bits()).collect();
                });
                let sc = RNG_SCRIPT.with(|s| s.borrow_mut().take()).unwrap();
                for i in prefix.len()..sc.uppers.len() {
                    for alt in 1..sc.uppers[i] {
                        let mut p = sc.answers[..i].to_vec();
                        p.push(alt);
                        stack.push(p);
                    }
                }
                let cfg = json!({"stream": stream.iter().map(|v| format!("{:?}/{:#x}", v, v.to_bits())).collect::<Vec<_>>(), "cap": cap, "answers": sc.answers});
                let pushed: Vec<u64> = stream.iter().map(|v| v.to_bits()).collect();
                states.add(&(cap, stream.len(), got.len()));
                if empty_after_first != Some(false) {
                    res.violation("is-empty-after-push", format!("capacity {}: is_empty() is true right after {:?} was pushed", cap, stream[0]), cfg.clone());
                }
                let want_n = stream.len().min(cap);
                let mut g = got.clone();
                g.sort_unstable();
                g.dedup();
                if got.len() != want_n || g.len() != got.len() || got.iter().any(|b| !pushed.contains(b)) {
                    res.violation("drain-yields-wrong-count", format!("capacity {}, pushed {:?}: the drain yielded {} value(s) {:?} (bit patterns), expected {} distinct pushed ones", cap, stream, got.len(), got.iter().map(|b| format!("{:#x}", b)).collect::<Vec<_>>(), want_n), cfg.clone());
                }
                let want_rate = if stream.len() <= cap { 1.0 } else { cap as f64 / stream.len() as f64 };
                if (rate - want_rate).abs() > 1e-12 {
                    res.violation("sample-rate-wrong", format!("capacity {}, {} pushed: sample rate {}, expected {}", cap, stream.len(), rate, want_rate), cfg.clone());
                }
            }
        }
    }
    // the batched entry point (`HistogramFn::record_many`): `count` pushes of one value count as `count` pushes — for the
    // number yielded and for the sample rate — whether count is below, at or far above the capacity
    for cap in [1usize, 2, 4] {
        for pre in [0usize, 1] {
            for count in [0usize, 1, cap, cap + 1, 3 * cap + 1] {
                res.executions += 1;
                res.transitions += 2;
                RNG_SCRIPT.with(|s| *s.borrow_mut() = Some(RngScript::default()));
                let r = AtomicSamplingReservoir::new(cap);
                for _ in 0..pre {
                    metrics::HistogramFn::record(&r, 1.0);
                }
                metrics::HistogramFn::record_many(&r, 5.0, count);
                let mut got: Vec<f64> = Vec::new();
                let mut rate = -1.0;
                r.consume(|d| {
                    rate = d.sample_rate();
                    got = d.collect();
                });
                RNG_SCRIPT.with(|s| s.borrow_mut().take());
                let n = pre + count;
                let want_rate = if n <= cap { 1.0 } else { cap as f64 / n as f64 };
                let cfg = json!({"cap": cap, "pre": pre, "count": count});
                states.add(&(cap, n, got.len()));
                if got.len() != n.min(cap) || got.iter().any(|v| *v != 5.0 && *v != 1.0) {
                    res.violation("drain-yields-wrong-count", format!("capacity {}: {} x record(1.0) then record_many(5.0, {}): the drain yielded {:?}", cap, pre, count, got), cfg.clone());
                }
                if (rate - want_rate).abs() > 1e-12 {
                    res.violation("sample-rate-wrong", format!("capacity {}: {} x record(1.0) then record_many(5.0, {}): {} values were pushed, {} yielded, sample rate {} (expected {})", cap, pre, count, n, got.len(), rate, want_rate), cfg.clone());
                }
            }
        }
    }
    res.states = states.len();
    res.distinct_outcomes = states.len();
    res.sample(json!({"stream": "[1.0, NaN(1), +inf, -inf, NaN(2), -0.0, 0.0, 2.0]", "capacity": 8, "expected": "exactly these 8 bit patterns, rate 1"}));
}

fn parts(ctx: &Ctx) -> Vec<PartSpec> {
    if ctx.quick() {
        vec![
            PartSpec::new("e3-tree-cap0-3", json!({"caps": [0, 1, 2, 3], "extra": 3})),
            PartSpec::new("rng-per-thread", json!({"rng": true})),
            PartSpec::new("e4-builder-reservoir-size-x-option-order", json!({"builder_order": true})).budget(120.0),
            PartSpec::new("non-finite-values", json!({"nonfinite": true})),
            PartSpec::new("e1-push-vs-consume-pb2", json!({"e1": 2, "two": false})),
            PartSpec::new("e1-2pushers-vs-consume-pb2", json!({"e1": 2, "two": true})),
            PartSpec::new("e1-push-vs-2consumers-pb2", json!({"e1": 2, "two": false, "cons2": true})),
            PartSpec::new("e1-2pushers-vs-consume-capacity1-pb2", json!({"e1": 2, "two": true, "cap": 1})),
        ]
    } else {
        vec![
            PartSpec::new("e3-tree-cap0-3", json!({"caps": [0, 1, 2, 3], "extra": 6})).budget(1500.0),
            PartSpec::new("rng-per-thread", json!({"rng": true})),
            PartSpec::new("e4-builder-reservoir-size-x-option-order", json!({"builder_order": true})).budget(120.0),
            PartSpec::new("non-finite-values", json!({"nonfinite": true})),
            PartSpec::new("e3-tree-cap4", json!({"caps": [4], "extra": 5})).budget(1500.0),
            PartSpec::new("e3-tree-cap5", json!({"caps": [5], "extra": 5})).budget(1500.0),
            PartSpec::new("e3-tree-cap6", json!({"caps": [6], "extra": 5})).budget(1500.0),
            PartSpec::new("e3-tree-cap8", json!({"caps": [8], "extra": 4})).budget(1500.0),
            PartSpec::new("e1-push-vs-consume-pb6", json!({"e1": 6, "two": false})).budget(1500.0),
            PartSpec::new("e1-2pushers-vs-consume-pb4", json!({"e1": 4, "two": true})).budget(1500.0),
            PartSpec::new("e1-push-vs-2consumers-pb4", json!({"e1": 4, "two": false, "cons2": true})).budget(1500.0),
            PartSpec::new("e1-2pushers-vs-consume-capacity1-pb4", json!({"e1": 4, "two": true, "cap": 1})).budget(1500.0),
            PartSpec::new("e1-2pushers-vs-consume-capacity2-pb3", json!({"e1": 3, "two": true, "cap": 2})).budget(1500.0),
        ]
    }
}

fn run(ctx: &Ctx, spec: &PartSpec) -> PartResult {
    let mut res = PartResult::new(&spec.name, "");
    if spec.arg["nonfinite"].as_bool() == Some(true) {
        nonfinite_part(&mut res);
    } else if spec.arg["builder_order"].as_bool() == Some(true) {
        builder_order_part(ctx, &mut res);
    } else if spec.arg["rng"].as_bool() == Some(true) {
        rng_part(&mut res);
    } else if let Some(pb) = spec.arg["e1"].as_u64() {
        e1(ctx, &mut res, pb as usize, spec.arg["two"].as_bool().unwrap_or(false), spec.arg["cons2"].as_bool().unwrap_or(false), spec.arg["cap"].as_u64().unwrap_or(4) as usize);
    } else {
        let caps: Vec<usize> = spec.arg["caps"].as_array().unwrap().iter().map(|x| x.as_u64().unwrap() as usize).collect();
        e3_tree(ctx, &mut res, &caps, spec.arg["extra"].as_u64().unwrap_or(3) as usize);
    }
    res
}

fn main() {
    driver::main(CheckDef {
        prop: "C16",
        level: "model_checking",
        rule: "E3: for every capacity in the list, every push count 0..=cap+extra in cycle 1 and {0,1,cap+1} in cycle 2, the complete tree of answers of every fastrand(upper) call (RNG seam) is enumerated on the real AtomicSamplingReservoir; every leaf is checked (yield subset/count/sample rate/fresh start) and retention probabilities are summed with exact rational weights; streams of non-finite values and signed zeros (compared by bit pattern) for capacities 1-8 over every seam answer; the batched entry point record_many with counts 0, 1, capacity, capacity+1 and 3*capacity+1; E1: all SC interleavings (pb-bounded) of pushes with consumes (one or two pushing threads, one or two consuming threads); distinct = distinct (configuration, yields) leaves / outcomes; assumption check of the seam: 60000 trials per (capacity, n) in {(1,3),(1,5),(2,5),(3,7),(2,4),(1,11)} on the real generator, every position retained capacity/n of the time within 7 sigma (statistical, not an enumeration); plus exporters built through the public DogStatsD builder with reservoir sizes {0, 1, 4, 2000} and sampling on, the two options in either order, sent as distributions or as classic histograms, 100 values before the first flush: at most `size` values arrive, at rate arrived / recorded",
        assumptions: &["the RNG is uniform over 0..upper (the seam replaces it by enumeration of all answers with weight 1/upper); the part rng-per-thread checks, outside the enumeration, that the real generator does not give every fresh thread the same answers", "E1: sequential consistency (the reservoir uses Relaxed orderings; weak-memory effects are not explored)"],
        parts,
        run,
    });
}
