//! C20 — a recoverable recorder is live until recovered, inert and dropped once after (E1).
use metrics::{Counter, CounterFn, Gauge, Histogram, Key, KeyName, Level, Metadata, Recorder, SharedString, Unit};
use metrics_util::RecoverableRecorder;
use std::sync::atomic::{AtomicBool, AtomicUsize, Ordering};
use std::sync::{Arc, Mutex};
use vcore::driver::{self, CheckDef, Ctx, PartResult, PartSpec};
use vcore::json;
use vcore::vseq;
use vcore::vsched::{self, body, fail, Body, Cfg, Log, Scenario, Verdict};

static META: Metadata<'static> = Metadata::new("t", Level::INFO, None);

#[derive(Default)]
struct Stats {
    inflight: AtomicUsize,
    entered: Mutex<Vec<usize>>, // emission ids that reached the recorder
    entered_after_end: AtomicBool,
    ended: AtomicBool, // recovery returned or finalisation began
    drops: AtomicUsize,
    counter_value: AtomicUsize,
    /// what each call carried (the wrapper must pass everything through unchanged)
    content: Mutex<Vec<String>>,
}

thread_local! { static CUR_EMISSION: std::cell::Cell<usize> = std::cell::Cell::new(usize::MAX); }

struct Dbl {
    magic: u64,
    st: Arc<Stats>,
}
impl Dbl {
    fn call(&self) {
        assert_eq!(self.magic, 0x5eed);
        if self.st.ended.load(Ordering::SeqCst) {
            self.st.entered_after_end.store(true, Ordering::SeqCst);
        }
        self.st.inflight.fetch_add(1, Ordering::SeqCst);
        self.st.entered.lock().unwrap().push(CUR_EMISSION.with(|c| c.get()));
        // the call takes time: let the scheduler interleave while it executes inside the recorder
        vsched::point("inside_recorder");
        if self.st.ended.load(Ordering::SeqCst) {
            self.st.entered_after_end.store(true, Ordering::SeqCst);
        }
        self.st.inflight.fetch_sub(1, Ordering::SeqCst);
    }
}
impl Drop for Dbl {
    fn drop(&mut self) {
        self.st.ended.store(true, Ordering::SeqCst);
        self.st.drops.fetch_add(1, Ordering::SeqCst);
    }
}
struct Cnt(Arc<Stats>);
impl CounterFn for Cnt {
    fn increment(&self, v: u64) {
        self.0.counter_value.fetch_add(v as usize, Ordering::SeqCst);
    }
    fn absolute(&self, _: u64) {}
}
impl Recorder for Dbl {
    fn describe_counter(&self, n: KeyName, u: Option<Unit>, d: SharedString) {
        self.st.content.lock().unwrap().push(format!("describe_counter|{}|{:?}|{}", n.as_str(), u, d));
        self.call()
    }
    fn describe_gauge(&self, n: KeyName, u: Option<Unit>, d: SharedString) {
        self.st.content.lock().unwrap().push(format!("describe_gauge|{}|{:?}|{}", n.as_str(), u, d));
        self.call()
    }
    fn describe_histogram(&self, n: KeyName, u: Option<Unit>, d: SharedString) {
        self.st.content.lock().unwrap().push(format!("describe_histogram|{}|{:?}|{}", n.as_str(), u, d));
        self.call()
    }
    fn register_counter(&self, k: &Key, m: &Metadata<'_>) -> Counter {
        self.st.content.lock().unwrap().push(format!("register_counter|{}|{:?}|{:?}|{}", k.name(), k.labels().map(|l| format!("{}={}", l.key(), l.value())).collect::<Vec<_>>(), m.level(), m.target()));
        self.call();
        if k.name() == "boom" {
            // a recorder method that fails: the emitting thread survives (the panic is caught by the caller)
            std::panic::resume_unwind(Box::new("the wrapped recorder panics inside a call"));
        }
        if k.name() == "nest" {
            // a recorder that emits a metric of its own while it handles a call (through the macros, i.e. through
            // whatever is installed globally: the wrapper again)
            metrics::counter!("inner").increment(1);
        }
        Counter::from_arc(Arc::new(Cnt(self.st.clone())))
    }
    fn register_gauge(&self, k: &Key, m: &Metadata<'_>) -> Gauge {
        self.st.content.lock().unwrap().push(format!("register_gauge|{}|{:?}|{:?}|{}", k.name(), k.labels().map(|l| format!("{}={}", l.key(), l.value())).collect::<Vec<_>>(), m.level(), m.target()));
        self.call();
        Gauge::noop()
    }
    fn register_histogram(&self, k: &Key, m: &Metadata<'_>) -> Histogram {
        self.st.content.lock().unwrap().push(format!("register_histogram|{}|{:?}|{:?}|{}", k.name(), k.labels().map(|l| format!("{}={}", l.key(), l.value())).collect::<Vec<_>>(), m.level(), m.target()));
        self.call();
        Histogram::noop()
    }
}

#[derive(Clone, Debug)]
enum Ev {
    EmitCall(usize),
    EmitRet(usize),
    RecoverCall,
    RecoverRet(usize), // calls in flight when into_inner returned
    DropHandle,
}

struct S {
    w: Box<dyn Recorder + Send + Sync>,
    /// consumes the recovery handle (its type is not nameable): true = into_inner(), false = drop
    handle: Mutex<Option<Box<dyn FnOnce(bool) -> Option<Dbl> + Send>>>,
    st: Arc<Stats>,
    log: Log<Ev>,
}

fn emit(s: &S, id: usize, kind: usize) {
    CUR_EMISSION.with(|c| c.set(id));
    s.log.push(Ev::EmitCall(id));
    match kind {
        0 => s.w.describe_gauge("g".into(), None, "d".into()),
        1 => s.w.register_counter(&Key::from_name("c"), &META).increment(1),
        2 => s.w.describe_counter("c".into(), Some(Unit::Count), "".into()),
        // emissions made by a destructor while a panic unwinds through its frame ("record on drop" guards); the panic
        // is caught right outside
        4 | 5 => {
            struct OnDrop<'a>(&'a S, usize);
            impl Drop for OnDrop<'_> {
                fn drop(&mut self) {
                    if self.1 == 4 {
                        self.0.w.register_counter(&Key::from_name("c"), &META).increment(1)
                    } else {
                        self.0.w.describe_histogram("h".into(), None, "d".into())
                    }
                }
            }
            let _ = std::panic::catch_unwind(std::panic::AssertUnwindSafe(|| {
                let _g = OnDrop(s, kind);
                std::panic::resume_unwind(Box::new("unwinding past an emitting guard"));
            }));
        }
        _ => {
            let _ = s.w.register_histogram(&Key::from_name("h"), &META);
        }
    }
    s.log.push(Ev::EmitRet(id));
}

fn scenario(name: &str, emitters: Vec<Vec<usize>>, recover: bool) -> Scenario<S> {
    let mut bodies: Vec<Body<S>> = Vec::new();
    let mut id = 0;
    let mut kinds: Vec<usize> = Vec::new();
    for e in &emitters {
        let ops: Vec<(usize, usize)> = e.iter().map(|k| {
            id += 1;
            kinds.push(*k);
            (id - 1, *k)
        }).collect();
        bodies.push(body(move |s: &S| {
            for (i, k) in &ops {
                emit(s, *i, *k);
            }
        }));
    }
    bodies.push(body(move |s: &S| {
        let h = s.handle.lock().unwrap().take().unwrap();
        if recover {
            s.log.push(Ev::RecoverCall);
            let r = h(true).unwrap();
            let inflight = s.st.inflight.load(Ordering::SeqCst);
            s.st.ended.store(true, Ordering::SeqCst);
            s.log.push(Ev::RecoverRet(inflight));
            assert_eq!(r.magic, 0x5eed);
            drop(r);
        } else {
            s.log.push(Ev::DropHandle);
            let _ = h(false);
        }
    }));
    let n_emit = id;
    Scenario {
        name: name.into(),
        setup: Box::new(|| {
            let st = Arc::new(Stats::default());
            let (w, handle) = RecoverableRecorder::new(Dbl { magic: 0x5eed, st: st.clone() }).verif_build();
            let f: Box<dyn FnOnce(bool) -> Option<Dbl> + Send> = Box::new(move |recover| {
                if recover {
                    Some(handle.into_inner())
                } else {
                    drop(handle);
                    None
                }
            });
            S { w: Box::new(w), handle: Mutex::new(Some(f)), st, log: Log::new() }
        }),
        bodies,
        check: Box::new(move |s, _| {
            let log = s.log.get();
            let entered: Vec<usize> = s.st.entered.lock().unwrap().clone();
            let pos = |p: &dyn Fn(&Ev) -> bool| log.iter().position(|e| p(e));
            let rec_call = pos(&|e| matches!(e, Ev::RecoverCall | Ev::DropHandle));
            // 1. live until recovered: an emission that returned before recovery / handle drop began reached the recorder
            for i in 0..n_emit {
                let ret = pos(&|e| matches!(e, Ev::EmitRet(x) if *x == i));
                if let (Some(r), Some(rc)) = (ret, rec_call) {
                    if r < rc && !entered.contains(&i) {
                        return fail("emission-lost-while-handle-alive", format!("emission {} completed before recovery began but never reached the wrapped recorder", i));
                    }
                }
                if entered.iter().filter(|x| **x == i).count() > 1 {
                    return fail("emission-delivered-twice", format!("emission {} entered the recorder more than once", i));
                }
            }
            // 2. into_inner returns only when no emission is executing inside the recorder
            for e in &log {
                if let Ev::RecoverRet(n) = e {
                    if *n != 0 {
                        return fail("recovered-while-call-in-flight", format!("into_inner returned while {} call(s) were executing inside the recorder", n));
                    }
                }
            }
            // 3. no call enters after recovery returned / finalisation began
            if s.st.entered_after_end.load(Ordering::SeqCst) {
                return fail("call-entered-after-recovery", "a call entered (or was still inside) the recorder after into_inner returned or after its finalisation began".into());
            }
            // 4. afterwards the wrapper is inert
            let before = entered.len();
            let cv = s.st.counter_value.load(Ordering::SeqCst);
            CUR_EMISSION.with(|c| c.set(1000));
            s.w.describe_counter("late".into(), None, "d".into());
            s.w.describe_histogram("late".into(), None, "d".into());
            let c = s.w.register_counter(&Key::from_name("late"), &META);
            c.increment(5);
            s.w.register_gauge(&Key::from_name("late"), &META).set(1.0);
            s.w.register_histogram(&Key::from_name("late"), &META).record(1.0);
            if s.st.entered.lock().unwrap().len() != before || s.st.counter_value.load(Ordering::SeqCst) != cv {
                return fail("wrapper-not-inert-after-recovery", "registrations/descriptions through the wrapper still reached the recorder after recovery".into());
            }
            // 5. dropped exactly once
            let d = s.st.drops.load(Ordering::SeqCst);
            if d != 1 {
                return fail("recorder-not-dropped-exactly-once", format!("wrapped recorder dropped {} times", d));
            }
            Verdict::Ok(format!("entered={:?} counter={}", entered, cv))
        }),
        termination_promised: true,
    }
}

/// Several wrappers in one process, and a recovery that has to wait: instance A's recorder parks inside a call, a second
/// thread calls `into_inner` (which must wait for that call), and meanwhile further emissions arrive through A's wrapper (whether those still reach A's recorder is left open by the
/// property). Afterwards a second instance B, created in the
/// same process, works as if A had never existed.
fn second_instance_part(res: &mut PartResult) {
    use std::sync::mpsc::channel;
    res.engine = "scripted history with real threads: a contended recovery of one instance, then a second instance in the same process".into();
    res.executions = 1;
    res.states = 1;
    res.distinct_outcomes = 1;
    struct Parking {
        seen: Arc<Mutex<Vec<String>>>,
        entered: Mutex<Option<std::sync::mpsc::Sender<()>>>,
        release: Mutex<Option<std::sync::mpsc::Receiver<()>>>,
    }
    impl Recorder for Parking {
        fn describe_counter(&self, _: KeyName, _: Option<Unit>, _: SharedString) {}
        fn describe_gauge(&self, _: KeyName, _: Option<Unit>, _: SharedString) {}
        fn describe_histogram(&self, _: KeyName, _: Option<Unit>, _: SharedString) {}
        fn register_counter(&self, k: &Key, _: &Metadata<'_>) -> Counter {
            self.seen.lock().unwrap().push(k.name().to_string());
            if k.name() == "block" {
                if let Some(tx) = self.entered.lock().unwrap().take() {
                    let _ = tx.send(());
                }
                if let Some(rx) = self.release.lock().unwrap().take() {
                    let _ = rx.recv_timeout(std::time::Duration::from_secs(20));
                }
            }
            Counter::noop()
        }
        fn register_gauge(&self, _: &Key, _: &Metadata<'_>) -> Gauge {
            Gauge::noop()
        }
        fn register_histogram(&self, _: &Key, _: &Metadata<'_>) -> Histogram {
            Histogram::noop()
        }
    }
    let seen_a = Arc::new(Mutex::new(Vec::new()));
    let (etx, erx) = channel();
    let (rtx, rrx) = channel();
    let (wa, ha) = RecoverableRecorder::new(Parking { seen: seen_a.clone(), entered: Mutex::new(Some(etx)), release: Mutex::new(Some(rrx)) }).verif_build();
    let wa = Arc::new(wa);
    let w1 = wa.clone();
    let t1 = std::thread::spawn(move || {
        let _ = w1.register_counter(&Key::from_name("block"), &META);
    });
    if erx.recv_timeout(std::time::Duration::from_secs(20)).is_err() {
        res.violation("emission-lost-while-handle-alive", "an emission through the wrapper never entered the recorder".into(), json!({}));
        return;
    }
    let (dtx, drx) = channel();
    let t2 = std::thread::spawn(move || {
        let r = ha.into_inner();
        let _ = dtx.send(());
        r
    });
    // let the recovering thread try (and fail, a call is in flight) for a while
    std::thread::sleep(std::time::Duration::from_millis(150));
    for i in 0..5 {
        let _ = wa.register_counter(&Key::from_name(format!("during-{}", i)), &META);
    }
    res.transitions += 7;
    let returned_early = drx.try_recv().is_ok();
    let _ = rtx.send(());
    t1.join().unwrap();
    let ra = match t2.join() {
        Ok(r) => r,
        Err(p) => {
            let msg = p.downcast_ref::<String>().cloned().or_else(|| p.downcast_ref::<&str>().map(|s| s.to_string())).unwrap_or_default();
            res.violation("panic", format!("into_inner panicked while it was waiting for a call parked inside the recorder (150 ms): {}", msg), json!({}));
            return;
        }
    };
    drop(ra);
    let got = seen_a.lock().unwrap().clone();
    if returned_early {
        res.violation("recovered-while-call-in-flight", "into_inner returned although a call was parked inside the recorder".into(), json!({}));
    } else if got.first().map(|s| s.as_str()) != Some("block") || got.iter().skip(1).any(|n| !n.starts_with("during-")) {
        // (whether the emissions made while into_inner is waiting still reach the recorder is left open by the property:
        // the handle has been given to into_inner, which has not returned)
        res.violation("emission-lost-while-handle-alive", format!("the recorder of the first instance saw {:?}", got), json!({}));
    }
    // a second instance in the same process
    let seen_b = Arc::new(Mutex::new(Vec::new()));
    let (wb, hb) = RecoverableRecorder::new(Parking { seen: seen_b.clone(), entered: Mutex::new(None), release: Mutex::new(None) }).verif_build();
    for i in 0..3 {
        let _ = wb.register_counter(&Key::from_name(format!("b-{}", i)), &META);
    }
    res.transitions += 3;
    let got_b = seen_b.lock().unwrap().clone();
    if got_b != vec!["b-0", "b-1", "b-2"] {
        res.violation("emission-lost-while-handle-alive", format!("a second wrapper created after another instance's contended recovery: its recorder saw {:?} of 3 emissions made while its handle was alive", got_b), json!({}));
    }
    drop(hb.into_inner());
    res.sample(json!({"history": "A: call parks inside the recorder; into_inner waits; 5 emissions; release; recovered. B: fresh instance, 3 emissions", "expected": "A's recorder saw 6 calls, B's 3"}));
}

/// Handles obtained through the wrapper and KEPT by the caller (a cached `Counter`, a `Histogram` in a static) do not
/// keep the wrapped recorder alive: with such handles still around, dropping the recovery handle drops the recorder
/// (once, at once), `into_inner` returns although the handles exist, and the wrapper is inert afterwards. All orders of
/// {keep a counter, keep a gauge, keep a histogram} x {drop handle, into_inner}.
fn kept_handles_part(res: &mut PartResult) {
    res.engine = "E3 kept-handle subsets x recovery kind on the real wrapper (into_inner under a 10 s watchdog)".into();
    let mut states = vseq::States::new();
    for kept in 0..8u8 {
        for recover in [false, true] {
            res.executions += 1;
            res.transitions += 6;
            let st: Arc<Stats> = Default::default();
            let (w, h) = RecoverableRecorder::new(Dbl { magic: 0x5eed, st: st.clone() }).verif_build();
            let cfg = json!({"kept": kept, "recover": recover});
            let c = w.register_counter(&Key::from_name("c"), &META);
            let g = w.register_gauge(&Key::from_name("g"), &META);
            let hi = w.register_histogram(&Key::from_name("h"), &META);
            let mut keep_c = None;
            let mut keep_g = None;
            let mut keep_h = None;
            if kept & 1 != 0 { keep_c = Some(c); }
            if kept & 2 != 0 { keep_g = Some(g); }
            if kept & 4 != 0 { keep_h = Some(hi); }
            let before = st.entered.lock().unwrap().len();
            if before != 3 {
                res.violation("emission-lost-while-handle-alive", format!("3 registrations through the wrapper, the recorder saw {}", before), cfg.clone());
            }
            if recover {
                let (tx, rx) = std::sync::mpsc::channel();
                std::thread::spawn(move || {
                    let r = h.into_inner();
                    let _ = tx.send(r);
                });
                match rx.recv_timeout(std::time::Duration::from_secs(10)) {
                    Ok(r) => {
                        if st.drops.load(Ordering::SeqCst) != 0 {
                            res.violation("recorder-dropped-wrong-number-of-times", "the recorder was dropped although into_inner handed it back".into(), cfg.clone());
                        }
                        drop(r);
                    }
                    Err(_) => {
                        res.violation("recovery-never-completes", format!("into_inner did not return within 10 s although no emission is executing: the caller still holds handles (counter {}, gauge {}, histogram {}) obtained through the wrapper earlier", kept & 1 != 0, kept & 2 != 0, kept & 4 != 0), cfg.clone());
                        continue;
                    }
                }
            } else {
                drop(h);
            }
            let drops = st.drops.load(Ordering::SeqCst);
            if drops != 1 {
                res.violation("recorder-dropped-wrong-number-of-times", format!("after the recovery handle was {} the recorder has been dropped {} times (expected 1) while the caller still holds handles (counter {}, gauge {}, histogram {}) obtained through the wrapper earlier", if recover { "consumed by into_inner and the recorder dropped" } else { "dropped" }, drops, kept & 1 != 0, kept & 2 != 0, kept & 4 != 0), cfg.clone());
            }
            // inert afterwards
            let _ = w.register_counter(&Key::from_name("late"), &META);
            w.describe_histogram("late".into(), None, "d".into());
            let _ = w.register_histogram(&Key::from_name("late"), &META);
            let after = st.entered.lock().unwrap().len();
            if after != before {
                res.violation("wrapper-not-inert-after-recovery", format!("{} emissions reached the recorder after the recovery handle was gone (kept handles: counter {}, gauge {}, histogram {})", after - before, kept & 1 != 0, kept & 2 != 0, kept & 4 != 0), cfg.clone());
            }
            // the kept handles stay usable on their own (they are the inner recorder's handles)
            if let Some(c) = &keep_c { c.increment(1); }
            if let Some(g) = &keep_g { g.set(1.0); }
            if let Some(hh) = &keep_h { hh.record(1.0); }
            states.add(&(kept, recover, drops));
            drop((keep_c, keep_g, keep_h));
            if st.drops.load(Ordering::SeqCst) > 1 {
                res.violation("recorder-dropped-wrong-number-of-times", "the recorder was dropped again when the kept handles went away".into(), cfg.clone());
            }
        }
    }
    res.states = states.len();
    res.distinct_outcomes = states.len();
    res.sample(json!({"kept": "histogram", "then": "drop(recovery handle)", "expected": "recorder dropped once, at once; later emissions inert"}));
}

fn install_fail_part(res: &mut PartResult) {
    res.engine = "E3 single history on the real process-global recorder".into();
    struct Nop;
    impl Recorder for Nop {
        fn describe_counter(&self, _: KeyName, _: Option<Unit>, _: SharedString) {}
        fn describe_gauge(&self, _: KeyName, _: Option<Unit>, _: SharedString) {}
        fn describe_histogram(&self, _: KeyName, _: Option<Unit>, _: SharedString) {}
        fn register_counter(&self, _: &Key, _: &Metadata<'_>) -> Counter {
            Counter::noop()
        }
        fn register_gauge(&self, _: &Key, _: &Metadata<'_>) -> Gauge {
            Gauge::noop()
        }
        fn register_histogram(&self, _: &Key, _: &Metadata<'_>) -> Histogram {
            Histogram::noop()
        }
    }
    let _ = metrics::set_global_recorder(Nop);
    let st = Arc::new(Stats::default());
    res.executions = 1;
    res.transitions = 2;
    res.states = 1;
    res.distinct_outcomes = 1;
    // install() must return: run it on a helper thread and give it 30 s (it takes microseconds)
    let (tx, rx) = std::sync::mpsc::channel();
    let st_t = st.clone();
    std::thread::spawn(move || {
        let _ = tx.send(RecoverableRecorder::new(Dbl { magic: 0x5eed, st: st_t }).install());
    });
    let outcome = match rx.recv_timeout(std::time::Duration::from_secs(30)) {
        Ok(o) => o,
        Err(_) => {
            res.violation("failed-install-does-not-return", "install() on top of an existing global recorder did not return within 30 s: the recorder is never handed back".into(), json!({}));
            return;
        }
    };
    match outcome {
        Ok(_) => res.violation("install-succeeded-twice", "install() succeeded although a global recorder was already installed".into(), json!({})),
        Err(e) => {
            let r = e.into_inner();
            if r.magic != 0x5eed || st.drops.load(Ordering::SeqCst) != 0 {
                res.violation("failed-install-does-not-return-recorder-intact", "the recorder handed back by a failed install() is not intact".into(), json!({}));
            }
            drop(r);
            if st.drops.load(Ordering::SeqCst) != 1 {
                res.violation("recorder-not-dropped-exactly-once", "after a failed install the recorder was not dropped exactly once".into(), json!({}));
            }
        }
    }
    res.sample(json!({"history": "set_global_recorder(Nop); RecoverableRecorder::new(r).install() -> Err(r)"}));
}

/// A successful `install()` in a fresh process (each part runs in its own process): the six recorder operations
/// through the facade macros reach the wrapped recorder while the handle is alive; after `into_inner()` (or after
/// dropping the handle) the same macros are inert, the recorder comes back intact and is dropped exactly once.
fn install_ok_part(res: &mut PartResult, recover: bool) {
    res.engine = "process-level history through metrics::set_global_recorder and the facade macros".into();
    let st = Arc::new(Stats::default());
    res.executions = 1;
    res.states = 1;
    res.distinct_outcomes = 1;
    let all_six = |tag: usize| {
        CUR_EMISSION.with(|c| c.set(tag));
        // legal but unusual arguments: a description that only carries a unit (empty text), an empty name, labels,
        // an explicit target and level
        metrics::describe_counter!("c", Unit::Count, "");
        metrics::describe_gauge!("", "d");
        metrics::describe_histogram!("h", "d");
        metrics::counter!("c", "k" => "v").increment(2);
        metrics::gauge!(target: "tgt", level: Level::DEBUG, "g").set(1.0);
        metrics::histogram!("h").record(1.0);
    };
    let six_content = |st: &Stats| -> Result<(), String> {
        let got = st.content.lock().unwrap().clone();
        let want: Vec<String> = vec![
            "describe_counter|c|Some(Count)|".into(),
            "describe_gauge||None|d".into(),
            "describe_histogram|h|None|d".into(),
            format!("register_counter|c|[\"k=v\"]|{:?}|{}", Level::INFO, module_path!()),
            format!("register_gauge|g|[]|{:?}|tgt", Level::DEBUG),
            format!("register_histogram|h|[]|{:?}|{}", Level::INFO, module_path!()),
        ];
        for (i, chunk) in got.chunks(6).take(2).enumerate() {
            if chunk != &want[..chunk.len().min(6)] || chunk.len() != 6 {
                return Err(format!("round {} of the six operations reached the recorder as {:?}, expected {:?}", i, chunk, want));
            }
        }
        Ok(())
    };
    let handle = match RecoverableRecorder::new(Dbl { magic: 0x5eed, st: st.clone() }).install() {
        Ok(h) => h,
        Err(_) => {
            res.violation("install-failed-in-fresh-process", "install() failed although no global recorder existed".into(), json!({}));
            return;
        }
    };
    all_six(1);
    res.transitions += 6;
    {
        // the same six operations made by a destructor while a panic (caught) unwinds through its frame
        struct OnDrop<F: Fn(usize)>(F);
        impl<F: Fn(usize)> Drop for OnDrop<F> {
            fn drop(&mut self) {
                (self.0)(1)
            }
        }
        let prev = std::panic::take_hook();
        std::panic::set_hook(Box::new(|_| {}));
        let _ = std::panic::catch_unwind(std::panic::AssertUnwindSafe(|| {
            let _g = OnDrop(&all_six);
            panic!("unwinding past an emitting guard");
        }));
        std::panic::set_hook(prev);
        res.transitions += 6;
    }
    let entered = st.entered.lock().unwrap().clone();
    if let Err(e) = six_content(&st) {
        res.violation("emission-lost-while-handle-alive", format!("through the installed wrapper: {}", e), json!({}));
    }
    if entered != vec![1; 12] || st.counter_value.load(Ordering::SeqCst) != 4 {
        res.violation("emission-lost-while-handle-alive", format!("six operations through the installed wrapper, twice (the second time from a destructor during unwinding): {} of 12 reached the recorder, counter value {} (4 expected)", entered.len(), st.counter_value.load(Ordering::SeqCst)), json!({}));
    }
    // a call during which the wrapped recorder panics (caught), an emission on the same thread afterwards, and a call
    // during which the recorder emits through the macros itself: all reach the recorder while the handle is alive
    {
        let prev = std::panic::take_hook();
        std::panic::set_hook(Box::new(|_| {}));
        CUR_EMISSION.with(|c| c.set(1));
        let _ = std::panic::catch_unwind(|| metrics::counter!("boom").increment(1));
        std::panic::set_hook(prev);
        metrics::counter!("after_boom").increment(1);
        metrics::counter!("nest").increment(1);
        res.transitions += 3;
        let names: Vec<String> = st.content.lock().unwrap().iter().skip(12).map(|c| c.split('|').nth(1).unwrap_or("").to_string()).collect();
        if names != vec!["boom", "after_boom", "nest", "inner"] {
            res.violation("emission-lost-while-handle-alive", format!("a call in which the recorder panics, an emission after it on the same thread, and a call in which the recorder itself emits (nested): the recorder saw registrations of {:?}, expected [boom, after_boom, nest, inner]", names), json!({}));
        }
    }
    const LIVE: usize = 16; // 12 + boom, after_boom, nest, inner
    // a second install on top of it fails and hands its recorder back
    let st2 = Arc::new(Stats::default());
    let (tx2, rx2) = std::sync::mpsc::channel();
    let st2_t = st2.clone();
    std::thread::spawn(move || {
        let _ = tx2.send(RecoverableRecorder::new(Dbl { magic: 0x5eed, st: st2_t }).install());
    });
    let second = match rx2.recv_timeout(std::time::Duration::from_secs(30)) {
        Ok(o) => o,
        Err(_) => {
            res.violation("failed-install-does-not-return", "a second install() did not return within 30 s: the recorder is never handed back".into(), json!({}));
            return;
        }
    };
    match second {
        Ok(_) => res.violation("install-succeeded-twice", "a second install() succeeded".into(), json!({})),
        Err(e) => {
            let r = e.into_inner();
            if r.magic != 0x5eed || st2.drops.load(Ordering::SeqCst) != 0 {
                res.violation("failed-install-does-not-return-recorder-intact", "the recorder handed back by the failed second install() is not intact".into(), json!({}));
            }
        }
    }
    if st.drops.load(Ordering::SeqCst) != 0 {
        res.violation("recorder-not-dropped-exactly-once", "the installed recorder was dropped while its handle was alive".into(), json!({}));
    }
    if recover {
        let r = handle.into_inner();
        st.ended.store(true, Ordering::SeqCst);
        if r.magic != 0x5eed || st.drops.load(Ordering::SeqCst) != 0 {
            res.violation("recovered-recorder-not-intact", "into_inner did not return the original recorder intact".into(), json!({}));
        }
        all_six(2);
        drop(r);
    } else {
        drop(handle);
        all_six(2);
    }
    res.transitions += 6;
    let entered = st.entered.lock().unwrap().clone();
    if entered.len() != LIVE || st.counter_value.load(Ordering::SeqCst) != 4 + 3 || st.entered_after_end.load(Ordering::SeqCst) {
        res.violation("wrapper-not-inert-after-recovery", format!("operations made after {} still reached the recorder: entered {:?}, counter {}", if recover { "into_inner()" } else { "the handle was dropped" }, entered, st.counter_value.load(Ordering::SeqCst)), json!({}));
    }
    if st.drops.load(Ordering::SeqCst) != 1 {
        res.violation("recorder-not-dropped-exactly-once", format!("wrapped recorder dropped {} times", st.drops.load(Ordering::SeqCst)), json!({}));
    }
    res.sample(json!({"history": "install() -> 6 operations via macros -> the same 6 from a destructor while a caught panic unwinds -> second install() fails -> into_inner() / drop(handle) -> 6 operations via macros (inert) -> drop"}));
}

fn parts(ctx: &Ctx) -> Vec<PartSpec> {
    let e1 = |s: &str, pb: u64| PartSpec::new(&format!("e1-{}-pb{}", s, pb), json!({"e1": s, "pb": pb}));
    let mut v = vec![PartSpec::new("install-fails", json!({"install": true})), PartSpec::new("install-ok-recover", json!({"install_ok": true})), PartSpec::new("install-ok-drop", json!({"install_ok": false})), PartSpec::new("second-instance-after-contended-recovery", json!({"second": true})), PartSpec::new("kept-handles", json!({"kept": true}))];
    if ctx.quick() {
        v.extend([e1("recover", 3), e1("drop", 3), e1("recover-1emitter", 4), e1("recover-unwinding", 3), e1("drop-unwinding", 3)]);
        let mut imp = e1("recover", 2);
        imp.name = "e1-recover-impatient-waits-pb2".into();
        imp.arg["impatient"] = json!(24);
        v.push(imp);
    } else {
        v.extend([e1("recover", 4).budget(1500.0), e1("drop", 4).budget(1500.0), e1("recover-1emitter", 6).budget(1500.0), e1("recover-3", 3).budget(1500.0), e1("recover-unwinding", 4).budget(1500.0), e1("drop-unwinding", 4).budget(1500.0)]);
    }
    v
}

fn run(ctx: &Ctx, spec: &PartSpec) -> PartResult {
    let mut res = PartResult::new(&spec.name, "");
    if spec.arg["second"].as_bool() == Some(true) {
        second_instance_part(&mut res);
        return res;
    }
    if spec.arg["kept"].as_bool() == Some(true) {
        kept_handles_part(&mut res);
        return res;
    }
    if spec.arg["install"].as_bool() == Some(true) {
        install_fail_part(&mut res);
        return res;
    }
    if let Some(r) = spec.arg["install_ok"].as_bool() {
        install_ok_part(&mut res, r);
        return res;
    }
    let pb = spec.arg["pb"].as_u64().unwrap_or(3) as usize;
    if let Some(k) = spec.arg["impatient"].as_u64() {
        // impatient waits (see vsched::IMPATIENT): into_inner's retry loop runs 24 times at once while an emission is
        // parked inside the recorder
        vsched::IMPATIENT.store(k as u32, std::sync::atomic::Ordering::Relaxed);
    }
    let scn = match spec.arg["e1"].as_str().unwrap_or("") {
        "recover" => scenario("emitter(describe_gauge, register_counter+increment) || emitter(describe_counter) || into_inner", vec![vec![0, 1], vec![2]], true),
        "drop" => scenario("emitter(describe_gauge, register_counter+increment) || emitter(describe_counter) || drop(handle)", vec![vec![0, 1], vec![2]], false),
        "recover-unwinding" => scenario("emitter(counter emitted by a destructor during unwinding, describe_gauge) || emitter(describe_histogram by a destructor during unwinding) || into_inner", vec![vec![4, 0], vec![5]], true),
        "drop-unwinding" => scenario("emitter(counter emitted by a destructor during unwinding, describe_gauge) || emitter(describe_histogram by a destructor during unwinding) || drop(handle)", vec![vec![4, 0], vec![5]], false),
        "recover-3" => scenario("3 emitters || into_inner", vec![vec![0], vec![1], vec![3]], true),
        _ => scenario("emitter(register_counter+increment, describe_counter, register_histogram) || into_inner", vec![vec![1, 2, 3]], true),
    };
    vsched::explore(&scn, &Cfg { max_bound: pb, horizon: 20000 }, ctx, &mut res);
    res
}

fn main() {
    driver::main(CheckDef {
        prop: "C20",
        level: "model_checking",
        rule: "every SC interleaving (pb-bounded) of emitting threads using the wrapper returned by RecoverableRecorder (real WeakRecorder / RecoveryHandle code; Arc clone/drop/downgrade/upgrade/try_unwrap are scheduling points via the facade Arc, plus one point inside every recorder call) with a thread calling into_inner() or dropping the handle, emissions also made by a destructor while a caught panic unwinds through its frame; the double counts calls in flight, calls entering after the end, drops; epilogue emissions must be inert; plus process-level histories: a failing install(), and a successful install() followed by the six operations through the facade macros with unusual but legal arguments (empty description carrying only a unit, empty name, labels, explicit target and level; normally and from a destructor during unwinding; what reaches the recorder is compared field by field), a second (failing) install, a scripted history with two wrapper instances in one process (a recovery of the first that has to wait for a call in flight while further emissions arrive, then a fresh second instance), into_inner() or drop(handle), and the six operations again; distinct = distinct (emissions that reached the recorder) outcomes; kept handles: for every subset of {counter, gauge, histogram} handles obtained through the wrapper and kept by the caller x {drop the recovery handle, into_inner}: the recorder is dropped once and at once (or handed back), into_inner returns (10 s watchdog), later emissions are inert",
        assumptions: &["sequential consistency", "the wrapper is obtained through the guarded verif_build() (the same private build() that install() uses) instead of being installed as the process-global recorder"],
        parts,
        run,
    });
}
