//! C18 — the scrape endpoint serves the current rendering and enforces its allowlist (E4).
use metrics::{Key, Label, Level, Metadata, Recorder};
use metrics_exporter_prometheus::PrometheusBuilder;
use std::io::{Read, Write};
use std::net::{Ipv4Addr, SocketAddr, TcpStream};
use std::os::fd::FromRawFd;
use std::time::Duration;
use vcore::driver::{self, CheckDef, Ctx, PartResult, PartSpec};
use vcore::json;
use vcore::promtext;
use vcore::vseq;

static META: Metadata<'static> = Metadata::new("t", Level::INFO, None);

/// TCP connect with an explicit source address (anywhere in 127.0.0.0/8).
fn connect_from(src: Ipv4Addr, dst: SocketAddr, linger_reset: bool) -> std::io::Result<TcpStream> {
    unsafe {
        let fd = libc::socket(libc::AF_INET, libc::SOCK_STREAM | libc::SOCK_CLOEXEC, 0);
        if fd < 0 {
            return Err(std::io::Error::last_os_error());
        }
        let mk = |ip: Ipv4Addr, port: u16| libc::sockaddr_in { sin_family: libc::AF_INET as u16, sin_port: port.to_be(), sin_addr: libc::in_addr { s_addr: u32::from(ip).to_be() }, sin_zero: [0; 8] };
        let s = mk(src, 0);
        if libc::bind(fd, &s as *const _ as *const libc::sockaddr, std::mem::size_of::<libc::sockaddr_in>() as u32) != 0 {
            let e = std::io::Error::last_os_error();
            libc::close(fd);
            return Err(e);
        }
        let dip = match dst {
            SocketAddr::V4(a) => *a.ip(),
            _ => Ipv4Addr::LOCALHOST,
        };
        if SMALL_RCVBUF.load(std::sync::atomic::Ordering::SeqCst) {
            let sz: libc::c_int = 4096;
            libc::setsockopt(fd, libc::SOL_SOCKET, libc::SO_RCVBUF, &sz as *const _ as *const libc::c_void, 4);
        }
        let d = mk(dip, dst.port());
        if libc::connect(fd, &d as *const _ as *const libc::sockaddr, std::mem::size_of::<libc::sockaddr_in>() as u32) != 0 {
            let e = std::io::Error::last_os_error();
            libc::close(fd);
            return Err(e);
        }
        if linger_reset {
            let l = libc::linger { l_onoff: 1, l_linger: 0 };
            libc::setsockopt(fd, libc::SOL_SOCKET, libc::SO_LINGER, &l as *const _ as *const libc::c_void, std::mem::size_of::<libc::linger>() as u32);
        }
        Ok(TcpStream::from_raw_fd(fd))
    }
}

/// the slow-reader part connects with a 4 KiB receive buffer (set before connect, so the window is small from the start)
static SMALL_RCVBUF: std::sync::atomic::AtomicBool = std::sync::atomic::AtomicBool::new(false);

struct Resp {
    status: u16,
    body: String,
}

fn get(src: Ipv4Addr, dst: SocketAddr, path: &str, timeout: Duration) -> Result<Resp, String> {
    let mut s = connect_from(src, dst, false).map_err(|e| format!("connect: {}", e))?;
    s.set_read_timeout(Some(timeout)).unwrap();
    s.set_write_timeout(Some(timeout)).unwrap();
    s.write_all(format!("GET {} HTTP/1.1\r\nHost: verif\r\nConnection: close\r\n\r\n", path).as_bytes()).map_err(|e| format!("write: {}", e))?;
    let mut buf = Vec::new();
    let mut tmp = [0u8; 8192];
    loop {
        match s.read(&mut tmp) {
            Ok(0) => break,
            Ok(n) => buf.extend_from_slice(&tmp[..n]),
            Err(e) if e.kind() == std::io::ErrorKind::WouldBlock || e.kind() == std::io::ErrorKind::TimedOut => return Err(format!("timeout after {} bytes", buf.len())),
            Err(e) => return Err(format!("read: {}", e)),
        }
    }
    let txt = String::from_utf8_lossy(&buf).to_string();
    let (head, body) = txt.split_once("\r\n\r\n").ok_or_else(|| format!("no header end in {:?}", txt))?;
    let status: u16 = head.split(' ').nth(1).and_then(|x| x.parse().ok()).ok_or_else(|| format!("bad status line in {:?}", head))?;
    let body = if head.to_ascii_lowercase().contains("transfer-encoding: chunked") {
        // de-chunk
        let mut out = String::new();
        let mut rest = body;
        loop {
            let (len, r) = rest.split_once("\r\n").ok_or("bad chunk")?;
            let n = usize::from_str_radix(len.trim(), 16).map_err(|_| "bad chunk len")?;
            if n == 0 {
                break;
            }
            out.push_str(&r[..n]);
            rest = &r[n + 2..];
        }
        out
    } else {
        body.to_string()
    };
    Ok(Resp { status, body })
}

/// served = retried once with a 10x timeout before "not served" is reported
fn get_patient(src: Ipv4Addr, dst: SocketAddr, path: &str) -> Result<Resp, String> {
    match get(src, dst, path, Duration::from_secs(3)) {
        Ok(r) => Ok(r),
        Err(_) => get(src, dst, path, Duration::from_secs(30)),
    }
}

// incl. the catch-all of each address family: `::/0` contains no IPv4 peer, `0.0.0.0/0` every one
const ENTRIES: [&str; 8] = ["127.0.0.1", "127.0.0.2/32", "127.0.0.0/30", "127.0.1.0/24", "10.0.0.0/8", "::1/128", "::/0", "0.0.0.0/0"];
const PEERS: [[u8; 4]; 8] = [[127, 0, 0, 1], [127, 0, 0, 2], [127, 0, 0, 3], [127, 0, 0, 4], [127, 0, 1, 0], [127, 0, 1, 255], [127, 0, 2, 0], [127, 1, 1, 1]];
const PATHS: [&str; 4] = ["/", "/metrics", "/health", "/healthz"];
/// "any path": also long ones (a request head of 9 kB and of 60 kB; http::Uri allows up to 65534 bytes)
fn long_paths() -> Vec<String> {
    vec![format!("/metrics/{}", "a".repeat(9_000)), format!("/metrics?{}", "q=1&".repeat(15_000))]
}

/// independent CIDR arithmetic: does the IPv4 peer lie in the network written as `entry`?
fn in_net(entry: &str, peer: [u8; 4]) -> bool {
    let (addr, bits) = match entry.split_once('/') {
        Some((a, b)) => (a, b.parse::<u32>().unwrap()),
        None => (entry, 32),
    };
    if addr.contains(':') {
        return false; // an IPv6 network never contains an IPv4 peer
    }
    let a: Vec<u32> = addr.split('.').map(|x| x.parse::<u32>().unwrap()).collect();
    let net = (a[0] << 24) | (a[1] << 16) | (a[2] << 8) | a[3];
    let p = ((peer[0] as u32) << 24) | ((peer[1] as u32) << 16) | ((peer[2] as u32) << 8) | peer[3] as u32;
    let mask = if bits == 0 { 0 } else { u32::MAX << (32 - bits) };
    (net & mask) == (p & mask)
}

struct Exporter {
    _rt: tokio::runtime::Runtime,
    addr: SocketAddr,
    rec: metrics_exporter_prometheus::PrometheusRecorder,
}

static LISTENER_LAST: std::sync::atomic::AtomicBool = std::sync::atomic::AtomicBool::new(false);
fn start(allow: &[&str]) -> Result<Exporter, (String, String)> {
    start_with(allow, &|_| {})
}

/// `pre` runs after the listener is bound (connections complete in the kernel backlog) and before the exporter starts
/// accepting: a deterministic way to have a connection in a given state at the moment it is accepted
fn start_with(allow: &[&str], pre: &dyn Fn(SocketAddr)) -> Result<Exporter, (String, String)> {
    let port = {
        let l = std::net::TcpListener::bind("127.0.0.1:0").unwrap();
        l.local_addr().unwrap().port()
    };
    let addr: SocketAddr = format!("127.0.0.1:{}", port).parse().unwrap();
    // the two builder options are independent: the matrix builds every exporter both ways (allowlist after / before the listen address)
    let listener_last = LISTENER_LAST.load(std::sync::atomic::Ordering::SeqCst);
    let mut b = PrometheusBuilder::new();
    if !listener_last {
        b = b.with_http_listener(addr);
    }
    for e in allow {
        b = match b.add_allowed_address(e) {
            Ok(b) => b,
            Err(err) => return Err(("documented-allowlist-entry-rejected".into(), format!("add_allowed_address({:?}) failed: {} (plain addresses and CIDR subnets are both documented)", e, err))),
        };
    }
    if listener_last {
        b = b.with_http_listener(addr);
    }
    let rt = tokio::runtime::Builder::new_multi_thread().worker_threads(2).enable_all().build().unwrap();
    let (rec, fut) = rt.block_on(async { b.build() }).map_err(|e| ("exporter-failed-to-start".to_string(), e.to_string()))?;
    pre(addr);
    rt.spawn(fut);
    if !NO_METRICS.load(std::sync::atomic::Ordering::SeqCst) {
        register_all(&rec);
    }
    Ok(Exporter { _rt: rt, addr, rec })
}
/// the empty-registry part starts its exporters without any metric
static NO_METRICS: std::sync::atomic::AtomicBool = std::sync::atomic::AtomicBool::new(false);
fn register_all(rec: &metrics_exporter_prometheus::PrometheusRecorder) {
    rec.register_counter(&Key::from_parts("scrape_c", vec![Label::new("l", "v")]), &META).increment(5);
    rec.register_gauge(&Key::from_name("scrape_g"), &META).set(2.5);
    let h = rec.register_histogram(&Key::from_name("scrape_h"), &META);
    h.record(1.0);
    h.record(3.0);
}

/// A scraper that reads slowly: the rendering (about 12 MB) does not fit into the socket buffers, the client reads the
/// response head, stalls for 12 s and then reads the rest. It is a GET like any other: status 200 and the whole body the
/// head announces (the exporter may take as long as the client needs; it may not cut the response short).
fn slow_reader_part(res: &mut PartResult) {
    res.engine = "E4 scripted history: a scraper that stalls for 12 s in the middle of a large response".into();
    res.executions = 1;
    res.states = 1;
    res.distinct_outcomes = 1;
    let ex = match start(&[]) {
        Ok(e) => e,
        Err((sig, msg)) => {
            res.violation(&sig, msg, json!({}));
            return;
        }
    };
    let pad = "x".repeat(4000);
    for i in 0..3000 {
        ex.rec.register_counter(&Key::from_parts(format!("big_{}", i), vec![Label::new("pad", pad.clone())]), &META).increment(1);
    }
    res.transitions += 3000;
    SMALL_RCVBUF.store(true, std::sync::atomic::Ordering::SeqCst);
    let s = connect_from(Ipv4Addr::LOCALHOST, ex.addr, false);
    SMALL_RCVBUF.store(false, std::sync::atomic::Ordering::SeqCst);
    let mut s = match s {
        Ok(s) => s,
        Err(e) => {
            res.error = Some(format!("connect: {}", e));
            return;
        }
    };
    s.set_read_timeout(Some(Duration::from_secs(30))).unwrap();
    let cfg = json!({"slow_reader": true});
    if s.write_all(b"GET /metrics HTTP/1.1\r\nHost: verif\r\nConnection: close\r\n\r\n").is_err() {
        res.violation("client-not-served", "the request could not be written".into(), cfg);
        return;
    }
    // read the head
    let mut buf: Vec<u8> = Vec::new();
    let mut tmp = [0u8; 2048];
    let head_end = loop {
        if let Some(p) = buf.windows(4).position(|w| w == b"\r\n\r\n") {
            break p + 4;
        }
        match s.read(&mut tmp) {
            Ok(0) | Err(_) => {
                res.violation("client-not-served", format!("no response head (got {} bytes)", buf.len()), cfg);
                return;
            }
            Ok(n) => buf.extend_from_slice(&tmp[..n]),
        }
    };
    let head = String::from_utf8_lossy(&buf[..head_end]).to_ascii_lowercase();
    let status: u16 = head.split(' ').nth(1).and_then(|x| x.parse().ok()).unwrap_or(0);
    let clen: Option<usize> = head.lines().find_map(|l| l.strip_prefix("content-length:").and_then(|v| v.trim().parse().ok()));
    res.transitions += 1;
    std::thread::sleep(Duration::from_secs(12));
    res.transitions += 1;
    let mut big = vec![0u8; 1 << 16];
    let mut err: Option<String> = None;
    loop {
        match s.read(&mut big) {
            Ok(0) => break,
            Ok(n) => buf.extend_from_slice(&big[..n]),
            Err(e) => {
                err = Some(e.to_string());
                break;
            }
        }
    }
    let body = &buf[head_end..];
    let complete = match clen {
        Some(n) => body.len() == n,
        None => head.contains("transfer-encoding: chunked") && body.ends_with(b"0\r\n\r\n"),
    };
    if status != 200 || !complete {
        res.violation("response-cut-short", format!("a scraper read the head of a large response (status {}, content-length {:?}), stalled for 12 s and read on: it received {} body bytes{} before the exporter closed the connection; the response announced more", status, clen, body.len(), err.map(|e| format!(" (then: {})", e)).unwrap_or_default()), cfg);
    } else if !body.windows(8).any(|w| w == b"big_2999") && clen.is_some() {
        res.violation("response-cut-short", "the body has the announced length but does not hold the last series".into(), cfg);
    }
    res.sample(json!({"history": "GET /metrics (about 12 MB); read the head; stall 12 s; read to the end", "expected": "status 200 and the whole announced body"}));
    drop(ex);
}

/// Many scrapers at once against a rendering that takes a while (12 MB), and scrapers that hang up while their rendering
/// is being produced: 24 simultaneous GETs are all answered 200 with the whole rendering; after 12 clients, one after
/// the other, sent a request and hung up before the answer, later clients are served as before.
fn concurrent_large_part(res: &mut PartResult) {
    res.engine = "E4 scripted history: 24 simultaneous scrapers of a large rendering; 12 scrapers that hang up mid-render; later clients".into();
    res.executions = 1;
    res.states = 1;
    res.distinct_outcomes = 1;
    let ex = match start(&[]) {
        Ok(e) => e,
        Err((sig, msg)) => {
            res.violation(&sig, msg, json!({}));
            return;
        }
    };
    let pad = "x".repeat(4000);
    for i in 0..3000 {
        ex.rec.register_counter(&Key::from_parts(format!("big_{}", i), vec![Label::new("pad", pad.clone())]), &META).increment(1);
    }
    let cfg = json!({"concurrent_large": true});
    let addr = ex.addr;
    let one = move || -> Result<(u16, usize, bool), String> {
        let r = get(Ipv4Addr::LOCALHOST, addr, "/metrics", Duration::from_secs(60))?;
        Ok((r.status, r.body.len(), r.body.contains("big_2999")))
    };
    // how long one scrape takes (the hang-ups below happen well inside it)
    let t0 = std::time::Instant::now();
    let base = one();
    let one_ms = t0.elapsed().as_millis() as u64;
    if !matches!(base, Ok((200, _, true))) {
        res.violation("client-not-served", format!("baseline scrape of the large rendering: {:?}", base.map(|b| (b.0, b.1))), cfg.clone());
        return;
    }
    let want_len = base.unwrap().1;
    let hs: Vec<_> = (0..24).map(|_| std::thread::spawn(one)).collect();
    let rs: Vec<Result<(u16, usize, bool), String>> = hs.into_iter().map(|h| h.join().unwrap_or_else(|_| Err("thread".into()))).collect();
    res.transitions += 24;
    let bad: Vec<String> = rs.iter().filter(|r| !matches!(r, Ok((200, l, true)) if *l == want_len)).map(|r| format!("{:?}", r.as_ref().map(|x| (x.0, x.1)))).collect();
    if !bad.is_empty() {
        res.violation("client-not-served", format!("24 simultaneous scrapers of a rendering that takes {} ms: {} of them were not answered 200 with the whole rendering: {:?}", one_ms, bad.len(), bad.iter().take(6).collect::<Vec<_>>()), cfg.clone());
    }
    // scrapers that hang up while their rendering is being produced, one after the other
    for _ in 0..12 {
        if let Ok(mut s) = connect_from(Ipv4Addr::LOCALHOST, ex.addr, false) {
            let _ = s.write_all(b"GET /metrics HTTP/1.1\r\nHost: verif\r\n\r\n");
            std::thread::sleep(Duration::from_millis((one_ms / 8).clamp(2, 40)));
            drop(s);
        }
        std::thread::sleep(Duration::from_millis(one_ms + 50));
        res.transitions += 1;
    }
    for (peer, path) in [([127, 0, 0, 1], "/metrics"), ([127, 0, 0, 1], "/health"), ([127, 0, 0, 1], "/")] {
        let r = get_patient(Ipv4Addr::from(peer), ex.addr, path);
        let ok = match (&r, path) {
            (Ok(r), "/health") => r.status == 200,
            (Ok(r), _) => r.status == 200 && r.body.len() == want_len,
            _ => false,
        };
        if !ok {
            res.violation("later-client-not-served-after-disturbance", format!("after 12 scrapers had sent a request and hung up before the answer (one at a time), GET {} got {:?}", path, r.as_ref().map(|x| (x.status, x.body.len())).map_err(|e| e.clone())), cfg.clone());
            break;
        }
    }
    res.sample(json!({"history": "baseline scrape; 24 simultaneous scrapes; 12 x (request, hang up mid-render); scrape", "expected": "all answered 200 with the whole rendering"}));
    drop(ex);
}

/// An exporter that has no metric yet (a scrape right after start-up, or after everything idled out) still serves:
/// 200 with an empty exposition for a peer inside the allowlist, 403 outside; and it serves the metrics registered later.
fn empty_registry_part(res: &mut PartResult) {
    res.engine = "E4 scripted history: scrapes of an exporter before its first metric, then after".into();
    NO_METRICS.store(true, std::sync::atomic::Ordering::SeqCst);
    for allow in [None, Some(vec!["127.0.0.0/30"]), Some(vec!["127.0.0.1"])] {
        let cfg = json!({"empty_registry": true, "allow": format!("{:?}", allow)});
        let ex = match start(allow.as_deref().unwrap_or(&[])) {
            Ok(e) => e,
            Err((sig, msg)) => {
                res.violation(&sig, msg, cfg);
                return;
            }
        };
        for round in 0..2 {
            for (peer, path) in [([127, 0, 0, 1], "/metrics"), ([127, 0, 0, 1], "/"), ([127, 0, 0, 1], "/health"), ([127, 0, 2, 0], "/metrics")] {
                res.executions += 1;
                res.transitions += 1;
                let r = get_patient(Ipv4Addr::from(peer), ex.addr, path);
                let inside = allow.as_ref().map_or(true, |l| l.iter().any(|e| in_net(e, peer)));
                if round == 1 || !inside || path == "/health" {
                    if let Err((sig, msg)) = judge(allow.as_deref(), peer, path, &r) {
                        res.violation(&sig, format!("{} scrape (allowlist {:?}) from {:?} GET {}: {}", if round == 0 { "before the first metric, a" } else { "after the first metrics were registered, a" }, allow, Ipv4Addr::from(peer), path, msg), cfg.clone());
                    }
                    continue;
                }
                match r {
                    Ok(r) if r.status == 200 && !r.body.lines().any(|l| !l.trim().is_empty() && !l.starts_with('#')) => {}
                    Ok(r) => res.violation("client-not-served", format!("a scrape of an exporter that has no metric yet (allowlist {:?}, GET {}) got status {} body {:?}; an empty registry is an empty exposition, status 200", allow, path, r.status, r.body.chars().take(80).collect::<String>()), cfg.clone()),
                    Err(e) => res.violation("client-not-served", format!("a scrape of an exporter that has no metric yet (allowlist {:?}, GET {}): no response: {}", allow, path, e), cfg.clone()),
                }
            }
            if round == 0 {
                register_all(&ex.rec);
            }
        }
        drop(ex);
    }
    res.states = 6;
    res.distinct_outcomes = 3;
    res.sample(json!({"history": "start without metrics; scrape /metrics, /, /health inside and outside the allowlist; register; scrape again", "expected": "200 + empty exposition, then 200 + the metrics; 403 outside"}));
}

/// checks one response against the oracle
fn judge(allow: Option<&[&str]>, peer: [u8; 4], path: &str, r: &Result<Resp, String>) -> Result<&'static str, (String, String)> {
    let inside = match allow {
        None => true,
        Some(list) => list.iter().any(|e| in_net(e, peer)),
    };
    let r = match r {
        Ok(r) => r,
        Err(e) => return Err(("client-not-served".into(), format!("no response: {}", e))),
    };
    if !inside {
        if r.status != 403 || !r.body.is_empty() {
            let sig = if r.body.contains("scrape_") { "metrics-leaked-to-peer-outside-allowlist" } else { "peer-outside-allowlist-not-refused" };
            return Err((sig.into(), format!("status {} body {:?}", r.status, r.body.chars().take(120).collect::<String>())));
        }
        return Ok("403");
    }
    if r.status != 200 {
        return Err(("peer-inside-allowlist-refused".into(), format!("status {} for a peer inside a listed network", r.status)));
    }
    if path == "/health" {
        if r.body != "OK" {
            return Err(("health-endpoint-wrong".into(), format!("/health body {:?}", r.body)));
        }
        return Ok("health");
    }
    let fams = promtext::parse(&r.body).map_err(|e| ("scrape-body-malformed".to_string(), format!("{} in {:?}", e, r.body)))?;
    let val = |fam: &str, sample: &str| fams.iter().find(|f| f.name == fam).and_then(|f| f.samples.iter().find(|s| s.name == sample)).map(|s| s.value.clone());
    let ok = val("scrape_c", "scrape_c").as_deref() == Some("5") && val("scrape_g", "scrape_g").as_deref() == Some("2.5") && val("scrape_h", "scrape_h_count").as_deref() == Some("2") && val("scrape_h", "scrape_h_sum").as_deref() == Some("4") && fams.len() == 3;
    if !ok {
        return Err(("scrape-body-is-not-the-current-rendering".into(), format!("body {:?}", r.body)));
    }
    Ok("200")
}

static THOROUGH: std::sync::atomic::AtomicBool = std::sync::atomic::AtomicBool::new(false);
fn allowlists() -> Vec<Vec<&'static str>> {
    let thorough = THOROUGH.load(std::sync::atomic::Ordering::SeqCst);
    let mut v: Vec<Vec<&'static str>> = Vec::new();
    for i in 0..ENTRIES.len() {
        v.push(vec![ENTRIES[i]]);
        for j in 0..ENTRIES.len() {
            // ordered pairs in the thorough tier (the order in which entries are added must not matter), unordered in the quick one
            if j > i || (thorough && j != i) {
                v.push(vec![ENTRIES[i], ENTRIES[j]]);
            }
            for k in j + 1..ENTRIES.len() {
                if thorough && j > i {
                    v.push(vec![ENTRIES[i], ENTRIES[j], ENTRIES[k]]);
                }
            }
        }
    }
    v
}

fn matrix_part(ctx: &Ctx, res: &mut PartResult, lists: Vec<Option<Vec<&'static str>>>) {
    res.engine = "E4 allowlists x peer addresses x paths against the real HTTP listener".into();
    let mut states = vseq::States::new();
    for allow in lists {
        if ctx.over_budget() {
            res.cap_hit = Some("budget (cpu time of the part)".into());
            res.exhaustive = false;
            break;
        }
      for listener_last in [false, true] {
        if listener_last && allow.is_none() {
            continue;
        }
        LISTENER_LAST.store(listener_last, std::sync::atomic::Ordering::SeqCst);
        let replay = json!({"allow": allow, "listener_last": listener_last});
        if let Some(rp) = &ctx.replay {
            if rp["allow"] != replay["allow"] || rp["listener_last"].as_bool().unwrap_or(false) != listener_last {
                continue;
            }
        }
        let ex = match start(allow.as_deref().unwrap_or(&[])) {
            Ok(e) => e,
            Err((sig, msg)) => {
                res.executions += 1;
                res.violation(&sig, format!("allowlist {:?}: {}", allow, msg), replay);
                continue;
            }
        };
        let long = long_paths();
        for (pi, peer) in PEERS.iter().enumerate() {
            let peer = *peer;
            // the long paths from the first two peers (one inside, one outside most lists)
            let paths: Vec<&str> = PATHS.iter().copied().chain(long.iter().filter(|_| pi < 2).map(|s| s.as_str())).collect();
            for path in paths {
                res.executions += 1;
                res.transitions += 1;
                let r = get_patient(Ipv4Addr::from(peer), ex.addr, path);
                let shown: String = if path.len() > 40 { format!("{}… ({} bytes)", &path[..24], path.len()) } else { path.to_string() };
                match judge(allow.as_deref(), peer, path, &r) {
                    Ok(o) => {
                        states.add(&(format!("{:?}", allow), peer, o, path.len() > 40));
                    }
                    Err((sig, msg)) => res.violation(&sig, format!("allowlist {:?} (given {} the listen address), peer {:?}, GET {}: {}", allow, if listener_last { "before" } else { "after" }, Ipv4Addr::from(peer), shown, msg), replay.clone()),
                }
            }
        }
        // the rendering is current: an update is visible in the next scrape
        ex.rec.register_counter(&Key::from_parts("scrape_c", vec![Label::new("l", "v")]), &META).increment(1);
        if allow.is_none() {
            let r = get_patient(Ipv4Addr::LOCALHOST, ex.addr, "/metrics");
            if !r.as_ref().map(|r| r.body.contains("scrape_c{l=\"v\"} 6")).unwrap_or(false) {
                res.violation("scrape-body-is-not-the-current-rendering", "an increment made after the first scrape is not visible in the next one".into(), replay.clone());
            }
        }
        drop(ex);
      }
      LISTENER_LAST.store(false, std::sync::atomic::Ordering::SeqCst);
    }
    res.states = states.len();
    res.distinct_outcomes = states.len();
    res.sample(json!({"allowlist": ["127.0.0.0/30", "127.0.1.0/24"], "peer": "127.0.0.4", "path": "/metrics", "expected": "403, empty body"}));
}

#[derive(Clone, Copy, Debug)]
enum Dist {
    Garbage,
    HalfRequest,
    Reset,
    Concurrent,
    OutsideFlood,
    /// a peer outside the allowlist connects and stays silent (connection held open)
    OutsideSilent,
    /// a peer outside the allowlist sends a whole request, reads its answer and idles on keep-alive (held open)
    OutsideKeepAlive,
    /// the same from an allowed peer
    InsideKeepAlive,
}
const DISTS: [Dist; 8] = [Dist::Garbage, Dist::HalfRequest, Dist::Reset, Dist::Concurrent, Dist::OutsideFlood, Dist::OutsideSilent, Dist::OutsideKeepAlive, Dist::InsideKeepAlive];

fn disturbance_part(ctx: &Ctx, res: &mut PartResult) {
    res.engine = "E4 disturbance sequences (garbage, half-open, reset, concurrent scrapers, silent / keep-alive connections held by refused and by allowed peers) followed by a probe".into();
    let mut states = vseq::States::new();
    let mut seqs: Vec<Vec<usize>> = vec![vec![]];
    for a in 0..DISTS.len() {
        seqs.push(vec![a]);
        for b in 0..DISTS.len() {
            seqs.push(vec![a, b]);
            if THOROUGH.load(std::sync::atomic::Ordering::SeqCst) {
                for c in 0..DISTS.len() {
                    seqs.push(vec![a, b, c]);
                }
            }
        }
    }
    for allow in [None, Some(vec!["127.0.0.0/30"])] {
        let ex = match start(allow.as_deref().unwrap_or(&[])) {
            Ok(e) => e,
            Err((sig, msg)) => {
                res.violation(&sig, msg, json!({}));
                continue;
            }
        };
        let mut held: Vec<TcpStream> = Vec::new();
        let mut wedged = false;
        for seq in &seqs {
            if ctx.over_budget() {
                res.cap_hit = Some("budget (cpu time of the part)".into());
                res.exhaustive = false;
                break;
            }
            res.executions += 1;
            for d in seq {
                res.transitions += 1;
                match DISTS[*d] {
                    Dist::Garbage => {
                        if let Ok(mut s) = connect_from(Ipv4Addr::new(127, 0, 0, 2), ex.addr, false) {
                            let _ = s.write_all(b"\x00\xff\x16\x03garbage that is not http\r\n\r\n");
                            s.set_read_timeout(Some(Duration::from_millis(300))).unwrap();
                            let mut t = [0u8; 256];
                            let _ = s.read(&mut t);
                        }
                    }
                    Dist::HalfRequest => {
                        if let Ok(mut s) = connect_from(Ipv4Addr::new(127, 0, 0, 1), ex.addr, false) {
                            let _ = s.write_all(b"GET /metrics HTTP/1.1\r\nHost: x");
                            held.push(s); // stays half-open and idle
                        }
                    }
                    Dist::Reset => {
                        if let Ok(mut s) = connect_from(Ipv4Addr::new(127, 0, 0, 3), ex.addr, true) {
                            let _ = s.write_all(b"GET /metrics HTTP/1.1\r\n");
                            drop(s); // SO_LINGER 0: RST
                        }
                    }
                    Dist::Concurrent => {
                        let hs: Vec<_> = (0..8).map(|i| {
                            let a = ex.addr;
                            std::thread::spawn(move || get_patient(Ipv4Addr::new(127, 0, 0, 1 + (i % 2)), a, "/metrics"))
                        }).collect();
                        for h in hs {
                            let r = h.join().unwrap();
                            if let Err((sig, msg)) = judge(allow.as_deref(), [127, 0, 0, 1], "/metrics", &r) {
                                if sig == "client-not-served" {
                                    wedged = true;
                                }
                                res.violation(&sig, format!("one of 8 concurrent scrapers: {}", msg), json!({"seq": seq}));
                            }
                        }
                    }
                    Dist::OutsideFlood => {
                        for _ in 0..4 {
                            let _ = get(Ipv4Addr::new(127, 9, 9, 9), ex.addr, "/metrics", Duration::from_secs(3));
                        }
                    }
                    Dist::OutsideSilent => {
                        if let Ok(s) = connect_from(Ipv4Addr::new(127, 9, 9, 8), ex.addr, false) {
                            held.push(s);
                        }
                    }
                    Dist::OutsideKeepAlive | Dist::InsideKeepAlive => {
                        let src = if matches!(DISTS[*d], Dist::OutsideKeepAlive) { Ipv4Addr::new(127, 9, 9, 7) } else { Ipv4Addr::new(127, 0, 0, 2) };
                        if let Ok(mut s) = connect_from(src, ex.addr, false) {
                            let _ = s.write_all(b"GET /metrics HTTP/1.1\r\nHost: x\r\n\r\n");
                            s.set_read_timeout(Some(Duration::from_millis(500))).unwrap();
                            let mut t = [0u8; 4096];
                            let _ = s.read(&mut t); // (part of) the answer; the connection then idles
                            held.push(s);
                        }
                    }
                }
            }
            if wedged {
                res.exhaustive = false;
                res.cap_hit = Some("stopped at the first disturbance sequence after which the exporter no longer served".into());
                break;
            }
            // the probe after any disturbance is served
            for (peer, path) in [([127, 0, 0, 1], "/metrics"), ([127, 0, 0, 1], "/health"), ([127, 0, 2, 0], "/metrics")] {
                let r = get_patient(Ipv4Addr::from(peer), ex.addr, path);
                match judge(allow.as_deref(), peer, path, &r) {
                    Ok(o) => {
                        states.add(&(format!("{:?}", seq), o));
                    }
                    Err((sig, msg)) => {
                        let dead = sig == "client-not-served";
                        let sig = if dead { "later-client-not-served-after-disturbance".to_string() } else { sig };
                        res.violation(&sig, format!("after disturbances {:?} (allowlist {:?}) probe from {:?} GET {}: {}", seq.iter().map(|d| DISTS[*d]).collect::<Vec<_>>(), allow, Ipv4Addr::from(peer), path, msg), json!({"seq": seq}));
                        if dead {
                            // this exporter no longer serves: every further sequence against it would only wait for the
                            // same time-outs (33 s per probe)
                            wedged = true;
                        }
                    }
                }
                if wedged {
                    break;
                }
            }
            if wedged {
                res.exhaustive = false;
                res.cap_hit = Some("stopped at the first disturbance sequence after which the exporter no longer served".into());
                break;
            }
        }
        drop(held);
        drop(ex);
    }
    // connections that are already reset / garbage / half-open at the moment the exporter accepts them
    for allow in [None, Some(vec!["127.0.0.0/30"]), Some(vec!["127.0.0.1", "10.0.0.0/8"])] {
        for pre in 0..4usize {
            res.executions += 1;
            res.transitions += 1;
            let held: std::sync::Mutex<Vec<TcpStream>> = std::sync::Mutex::new(Vec::new());
            let ex = match start_with(allow.as_deref().unwrap_or(&[]), &|addr| match pre {
                0 => {
                    // completed handshake, then RST, before accept
                    if let Ok(s) = connect_from(Ipv4Addr::new(127, 0, 0, 2), addr, true) {
                        drop(s);
                    }
                    std::thread::sleep(Duration::from_millis(20));
                }
                1 => {
                    if let Ok(mut s) = connect_from(Ipv4Addr::new(127, 0, 0, 1), addr, false) {
                        let _ = s.write_all(b"\x16\x03\x01 not http");
                        held.lock().unwrap().push(s);
                    }
                }
                2 => {
                    if let Ok(mut s) = connect_from(Ipv4Addr::new(127, 0, 0, 1), addr, false) {
                        let _ = s.write_all(b"GET /metr");
                        held.lock().unwrap().push(s);
                    }
                }
                _ => {
                    // several resets and a normal close queued up
                    for i in 0..3 {
                        if let Ok(s) = connect_from(Ipv4Addr::new(127, 0, 0, 1 + i), addr, i != 1) {
                            drop(s);
                        }
                    }
                    std::thread::sleep(Duration::from_millis(20));
                }
            }) {
                Ok(e) => e,
                Err((sig, msg)) => {
                    res.violation(&sig, msg, json!({"pre": pre}));
                    continue;
                }
            };
            for (peer, path) in [([127, 0, 0, 1], "/metrics"), ([127, 0, 0, 1], "/health"), ([127, 0, 2, 0], "/metrics")] {
                let r = get_patient(Ipv4Addr::from(peer), ex.addr, path);
                match judge(allow.as_deref(), peer, path, &r) {
                    Ok(o) => {
                        states.add(&(format!("pre{}", pre), o));
                    }
                    Err((sig, msg)) => {
                        let sig = if sig == "client-not-served" { "later-client-not-served-after-disturbance".to_string() } else { sig };
                        res.violation(&sig, format!("a connection was {} before the exporter accepted it (allowlist {:?}); afterwards the probe from {:?} GET {}: {}", ["reset", "sending garbage", "half a request", "reset (several queued)"][pre], allow, Ipv4Addr::from(peer), path, msg), json!({"pre": pre}))
                    }
                }
            }
            drop(ex);
        }
    }
    res.states = states.len();
    res.distinct_outcomes = states.len();
    res.sample(json!({"disturbances": ["HalfRequest", "Reset"], "then": "GET /metrics from 127.0.0.1 must be served"}));
}

/// The exporter's own periodic upkeep task (drains histogram buckets every `upkeep_timeout`) running next to scrapes:
/// all sequences over {record a sample, scrape, wait two upkeep periods} — a scrape always reports exactly the
/// samples recorded so far (count and sum), i.e. upkeep and render together count every sample exactly once.
fn upkeep_part(ctx: &Ctx, res: &mut PartResult, depth: usize) {
    res.engine = "E4 sequences of {record, scrape, let the periodic upkeep task run} against a real exporter with a short upkeep timeout".into();
    let mut states = vseq::States::new();
    let period = Duration::from_millis(15);
    let mut run = |seq: &[usize]| -> Option<usize> {
        let port = {
            let l = std::net::TcpListener::bind("127.0.0.1:0").unwrap();
            l.local_addr().unwrap().port()
        };
        let addr: SocketAddr = format!("127.0.0.1:{}", port).parse().unwrap();
        let b = PrometheusBuilder::new().with_http_listener(addr).upkeep_timeout(period).set_buckets(&[1.5, 10.0]).unwrap();
        let rt = tokio::runtime::Builder::new_multi_thread().worker_threads(2).enable_all().build().unwrap();
        let (rec, fut) = match rt.block_on(async { b.build() }) {
            Ok(x) => x,
            Err(e) => {
                res.violation("exporter-failed-to-start", e.to_string(), json!({"seq": seq}));
                return Some(0);
            }
        };
        rt.spawn(fut);
        let h = rec.register_histogram(&Key::from_name("up_h"), &META);
        let mut n = 0u64;
        let mut sum = 0.0f64;
        // two final steps: let upkeep run, then scrape
        let steps: Vec<usize> = seq.iter().cloned().chain([2, 1]).collect();
        for (i, op) in steps.iter().enumerate() {
            match op {
                0 => {
                    n += 1;
                    h.record(n as f64);
                    sum += n as f64;
                }
                2 => std::thread::sleep(period * 2 + Duration::from_millis(5)),
                _ => {
                    res.transitions += 1;
                    let r = get_patient(Ipv4Addr::LOCALHOST, addr, "/metrics");
                    let body = match r {
                        Ok(r) if r.status == 200 => r.body,
                        other => {
                            res.violation("client-not-served", format!("after {:?}: {:?}", &steps[..i], other.map(|r| r.status)), json!({"seq": seq}));
                            return Some(i.min(seq.len() - 1));
                        }
                    };
                    let fams = match promtext::parse(&body) {
                        Ok(f) => f,
                        Err(e) => {
                            res.violation("scrape-body-malformed", format!("{} in {:?}", e, body), json!({"seq": seq}));
                            return Some(i.min(seq.len() - 1));
                        }
                    };
                    let val = |sample: &str, le: Option<&str>| fams.iter().find(|f| f.name == "up_h").and_then(|f| f.samples.iter().find(|s| s.name == sample && le.map(|l| s.label("le") == Some(l)).unwrap_or(true))).map(|s| s.value_f64());
                    let got = (val("up_h_count", None), val("up_h_sum", None), val("up_h_bucket", Some("1.5")), val("up_h_bucket", Some("+Inf")));
                    let want = (Some(n as f64), Some(sum), Some(n.min(1) as f64), Some(n as f64));
                    states.add(&format!("{:?}", got));
                    if got != want {
                        res.violation("scrape-body-is-not-the-current-rendering", format!("steps {:?} (0 record, 1 scrape, 2 wait for upkeep): scrape reports (count, sum, le=1.5, +Inf) = {:?}, recorded so far {:?}", &steps[..=i], got, want), json!({"seq": seq}));
                        return Some(i.min(seq.len() - 1));
                    }
                }
            }
        }
        drop(rt);
        None
    };
    let mut total = 0;
    for d in 1..=depth {
        let (n, complete) = vseq::for_each_seq(3, d, &mut run, &|| ctx.over_budget());
        total += n;
        if !complete {
            res.exhaustive = false;
            res.cap_hit = Some("budget (cpu time of the part)".into());
            break;
        }
    }
    res.executions = total;
    res.states = states.len();
    res.distinct_outcomes = states.len();
    res.bound = json!({"max_depth": depth, "alphabet": ["record", "scrape", "wait 2 upkeep periods"], "upkeep_timeout_ms": 15, "then": "wait + scrape"});
    res.sample(json!({"sequence": ["record", "wait", "record", "scrape"], "expected": "count 2, sum 3"}));
}

// ------------------------------------------------------------------ IPv6 listener, IPv6 peer (::1)
// (plain IPv6 hosts other than the peer, near it and far from it: a plain address is one host, whatever the family)
const ENTRIES6: [&str; 13] = ["::1", "::1/128", "::/64", "::/8", "fe80::/10", "2001:db8::/32", "127.0.0.1", "0.0.0.0/8", "0.0.0.0/0", "::/0", "::2", "0:0:ffff::10", "::3/128"];

/// independent CIDR arithmetic for an IPv6 peer; an IPv4 network never contains an IPv6 peer
fn in_net6(entry: &str, peer: std::net::Ipv6Addr) -> bool {
    let (addr, bits) = match entry.split_once('/') {
        Some((a, b)) => (a, Some(b.parse::<u32>().unwrap())),
        None => (entry, None),
    };
    let net: std::net::Ipv6Addr = match addr.parse() {
        Ok(a) => a,
        Err(_) => return false,
    };
    let bits = bits.unwrap_or(128);
    let (n, p) = (u128::from(net), u128::from(peer));
    let mask = if bits == 0 { 0 } else { u128::MAX << (128 - bits) };
    (n & mask) == (p & mask)
}

fn get6(dst: SocketAddr, path: &str, timeout: Duration) -> Result<Resp, String> {
    let mut s = TcpStream::connect_timeout(&dst, timeout).map_err(|e| format!("connect: {}", e))?;
    s.set_read_timeout(Some(timeout)).unwrap();
    s.write_all(format!("GET {} HTTP/1.1\r\nHost: verif\r\nConnection: close\r\n\r\n", path).as_bytes()).map_err(|e| format!("write: {}", e))?;
    let mut buf = Vec::new();
    let mut tmp = [0u8; 8192];
    loop {
        match s.read(&mut tmp) {
            Ok(0) => break,
            Ok(n) => buf.extend_from_slice(&tmp[..n]),
            Err(e) => return Err(format!("read: {} after {} bytes", e, buf.len())),
        }
    }
    let txt = String::from_utf8_lossy(&buf).to_string();
    let (head, body) = txt.split_once("\r\n\r\n").ok_or_else(|| format!("no header end in {:?}", txt))?;
    let status: u16 = head.split(' ').nth(1).and_then(|x| x.parse().ok()).ok_or_else(|| format!("bad status line in {:?}", head))?;
    Ok(Resp { status, body: body.to_string() })
}

/// Allowlists (none, and all subsets of size 1-2 of IPv6 and IPv4 entries) against an exporter listening on [::1],
/// scraped from ::1: served exactly when an IPv6 entry contains ::1; IPv4 entries never admit an IPv6 peer.
fn ipv6_part(ctx: &Ctx, res: &mut PartResult) {
    res.engine = "E4 allowlists x paths against the real HTTP listener on the IPv6 loopback".into();
    let mut states = vseq::States::new();
    if std::net::TcpListener::bind("[::1]:0").is_err() {
        res.bound = json!({"skipped": "no IPv6 loopback in this environment"});
        res.executions = 1;
        res.states = 1;
        res.distinct_outcomes = 1;
        return;
    }
    let mut lists: Vec<Option<Vec<&'static str>>> = vec![None];
    for i in 0..ENTRIES6.len() {
        lists.push(Some(vec![ENTRIES6[i]]));
        for j in i + 1..ENTRIES6.len() {
            lists.push(Some(vec![ENTRIES6[i], ENTRIES6[j]]));
        }
    }
    let peer = std::net::Ipv6Addr::LOCALHOST;
    for allow in lists {
        if ctx.over_budget() {
            res.cap_hit = Some("budget (cpu time of the part)".into());
            res.exhaustive = false;
            break;
        }
        let replay = json!({"allow6": allow});
        let port = {
            let l = std::net::TcpListener::bind("[::1]:0").unwrap();
            l.local_addr().unwrap().port()
        };
        let addr: SocketAddr = format!("[::1]:{}", port).parse().unwrap();
        let mut bo = Some(PrometheusBuilder::new().with_http_listener(addr));
        let mut bad_entry = None;
        for e in allow.iter().flatten() {
            match bo.take().unwrap().add_allowed_address(e) {
                Ok(b) => bo = Some(b),
                Err(err) => {
                    bad_entry = Some(format!("add_allowed_address({:?}) failed: {}", e, err));
                    break;
                }
            }
        }
        if let Some(m) = bad_entry {
            res.executions += 1;
            res.violation("documented-allowlist-entry-rejected", m, replay);
            continue;
        }
        let b = bo.unwrap();
        let rt = tokio::runtime::Builder::new_multi_thread().worker_threads(2).enable_all().build().unwrap();
        let (rec, fut) = match rt.block_on(async { b.build() }) {
            Ok(x) => x,
            Err(e) => {
                res.executions += 1;
                res.violation("exporter-failed-to-start", format!("allowlist {:?} on [::1]: {}", allow, e), replay);
                continue;
            }
        };
        rt.spawn(fut);
        rec.register_counter(&Key::from_parts("scrape_c", vec![Label::new("l", "v")]), &META).increment(5);
        let inside = allow.as_ref().map(|l| l.iter().any(|e| in_net6(e, peer))).unwrap_or(true);
        for path in PATHS {
            res.executions += 1;
            res.transitions += 1;
            let r = get6(addr, path, Duration::from_secs(3)).or_else(|_| get6(addr, path, Duration::from_secs(30)));
            let verdict: Result<&str, (String, String)> = match &r {
                Err(e) => Err(("client-not-served".into(), format!("no response: {}", e))),
                Ok(r) if !inside => {
                    if r.status != 403 || !r.body.is_empty() {
                        Err((if r.body.contains("scrape_") { "metrics-leaked-to-peer-outside-allowlist" } else { "peer-outside-allowlist-not-refused" }.into(), format!("status {} body {:?}", r.status, r.body.chars().take(120).collect::<String>())))
                    } else {
                        Ok("403")
                    }
                }
                Ok(r) if r.status != 200 => Err(("peer-inside-allowlist-refused".into(), format!("status {} for a peer inside a listed network", r.status))),
                Ok(r) if path == "/health" => if r.body == "OK" { Ok("health") } else { Err(("health-endpoint-wrong".into(), format!("/health body {:?}", r.body))) },
                Ok(r) => if r.body.contains("scrape_c{l=\"v\"} 5") && promtext::parse(&r.body).is_ok() { Ok("200") } else { Err(("scrape-body-is-not-the-current-rendering".into(), format!("body {:?}", r.body))) },
            };
            match verdict {
                Ok(o) => {
                    states.add(&(format!("{:?}", allow), o));
                }
                Err((sig, msg)) => res.violation(&sig, format!("listener [::1], allowlist {:?}, peer ::1, GET {}: {}", allow, path, msg), replay.clone()),
            }
        }
        drop(rt);
    }
    res.states = states.len();
    res.distinct_outcomes = states.len();
    res.bound = json!({"entries": ENTRIES6, "subsets_up_to": 2, "peer": "::1", "paths": PATHS});
    res.sample(json!({"allowlist": ["127.0.0.1", "0.0.0.0/8"], "peer": "::1", "expected": "403, empty body"}));
}

/// Resource exhaustion as a fault of `accept()` itself: with the process at its file-descriptor limit the exporter's
/// accept fails (EMFILE) for a scraper that has already connected; once descriptors are free again later clients (and
/// the waiting one) must be served. Runs in its own part process (the limit is per process).
fn fd_exhaustion_part(res: &mut PartResult) {
    res.engine = "E4 scripted fault history: accept() failing with EMFILE, then descriptors released".into();
    res.executions = 1;
    res.states = 1;
    res.distinct_outcomes = 1;
    for allow in [None, Some(vec!["127.0.0.0/30"])] {
        let ex = match start(allow.as_deref().unwrap_or(&[])) {
            Ok(e) => e,
            Err((sig, msg)) => {
                res.violation(&sig, msg, json!({}));
                return;
            }
        };
        let cfg = json!({"fd_exhaustion": true, "allow": format!("{:?}", allow)});
        if let Err((sig, msg)) = judge(allow.as_deref(), [127, 0, 0, 1], "/metrics", &get_patient(Ipv4Addr::LOCALHOST, ex.addr, "/metrics")) {
            res.violation(&sig, format!("baseline scrape before the fault: {}", msg), cfg.clone());
            return;
        }
        // lower the soft limit, then fill the table
        let mut lim = libc::rlimit { rlim_cur: 0, rlim_max: 0 };
        unsafe { libc::getrlimit(libc::RLIMIT_NOFILE, &mut lim) };
        let old = lim;
        lim.rlim_cur = 256.min(lim.rlim_max);
        unsafe { libc::setrlimit(libc::RLIMIT_NOFILE, &lim) };
        let mut filler: Vec<std::fs::File> = Vec::new();
        while let Ok(f) = std::fs::File::open("/dev/null") {
            filler.push(f);
            if filler.len() > 100_000 {
                break;
            }
        }
        // one descriptor for the scraper's own socket; the exporter has none left for the accepted connection
        filler.pop();
        res.transitions += 1;
        let waiting = connect_from(Ipv4Addr::LOCALHOST, ex.addr, false);
        std::thread::sleep(Duration::from_millis(300));
        drop(filler);
        unsafe { libc::setrlimit(libc::RLIMIT_NOFILE, &old) };
        res.transitions += 1;
        for (peer, path) in [([127, 0, 0, 1], "/metrics"), ([127, 0, 0, 1], "/health"), ([127, 0, 2, 0], "/")] {
            let r = get_patient(Ipv4Addr::from(peer), ex.addr, path);
            if let Err((sig, msg)) = judge(allow.as_deref(), peer, path, &r) {
                let sig = if sig == "client-not-served" { "later-client-not-served-after-disturbance".to_string() } else { sig };
                res.violation(&sig, format!("after accept() had failed for lack of file descriptors (allowlist {:?}), and descriptors were free again, probe from {:?} GET {}: {}", allow, Ipv4Addr::from(peer), path, msg), cfg.clone());
                break;
            }
        }
        // the scraper that connected during the shortage is served as well once it sends its request
        if let Ok(mut s) = waiting {
            let _ = s.write_all(b"GET /health HTTP/1.1\r\nHost: x\r\nConnection: close\r\n\r\n");
            s.set_read_timeout(Some(Duration::from_secs(10))).unwrap();
            let mut buf = Vec::new();
            let mut t = [0u8; 1024];
            while let Ok(n) = s.read(&mut t) {
                if n == 0 {
                    break;
                }
                buf.extend_from_slice(&t[..n]);
            }
            if !String::from_utf8_lossy(&buf).starts_with("HTTP/1.1 200") {
                res.violation("later-client-not-served-after-disturbance", format!("the scraper that had connected while accept() was failing got {:?} after descriptors were free again", String::from_utf8_lossy(&buf).chars().take(60).collect::<String>()), cfg.clone());
            }
        }
        drop(ex);
    }
    res.sample(json!({"history": "scrape ok; descriptor table filled; a scraper connects (accept fails with EMFILE); descriptors released; probes", "expected": "all probes served"}));
}

fn parts(ctx: &Ctx) -> Vec<PartSpec> {
    THOROUGH.store(!ctx.quick(), std::sync::atomic::Ordering::SeqCst);
    let b = if ctx.quick() { 150.0 } else { 1800.0 };
    let n = allowlists().len();
    let mut v = vec![PartSpec::new("matrix-no-allowlist", json!({"lists": "none"})).budget(b)];
    let chunk = if ctx.quick() { 3 } else { 2 };
    let mut i = 0;
    while i < n {
        v.push(PartSpec::new(&format!("matrix-allowlists-{}-{}", i, (i + chunk).min(n) - 1), json!({"lists": [i, (i + chunk).min(n)]})).budget(b));
        i += chunk;
    }
    v.push(PartSpec::new("disturbances", json!({"dist": true})).budget(b * 2.0));
    let d = if ctx.quick() { 3 } else { 5 };
    v.push(PartSpec::new(&format!("upkeep-task-d{}", d), json!({"upkeep": d})).budget(b));
    v.push(PartSpec::new("ipv6-loopback", json!({"ipv6": true})).budget(b));
    v.push(PartSpec::new("accept-out-of-descriptors", json!({"fds": true})).budget(b));
    v.push(PartSpec::new("empty-registry", json!({"empty": true})).budget(b));
    v.push(PartSpec::new("slow-reader-12s", json!({"slow": true})).budget(b));
    v.push(PartSpec::new("concurrent-scrapers-of-a-large-rendering", json!({"conc": true})).budget(b));
    v
}

fn run(ctx: &Ctx, spec: &PartSpec) -> PartResult {
    THOROUGH.store(!ctx.quick(), std::sync::atomic::Ordering::SeqCst);
    let mut res = PartResult::new(&spec.name, "");
    vseq::quiet_panics();
    if spec.arg["fds"].as_bool() == Some(true) {
        fd_exhaustion_part(&mut res);
    } else if spec.arg["conc"].as_bool() == Some(true) {
        concurrent_large_part(&mut res);
    } else if spec.arg["slow"].as_bool() == Some(true) {
        slow_reader_part(&mut res);
    } else if spec.arg["empty"].as_bool() == Some(true) {
        empty_registry_part(&mut res);
    } else if spec.arg["ipv6"].as_bool() == Some(true) {
        ipv6_part(ctx, &mut res);
    } else if let Some(d) = spec.arg["upkeep"].as_u64() {
        upkeep_part(ctx, &mut res, d as usize);
    } else if spec.arg["dist"].as_bool() == Some(true) {
        disturbance_part(ctx, &mut res);
    } else if spec.arg["lists"].as_str() == Some("none") {
        matrix_part(ctx, &mut res, vec![None]);
    } else {
        let a = spec.arg["lists"][0].as_u64().unwrap() as usize;
        let b = spec.arg["lists"][1].as_u64().unwrap() as usize;
        let all = allowlists();
        matrix_part(ctx, &mut res, all[a..b].iter().cloned().map(Some).collect());
    }
    res
}

fn main() {
    driver::main(CheckDef {
        prop: "C18",
        level: "fault_enumeration",
        rule: "allowlists = none and all subsets of size 1-2 (thorough: ordered pairs and subsets of size 3) of {127.0.0.1 (plain address), 127.0.0.2/32, 127.0.0.0/30, 127.0.1.0/24, 10.0.0.0/8, ::1/128, ::/0, 0.0.0.0/0} x peers bound to {127.0.0.1,.2,.3,.4, 127.0.1.0, 127.0.1.255, 127.0.2.0, 127.1.1.1} x paths {/, /metrics, /health, /healthz; from two of the peers also a 9 kB path and a 60 kB query string}, one request each against a fresh real exporter (builder.build() on a tokio runtime; every allowlist given once after and once before the listen address); oracle: independent CIDR arithmetic; inside => 200 and the body parses (strict parser) to exactly the recorded state, /health => OK; outside => 403 with an empty body; plus all disturbance sequences of length <= 2 (thorough 3) over {garbage bytes, half a request then idle, connect + RST, 8 concurrent scrapers, 4 refused scrapes, a silent connection held open by a refused peer, a keep-alive connection idling after its answer held by a refused peer and by an allowed peer} each followed by probes that must be served; a scripted fault history in which accept() itself fails for lack of file descriptors (EMFILE) and descriptors are then released; plus an exporter listening on [::1] scraped from ::1 under no allowlist and all subsets of size 1-2 of {::1, ::1/128, ::/64, ::/8, fe80::/10, 2001:db8::/32, 127.0.0.1, 0.0.0.0/8} (an IPv4 network never admits an IPv6 peer); plus all sequences (depth <= 3 quick / 5 thorough) over {record, scrape, wait for the exporter's periodic upkeep task (15 ms period)}: every scrape reports exactly the samples recorded so far; distinct_nontrivial = distinct (allowlist, peer, outcome) / (sequence, outcome) cases; plus exporters without any metric: /metrics, / and /health inside and outside the allowlist before the first metric (200 with an empty exposition / 403) and again after metrics were registered; plus a scraper with a 4 KiB receive buffer that reads the head of a 12 MB rendering, stalls for 12 s and reads on: status 200 and the whole announced body; 24 simultaneous scrapers of a 12 MB rendering are all answered 200 with the whole rendering, and after 12 scrapers that hung up while their rendering was being produced later clients are served",
        assumptions: &["tokio / hyper task scheduling runs free: request histories are enumerated, not the server's internal interleavings", "a response is awaited 3 s and then once more for 30 s before 'not served' is reported"],
        parts,
        run,
    });
}
