//! C03 — Key equality, ordering and hashing agree and ignore how a key was built (E3 + E1).
use metrics::{Counter, Gauge, Histogram, Key, KeyName, Label, Metadata, Recorder, SharedString, Unit};
use std::cmp::Ordering as CmpO;
use std::hash::{Hash, Hasher};
use std::sync::{Arc, Mutex};
use vcore::driver::{self, CheckDef, Ctx, PartResult, PartSpec};
use vcore::json;
use vcore::vseq;
use vcore::vsched::{self, body, fail, Cfg, Scenario, Verdict};

type AKey = (String, Vec<(String, String)>); // abstract key: name + label list in supplied order

fn leak(s: &str) -> &'static str {
    Box::leak(s.to_string().into_boxed_str())
}
fn leak_labels(ls: &[(String, String)]) -> &'static [Label] {
    let v: Vec<Label> = ls.iter().map(|(k, v)| Label::from_static_parts(leak(k), leak(v))).collect();
    Box::leak(v.into_boxed_slice())
}
/// Static strings that *alias*: within a category (0 name, 1 label name, 2 label value) every string that is a
/// prefix of the category's base text is a sub-slice of that one static, so that e.g. "", "a" and "ab" start at the
/// same address and differ only in length (what `&NAME[..n]` / `strip_suffix` on a static gives a caller).
fn alias(cat: usize, s: &str) -> &'static str {
    static BASES: [&str; 3] = ["ab", "kk", "xy"];
    let b: &'static str = BASES[cat];
    if b.starts_with(s) {
        &b[..s.len()]
    } else {
        leak(s)
    }
}
fn alias_labels(ls: &[(String, String)]) -> &'static [Label] {
    let v: Vec<Label> = ls.iter().map(|(k, v)| Label::from_static_parts(alias(1, k), alias(2, v))).collect();
    Box::leak(v.into_boxed_slice())
}
fn owned_labels(ls: &[(String, String)]) -> Vec<Label> {
    ls.iter().map(|(k, v)| Label::new(k.clone(), v.clone())).collect()
}
fn arc_labels(ls: &[(String, String)]) -> Vec<Label> {
    ls.iter().map(|(k, v)| Label::new(SharedString::from_shared(Arc::<str>::from(k.as_str())), SharedString::from_shared(Arc::<str>::from(v.as_str())))).collect()
}

/// Recording hasher: the exact byte stream fed by `Hash`.
#[derive(Default)]
struct RecHasher(Vec<u8>);
impl Hasher for RecHasher {
    fn finish(&self) -> u64 {
        0
    }
    fn write(&mut self, b: &[u8]) {
        self.0.extend_from_slice(b);
        self.0.push(0xfe); // chunk boundary matters for hash equality
    }
}
fn stream(k: &Key) -> Vec<u8> {
    let mut h = RecHasher::default();
    k.hash(&mut h);
    h.0
}

struct Capture(Mutex<Vec<Key>>);
impl Recorder for Capture {
    fn describe_counter(&self, _: KeyName, _: Option<Unit>, _: SharedString) {}
    fn describe_gauge(&self, _: KeyName, _: Option<Unit>, _: SharedString) {}
    fn describe_histogram(&self, _: KeyName, _: Option<Unit>, _: SharedString) {}
    fn register_counter(&self, k: &Key, _: &Metadata<'_>) -> Counter {
        self.0.lock().unwrap().push(k.clone());
        Counter::noop()
    }
    fn register_gauge(&self, k: &Key, _: &Metadata<'_>) -> Gauge {
        self.0.lock().unwrap().push(k.clone());
        Gauge::noop()
    }
    fn register_histogram(&self, k: &Key, _: &Metadata<'_>) -> Histogram {
        self.0.lock().unwrap().push(k.clone());
        Histogram::noop()
    }
}

/// Every public construction path for one abstract key: (path name, key).
fn build_all(a: &AKey) -> Vec<(String, Key)> {
    let (name, ls) = a;
    let mut out: Vec<(String, Key)> = Vec::new();
    out.push(("from_parts(String,owned)".into(), Key::from_parts(name.clone(), owned_labels(ls))));
    out.push(("from_parts(&'static,static labels)".into(), Key::from_parts(leak(name), leak_labels(ls).to_vec())));
    out.push(("from_parts(Arc<str>,Arc labels)".into(), Key::from_parts(SharedString::from_shared(Arc::<str>::from(name.as_str())), arc_labels(ls))));
    out.push(("from_parts(name,Iter<Label>)".into(), Key::from_parts(name.clone(), owned_labels(ls).iter())));
    out.push(("from_parts(name,&[(k,v)])".into(), Key::from_parts(name.clone(), &ls.iter().map(|(k, v)| (k.clone(), v.clone())).collect::<Vec<_>>()[..])));
    out.push(("from_static_parts".into(), Key::from_static_parts(leak(name), leak_labels(ls))));
    out.push(("from_static_parts(aliasing sub-slices)".into(), Key::from_static_parts(alias(0, name), alias_labels(ls))));
    out.push(("from_static_labels".into(), Key::from_static_labels(name.clone(), leak_labels(ls))));
    out.push(("From<(N,L)>".into(), Key::from((name.clone(), owned_labels(ls)))));
    if ls.is_empty() {
        out.push(("from_name".into(), Key::from_name(name.clone())));
        out.push(("from_static_name".into(), Key::from_static_name(leak(name))));
        out.push(("From<N>".into(), Key::from(name.clone())));
    }
    for split in 0..=ls.len() {
        let base = if split == 0 { Key::from_name(name.clone()) } else { Key::from_static_parts(leak(name), leak_labels(&ls[..split])) };
        out.push((format!("with_extra_labels@{}", split), base.with_extra_labels(owned_labels(&ls[split..]))));
    }
    // clones: of a hashed key, of a not-yet-hashed static key, and of a static key after its first get_hash
    out.push(("clone(owned)".into(), out[0].1.clone()));
    let st = Key::from_static_parts(leak(name), leak_labels(ls));
    out.push(("clone(static,unhashed)".into(), st.clone()));
    let _ = st.get_hash();
    out.push(("clone(static,hashed)".into(), st.clone()));
    out.push(("static after get_hash".into(), st));
    // through the macros (computed name + label collection), captured by a local recorder
    if !name.is_empty() || true {
        let cap = Capture(Mutex::new(vec![]));
        let lv = owned_labels(ls);
        metrics::with_local_recorder(&cap, || {
            let _ = metrics::counter!(name.clone(), lv.clone());
            let _ = metrics::gauge!(name.clone(), lv.iter());
            let pairs: Vec<(String, String)> = ls.clone();
            let _ = metrics::histogram!(name.clone(), &pairs);
        });
        for (i, k) in cap.0.into_inner().unwrap().into_iter().enumerate() {
            out.push((format!("macro#{}", i), k));
        }
    }
    out
}

fn universe(thorough: bool) -> Vec<AKey> {
    let names = ["", "a", "ab", "é"];
    let vals: &[&str] = if thorough { &["", "x", "y"] } else { &["", "x"] };
    let mut labels: Vec<(String, String)> = Vec::new();
    for k in ["k", "l"] {
        for v in vals {
            labels.push((k.to_string(), v.to_string()));
        }
    }
    let maxlen = if thorough { 4 } else { 3 };
    let mut lists: Vec<Vec<(String, String)>> = vec![vec![]];
    let mut layer: Vec<Vec<(String, String)>> = vec![vec![]];
    for _ in 0..maxlen {
        let mut next = Vec::new();
        for l in &layer {
            for x in &labels {
                let mut n = l.clone();
                n.push(x.clone());
                next.push(n);
            }
        }
        lists.extend(next.iter().cloned());
        layer = next;
    }
    // structured long lists: lengths 7, 8, 9 — distinct names, a rotation, one repeated name, one repeated label
    for n in [5usize, 7, 8, 9] {
        let distinct: Vec<(String, String)> = (0..n).map(|i| (format!("n{}", i), format!("v{}", i % 2))).collect();
        let mut rot = distinct.clone();
        rot.rotate_left(3);
        let mut rev = distinct.clone();
        rev.reverse();
        let mut rep_name = distinct.clone();
        rep_name[n - 1].0 = "n0".into();
        let mut rep_name_sw = rep_name.clone();
        rep_name_sw.swap(0, n - 1);
        let mut rep_label = distinct.clone();
        rep_label[n - 1] = rep_label[1].clone();
        let mut other_val = distinct.clone();
        other_val[2].1 = "zz".into();
        lists.extend([distinct, rot, rev, rep_name, rep_name_sw, rep_label, other_val]);
    }
    // long lists (beyond every small-size special case of the sorting routines) with one label name used four times:
    // any permutation that keeps the same-named labels in their relative order gives a key that is == (canonical order =
    // stable sort by name) and must therefore hash alike. 16 deterministic shuffles per size, under one name only.
    let mut long_lists: Vec<Vec<(String, String)>> = Vec::new();
    for n in [21usize, 24, 40] {
        let dups: Vec<(String, String)> = (0..4).map(|d| ("dup".to_string(), format!("d{}", d))).collect();
        let others: Vec<(String, String)> = (0..n - 4).map(|i| (format!("m{:02}", i), format!("v{}", i % 3))).collect();
        let mut seed: u64 = 0x9e37_79b9_7f4a_7c15 ^ n as u64;
        let mut next = |m: usize| -> usize {
            seed = seed.wrapping_mul(6364136223846793005).wrapping_add(1442695040888963407);
            ((seed >> 33) as usize) % m
        };
        for variant in 0..16 {
            // positions of the four same-named labels (ascending), everything else shuffled around them
            let mut pos: Vec<usize> = Vec::new();
            while pos.len() < 4 {
                let p = next(n);
                if !pos.contains(&p) {
                    pos.push(p);
                }
            }
            pos.sort();
            let mut o = others.clone();
            for i in (1..o.len()).rev() {
                o.swap(i, next(i + 1));
            }
            let mut list = Vec::with_capacity(n);
            let (mut oi, mut di) = (0, 0);
            for i in 0..n {
                if di < 4 && pos[di] == i {
                    list.push(dups[di].clone());
                    di += 1;
                } else {
                    list.push(o[oi].clone());
                    oi += 1;
                }
            }
            if variant == 15 {
                // one that really differs: two of the same-named labels swapped
                list.swap(pos[0], pos[3]);
            }
            long_lists.push(list);
        }
    }
    let mut out = Vec::new();
    for n in names {
        for l in &lists {
            out.push((n.to_string(), l.clone()));
        }
    }
    for l in long_lists {
        out.push(("a".to_string(), l));
    }
    out
}

fn distinct_names(a: &AKey) -> bool {
    let mut s = std::collections::BTreeSet::new();
    a.1.iter().all(|(k, _)| s.insert(k.clone()))
}

fn e3(ctx: &Ctx, res: &mut PartResult, which: &str) {
    res.engine = "E3 exhaustive pairs/triples over the key universe".into();
    let thorough = !ctx.quick();
    let uni = universe(thorough);
    let mut states = vseq::States::new();
    let mut viol = |res: &mut PartResult, sig: &str, msg: String, a: &AKey, b: &AKey| {
        res.violation(sig, msg, json!({"a": a, "b": b}));
    };
    if which == "paths" {
        // all construction paths of one abstract key give == keys with identical hashes
        for a in &uni {
            let objs = build_all(a);
            let h0 = objs[0].1.get_hash();
            let s0 = stream(&objs[0].1);
            states.add(&(h0, &s0));
            for (pn, k) in &objs {
                res.executions += 1;
                res.transitions += 1;
                let ok_eq = *k == objs[0].1 && objs[0].1 == *k && k.cmp(&objs[0].1) == CmpO::Equal && objs[0].1.cmp(k) == CmpO::Equal;
                if !ok_eq {
                    viol(res, "construction-path-changes-equality", format!("key {:?} built via {} is not ==/cmp-Equal to the one built via {}", a, pn, objs[0].0), a, a);
                }
                if k.get_hash() != h0 || k.get_hash() != k.get_hash() || stream(k) != s0 {
                    viol(res, "construction-path-changes-hash", format!("key {:?} built via {} hashes differently from the one built via {}", a, pn, objs[0].0), a, a);
                }
                if k.name() != a.0 || k.labels().map(|l| (l.key().to_string(), l.value().to_string())).collect::<Vec<_>>() != a.1 {
                    viol(res, "construction-path-changes-content", format!("key built via {} does not read back {:?}", pn, a), a, a);
                }
            }
        }
        res.bound = json!({"abstract_keys": uni.len(), "paths_per_key": "14-20"});
        res.sample(json!({"abstract_key": uni[37], "paths": build_all(&uni[37]).iter().map(|p| p.0.clone()).collect::<Vec<_>>()}));
    } else if which == "pairs" {
        // relational laws over all ordered pairs, two representatives per abstract key
        let reps: Vec<(usize, Key)> = uni.iter().enumerate().flat_map(|(i, a)| vec![(i, Key::from_parts(a.0.clone(), owned_labels(&a.1))), (i, Key::from_static_parts(alias(0, &a.0), alias_labels(&a.1)))]).collect();
        let streams: Vec<Vec<u8>> = reps.iter().map(|(_, k)| stream(k)).collect();
        // canonical class for keys with pairwise distinct label names: sorted label list
        let canon: Vec<Option<(String, Vec<(String, String)>)>> = uni.iter().map(|a| if distinct_names(a) { let mut l = a.1.clone(); l.sort(); Some((a.0.clone(), l)) } else { None }).collect();
        for (x, (i, a)) in reps.iter().enumerate() {
            if x % 64 == 0 && ctx.over_budget() {
                res.cap_hit = Some("budget (cpu time of the part)".into());
                res.exhaustive = false;
                break;
            }
            for (y, (j, b)) in reps.iter().enumerate() {
                res.executions += 1;
                res.transitions += 1;
                let eq = a == b;
                let c = a.cmp(b);
                states.add(&(eq, c as i8, streams[x] == streams[y]));
                if eq != (c == CmpO::Equal) {
                    viol(res, "eq-and-cmp-disagree", format!("{:?} vs {:?}: == is {} but cmp is {:?}", uni[*i], uni[*j], eq, c), &uni[*i], &uni[*j]);
                }
                if eq != (b == a) {
                    viol(res, "eq-not-symmetric", format!("{:?} vs {:?}", uni[*i], uni[*j]), &uni[*i], &uni[*j]);
                }
                if c != b.cmp(a).reverse() {
                    viol(res, "cmp-not-antisymmetric", format!("{:?} vs {:?}: {:?} / {:?}", uni[*i], uni[*j], c, b.cmp(a)), &uni[*i], &uni[*j]);
                }
                if a.partial_cmp(b) != Some(c) {
                    viol(res, "partial-cmp-disagrees", format!("{:?} vs {:?}", uni[*i], uni[*j]), &uni[*i], &uni[*j]);
                }
                if eq && (streams[x] != streams[y] || a.get_hash() != b.get_hash()) {
                    viol(res, "equal-keys-hash-differently", format!("{:?} == {:?} but Hash stream equal={} get_hash equal={}", uni[*i], uni[*j], streams[x] == streams[y], a.get_hash() == b.get_hash()), &uni[*i], &uni[*j]);
                }
                if let (Some(ca), Some(cb)) = (&canon[*i], &canon[*j]) {
                    if (ca == cb) && !eq {
                        viol(res, "label-order-changes-equality", format!("{:?} and {:?} have the same pairwise-distinctly-named labels in another order but are not ==", uni[*i], uni[*j]), &uni[*i], &uni[*j]);
                    }
                    if ca != cb && eq {
                        viol(res, "different-keys-compare-equal", format!("{:?} == {:?}", uni[*i], uni[*j]), &uni[*i], &uni[*j]);
                    }
                }
                if i == j && !eq {
                    viol(res, "eq-not-reflexive", format!("{:?}", uni[*i]), &uni[*i], &uni[*j]);
                }
            }
        }
        res.bound = json!({"abstract_keys": uni.len(), "objects": reps.len()});
        res.sample(json!({"pair": [uni[9].clone(), uni[12].clone()]}));
    } else {
        // transitivity over all triples of keys sharing one name
        let name = which.strip_prefix("triples:").unwrap_or("a");
        let ks: Vec<(usize, Key)> = uni.iter().enumerate().filter(|(_, a)| a.0 == name).map(|(i, a)| (i, Key::from_parts(a.0.clone(), owned_labels(&a.1)))).collect();
        let n = ks.len();
        let mut eqm = vec![false; n * n];
        let mut lem = vec![false; n * n];
        for x in 0..n {
            for y in 0..n {
                eqm[x * n + y] = ks[x].1 == ks[y].1;
                lem[x * n + y] = ks[x].1.cmp(&ks[y].1) != CmpO::Greater;
            }
        }
        'outer: for x in 0..n {
            if ctx.over_budget() {
                res.cap_hit = Some("budget (cpu time of the part)".into());
                res.exhaustive = false;
                break;
            }
            for y in 0..n {
                for z in 0..n {
                    res.executions += 1;
                    if eqm[x * n + y] && eqm[y * n + z] && !eqm[x * n + z] {
                        viol(res, "eq-not-transitive", format!("{:?} == {:?} == {:?} but first != last", uni[ks[x].0], uni[ks[y].0], uni[ks[z].0]), &uni[ks[x].0], &uni[ks[z].0]);
                        break 'outer;
                    }
                    if lem[x * n + y] && lem[y * n + z] && !lem[x * n + z] {
                        viol(res, "cmp-not-transitive", format!("{:?} <= {:?} <= {:?} but first > last", uni[ks[x].0], uni[ks[y].0], uni[ks[z].0]), &uni[ks[x].0], &uni[ks[z].0]);
                        break 'outer;
                    }
                }
            }
        }
        res.transitions = (n * n) as u64;
        states.add(&eqm);
        states.add(&lem);
        res.bound = json!({"keys_with_this_name": n});
        res.sample(json!({"triple_of": [uni[ks[1].0].clone(), uni[ks[2].0].clone(), uni[ks[n - 1].0].clone()]}));
    }
    res.states = states.len();
    res.distinct_outcomes = states.len();
}

// ------------------------------------------------------------------ E1: racing first get_hash() on a shared static key
struct S {
    key: &'static Key,
    expect: u64,
    got: Mutex<Vec<(usize, u64)>>,
}
static LABELS: [Label; 2] = [Label::from_static_parts("k", "v"), Label::from_static_parts("a", "b")];

fn e1(ctx: &Ctx, res: &mut PartResult, pb: usize) {
    let scn = Scenario {
        name: "3 threads race the first get_hash() of one static key (get_hash x2 | get_hash, clone().get_hash() | std Hash, get_hash)".into(),
        setup: Box::new(|| {
            let key: &'static Key = Box::leak(Box::new(Key::from_static_parts("shared", &LABELS)));
            let expect = Key::from_parts("shared", LABELS.to_vec()).get_hash();
            S { key, expect, got: Mutex::new(vec![]) }
        }),
        bodies: vec![
            body(|s: &S| {
                let a = s.key.get_hash();
                let b = s.key.get_hash();
                s.got.lock().unwrap().extend([(0, a), (0, b)]);
            }),
            body(|s: &S| {
                let a = s.key.get_hash();
                let c = s.key.clone();
                let b = c.get_hash();
                s.got.lock().unwrap().extend([(1, a), (1, b)]);
            }),
            body(|s: &S| {
                let c = s.key.clone();
                let b = c.get_hash();
                let a = s.key.get_hash();
                s.got.lock().unwrap().extend([(2, b), (2, a)]);
            }),
        ],
        check: Box::new(|s, _| {
            let got = s.got.lock().unwrap().clone();
            for (t, h) in &got {
                if *h != s.expect {
                    return fail("get-hash-unstable-under-race", format!("thread {} got hash {:#x}, the key's hash is {:#x}", t, h, s.expect));
                }
            }
            if s.key.get_hash() != s.expect {
                return fail("get-hash-unstable-under-race", "hash after the race differs".into());
            }
            Verdict::Ok(format!("{} reads ok", got.len()))
        }),
        termination_promised: true,
    };
    vsched::explore(&scn, &Cfg { max_bound: pb, horizon: 5000 }, ctx, res);
}

fn parts(ctx: &Ctx) -> Vec<PartSpec> {
    let mut v = vec![
        PartSpec::new("e3-paths", json!({"e3": "paths"})),
        PartSpec::new("e3-pairs", json!({"e3": "pairs"})).budget(if ctx.quick() { 150.0 } else { 1500.0 }),
        PartSpec::new("e3-triples-a", json!({"e3": "triples:a"})).budget(if ctx.quick() { 150.0 } else { 1500.0 }),
        PartSpec::new("e3-triples-empty", json!({"e3": "triples:"})).budget(if ctx.quick() { 150.0 } else { 1500.0 }),
    ];
    v.push(PartSpec::new("e1-get-hash", json!({"e1": if ctx.quick() { 3 } else { 5 }})).budget(if ctx.quick() { 120.0 } else { 1200.0 }));
    v
}

fn run(ctx: &Ctx, spec: &PartSpec) -> PartResult {
    let mut res = PartResult::new(&spec.name, "");
    if let Some(pb) = spec.arg["e1"].as_u64() {
        e1(ctx, &mut res, pb as usize);
    } else {
        e3(ctx, &mut res, spec.arg["e3"].as_str().unwrap_or("pairs"));
    }
    res
}

fn main() {
    driver::main(CheckDef {
        prop: "C03",
        level: "model_checking",
        rule: "universe = names {\"\",a,é} x all label lists of length 0-3 (thorough 0-4) over {k,l}x{\"\",x(,y)} plus structured lists of length 5,7,8,9 (distinct names, rotation, reversal, repeated name, repeated label); every abstract key built through every public construction path (from_parts with owned/static/Arc parts and slices, from_static_parts, from_static_labels, from_name, From impls, with_extra_labels at every split, clones before/after hashing, the macros); all ordered pairs of (2 representatives per key) checked for eq<->cmp, symmetry, antisymmetry, hash-stream and get_hash agreement, label-permutation invariance; all triples per name for transitivity; E1: all SC interleavings of racing first get_hash() calls; distinct = distinct (eq, cmp, hash-agreement) relation cells / outcomes",
        assumptions: &["the meaning of repeated label names is left open by the property: the oracle is relational only", "E1 is sequentially consistent (a Release->Relaxed weakening in get_hash is invisible to it)"],
        parts,
        run,
    });
}
