//! C09 — DogStatsD payloads are valid, within the size limit, and account for every point (E3).
use metrics::{Key, Label};
use metrics_exporter_dogstatsd::verif_driver::Writer;
use vcore::driver::{self, CheckDef, Ctx, PartResult, PartSpec};
use vcore::json;
use vcore::statsd;
use vcore::vseq;

#[derive(Clone, Debug)]
enum Op {
    Counter(usize, u64, Option<u64>),
    Gauge(usize, f64, Option<u64>),
    Hist(usize, Vec<f64>, Option<f64>, bool), // key, values, rate, as distribution
    Drain,
}

fn keys() -> Vec<Key> {
    vec![
        Key::from_name("a"),
        Key::from_parts("abcdefghijkl", vec![Label::new("k", "v")]),
        Key::from_parts("ab", vec![Label::new("k", "v"), Label::new("e", "")]),
        Key::from_name(""),
        Key::from_parts("abcd", Vec::<Label>::new()),
        Key::from_parts("bt", vec![Label::new("e", ""), Label::new("f", ""), Label::new("k", "v")]),
        // a name far longer than any payload limit (and than whatever a writer might like to keep allocated): always
        // rejected, but its bytes pass through the writer's buffer
        Key::from_name("n".repeat(20_000)),
    ]
}

fn alphabet() -> Vec<Op> {
    vec![
        Op::Counter(0, 7, None),
        Op::Counter(4, 7, None),
        Op::Counter(1, u64::MAX, Some(1)),
        Op::Gauge(2, 1.5, None),
        Op::Gauge(0, -0.0, Some(1700000000)),
        Op::Gauge(3, f64::NAN, None),
        Op::Gauge(0, f64::MAX, None),
        Op::Gauge(4, f64::NEG_INFINITY, None),
        Op::Hist(0, vec![], None, false),
        Op::Hist(0, vec![1.0], None, false),
        Op::Hist(0, vec![3.0], Some(0.25), false), // the same key again with another sample rate
        Op::Hist(2, vec![1.0, 2.5, 3.0], Some(0.5), true),
        Op::Hist(0, (0..40).map(|i| i as f64).collect(), None, true),
        Op::Hist(3, vec![1.0, 1e300], None, false),
        Op::Hist(4, vec![f64::NAN, f64::INFINITY, f64::NEG_INFINITY, -0.0, f64::MAX, f64::MIN_POSITIVE], None, true),
        Op::Counter(5, 1, None),
        Op::Hist(5, vec![2.0, 4.0], None, true),
        Op::Counter(6, 1, None),
        Op::Drain,
    ]
}

#[derive(Clone, Debug)]
struct Config {
    max_len: usize,
    length_prefix: bool,
    prefix: Option<&'static str>,
    global: Vec<Label>,
}

thread_local! {
    /// what the bystander writer emits when used alone, per number of writes
    static BYSTANDER: std::cell::RefCell<std::collections::BTreeMap<usize, Vec<Vec<u8>>>> = std::cell::RefCell::new(std::collections::BTreeMap::new());
}

struct Pending {
    op: Op,
    written: u64,
    dropped: u64,
}

fn fmt_val_ok(s: &str, v: f64) -> bool {
    // a non-finite value must be spelled as one (NaN / inf / -inf ...): a digit string that merely overflows to infinity
    // when parsed back (e.g. 1.797693134862316e308) is a different, finite-looking number on the wire
    if !v.is_finite() && s.chars().any(|c| c.is_ascii_digit()) {
        return false;
    }
    match s.parse::<f64>() {
        Ok(p) => (p.is_nan() && v.is_nan()) || p.to_bits() == v.to_bits(),
        Err(_) => false,
    }
}

/// Checks the payloads of one drain against the write operations since the previous drain.
fn check_drain(cfg: &Config, pend: &[Pending], payloads: &[Vec<u8>], ks: &[Key]) -> Result<(), (String, String)> {
    let total: u64 = pend.iter().map(|p| p.written).sum();
    if total != payloads.len() as u64 {
        return Err(("payloads-written-count-mismatch".into(), format!("writes reported {} payloads, the drain yielded {}", total, payloads.len())));
    }
    let mut idx = 0usize;
    for p in pend {
        let mine = &payloads[idx..idx + p.written as usize];
        idx += p.written as usize;
        let (ki, ty, given, rate, ts): (usize, char, Vec<f64>, Option<f64>, Option<u64>) = match &p.op {
            Op::Counter(k, v, ts) => (*k, 'c', vec![*v as f64], None, *ts),
            Op::Gauge(k, v, ts) => (*k, 'g', vec![*v], None, *ts),
            Op::Hist(k, vs, r, d) => (*k, if *d { 'd' } else { 'h' }, vs.clone(), *r, None),
            Op::Drain => continue,
        };
        let key = &ks[ki];
        let want_name = match cfg.prefix {
            Some(p) => format!("{}.{}", p, key.name()),
            None => key.name().to_string(),
        };
        let want_tags: Vec<String> = cfg.global.iter().chain(key.labels()).map(|l| if l.value().is_empty() { l.key().to_string() } else { format!("{}:{}", l.key(), l.value()) }).collect();
        let mut got_vals: Vec<String> = Vec::new();
        for raw in mine {
            let body: &[u8] = if cfg.length_prefix {
                if raw.len() < 4 {
                    return Err(("length-prefix-wrong".into(), format!("payload {:?} shorter than its length prefix", raw)));
                }
                let n = u32::from_le_bytes([raw[0], raw[1], raw[2], raw[3]]) as usize;
                if n != raw.len() - 4 {
                    return Err(("length-prefix-wrong".into(), format!("length prefix says {} but {} bytes follow: {:?}", n, raw.len() - 4, String::from_utf8_lossy(&raw[4..]))));
                }
                &raw[4..]
            } else {
                &raw[..]
            };
            if body.len() > cfg.max_len {
                return Err(("payload-exceeds-maximum-length".into(), format!("payload of {} bytes with max_payload_len {}: {:?}", body.len(), cfg.max_len, String::from_utf8_lossy(body))));
            }
            let m = statsd::parse_message(body).map_err(|e| ("malformed-payload".to_string(), format!("{} in {:?}", e, String::from_utf8_lossy(body))))?;
            if m.name != want_name {
                return Err(("payload-name-wrong".into(), format!("name {:?} expected {:?} in {:?}", m.name, want_name, String::from_utf8_lossy(body))));
            }
            if m.ty != ty {
                return Err(("payload-type-wrong".into(), format!("type {:?} expected {:?}", m.ty, ty)));
            }
            if m.tags != want_tags {
                return Err(("payload-tags-wrong".into(), format!("tags {:?} expected {:?}", m.tags, want_tags)));
            }
            if m.ts != ts {
                return Err(("payload-timestamp-wrong".into(), format!("timestamp {:?} expected {:?}", m.ts, ts)));
            }
            match (&m.rate, rate) {
                (None, None) => {}
                (Some(r), Some(w)) if fmt_val_ok(r, w) => {}
                _ => return Err(("payload-sample-rate-wrong".into(), format!("rate {:?} expected {:?}", m.rate, rate))),
            }
            got_vals.extend(m.values.iter().cloned());
        }
        // accounting: values given = values emitted (in order, a subsequence) + reported dropped
        if got_vals.len() as u64 + p.dropped != given.len() as u64 {
            return Err(("points-not-accounted-for".into(), format!("{:?}: {} points given, {} emitted in {} payload(s) + {} reported dropped", p.op, given.len(), got_vals.len(), mine.len(), p.dropped)));
        }
        let mut gi = 0usize;
        for s in &got_vals {
            let ok = if ty == 'c' {
                match &p.op {
                    Op::Counter(_, v, _) => s.parse::<u64>().ok() == Some(*v),
                    _ => false,
                }
            } else {
                let mut found = false;
                while gi < given.len() {
                    gi += 1;
                    if fmt_val_ok(s, given[gi - 1]) {
                        found = true;
                        break;
                    }
                }
                found
            };
            if !ok {
                return Err(("payload-values-wrong".into(), format!("{:?}: emitted values {:?} are not the given values in order at round-trip precision", p.op, got_vals)));
            }
        }
    }
    Ok(())
}

fn run_config(cfg: &Config, depth: usize, alpha: &[Op], ks: &[Key], res: &mut PartResult, states: &mut vseq::States, only: Option<&[usize]>) {
    let mut fails: Vec<(String, String, Vec<usize>)> = Vec::new();
    let mut transitions = 0u64;
    let mut run_seq = |seq: &[usize]| -> Option<usize> {
        let mut w = match vseq::catch(|| Writer::new(cfg.max_len, cfg.length_prefix)) {
            Ok(w) => w,
            Err(e) => {
                fails.push(("writer-panic".into(), format!("PayloadWriter::new panicked: {}", e), vec![]));
                return Some(0);
            }
        };
        let mut pend: Vec<Pending> = Vec::new();
        let n = seq.len();
        // A second, unrelated writer used in between (another exporter in the same process): one fixed gauge before
        // every operation on the writer under test. What it emits must not depend on the other writer at all, so it is
        // compared with the same writes made on a writer used alone (differential oracle, no hand-written expectation).
        let mut by = Writer::new(64, true);
        let by_key = Key::from_parts("by", vec![Label::new("w", "2")]);
        let by_global = vec![Label::new("z", "9")];
        for i in 0..=n {
            let _ = by.gauge(&by_key, 1.5, None, Some("q"), &by_global);
            // after the last op an implicit final drain checks whatever is pending
            let op = if i < n { alpha[seq[i]].clone() } else { Op::Drain };
            transitions += 1;
            let step = vseq::catch(|| match &op {
                Op::Counter(k, v, ts) => Some(w.counter(&ks[*k], *v, *ts, cfg.prefix, &cfg.global)),
                Op::Gauge(k, v, ts) => Some(w.gauge(&ks[*k], *v, *ts, cfg.prefix, &cfg.global)),
                Op::Hist(k, vs, r, d) => Some(w.histogram(&ks[*k], vs.clone(), *r, cfg.prefix, &cfg.global, *d)),
                Op::Drain => None,
            });
            let cut = i.min(n.saturating_sub(1));
            match step {
                Err(e) => {
                    fails.push(("writer-panic".into(), format!("{:?} panicked: {} (config {:?}, after {:?})", op, e, cfg, seq[..i.min(n)].iter().map(|x| format!("{:?}", alpha[*x])).collect::<Vec<_>>()), seq[..(i + 1).min(n)].to_vec()));
                    return Some(cut);
                }
                Ok(Some((written, dropped))) => pend.push(Pending { op, written, dropped }),
                Ok(None) => {
                    let payloads = match vseq::catch(|| w.drain()) {
                        Ok(p) => p,
                        Err(e) => {
                            fails.push(("writer-panic".into(), format!("drain panicked: {}", e), seq[..(i + 1).min(n)].to_vec()));
                            return Some(cut);
                        }
                    };
                    states.add(&(cfg.max_len.min(70), cfg.length_prefix, payloads.len(), pend.iter().map(|p| (p.written, p.dropped)).collect::<Vec<_>>()));
                    if let Err((sig, msg)) = check_drain(cfg, &pend, &payloads, ks) {
                        fails.push((sig, format!("{} (config {:?}, ops {:?})", msg, cfg, seq[..i.min(n)].iter().map(|x| format!("{:?}", alpha[*x])).collect::<Vec<_>>()), seq[..(i + 1).min(n)].to_vec()));
                        return Some(cut);
                    }
                    pend.clear();
                }
            }
        }
        let got = by.drain();
        let want = BYSTANDER.with(|b| {
            let mut b = b.borrow_mut();
            b.entry(n + 1).or_insert_with(|| {
                let mut alone = Writer::new(64, true);
                for _ in 0..=n {
                    let _ = alone.gauge(&by_key, 1.5, None, Some("q"), &by_global);
                }
                alone.drain()
            }).clone()
        });
        if got != want {
            fails.push(("second-writer-disturbed".into(), format!("a second writer used in between emitted {:?}; used alone it emits {:?} (config {:?}, ops {:?})", got.iter().map(|p| String::from_utf8_lossy(p).to_string()).collect::<Vec<_>>(), want.iter().map(|p| String::from_utf8_lossy(p).to_string()).collect::<Vec<_>>(), cfg, seq.iter().map(|x| format!("{:?}", alpha[*x])).collect::<Vec<_>>()), seq.to_vec()));
            return Some(n.saturating_sub(1));
        }
        None
    };
    if let Some(seq) = only {
        run_seq(seq);
        res.executions += 1;
    } else {
        let (n, _) = vseq::for_each_seq(alpha.len(), depth, &mut run_seq, &|| false);
        res.executions += n;
    }
    res.transitions += transitions;
    for (sig, msg, seq) in fails {
        res.violation(&sig, msg, json!({"seq": seq, "max_len": cfg.max_len, "length_prefix": cfg.length_prefix, "prefix": cfg.prefix, "global": cfg.global.len()}));
    }
}

fn lens(thorough: bool) -> Vec<usize> {
    let mut v: Vec<usize> = (0..=72).collect();
    if thorough {
        v.extend(73..=260);
    } else {
        v.extend([80, 96, 128, 200, 230, 231, 232, 233, 234, 235, 236, 240, 260]);
    }
    v.push(8192);
    v
}

fn e3(ctx: &Ctx, res: &mut PartResult, length_prefix: bool, prefix: Option<&'static str>, global: bool, depth: usize) {
    res.engine = "E3 configuration sweep x write/drain sequences on the real PayloadWriter".into();
    vseq::quiet_panics();
    let alpha = alphabet();
    let ks = keys();
    let mut states = vseq::States::new();
    // "global" = a bare (empty-valued) global label followed by a valued one
    let gl = if global { vec![Label::new("bare", ""), Label::new("g", "1")] } else { vec![] };
    if let Some(rp) = &ctx.replay {
        let cfg = Config { max_len: rp["max_len"].as_u64().unwrap() as usize, length_prefix, prefix, global: gl };
        let seq: Vec<usize> = rp["seq"].as_array().unwrap().iter().map(|x| x.as_u64().unwrap() as usize).collect();
        run_config(&cfg, depth, &alpha, &ks, res, &mut states, Some(&seq));
        return;
    }
    for max_len in lens(!ctx.quick()) {
        if ctx.over_budget() {
            res.cap_hit = Some("budget (cpu time of the part)".into());
            res.exhaustive = false;
            break;
        }
        let cfg = Config { max_len, length_prefix, prefix, global: gl.clone() };
        run_config(&cfg, depth, &alpha, &ks, res, &mut states, None);
    }
    res.states = states.len();
    res.distinct_outcomes = states.len();
    res.bound = json!({"depth": depth, "alphabet": alpha.len(), "max_payload_lens": lens(!ctx.quick()).len(), "length_prefix": length_prefix, "prefix": prefix, "global_labels": global});
    res.sample(json!({"config": {"max_len": 24, "length_prefix": length_prefix, "prefix": prefix}, "ops": format!("{:?}", [&alpha[0], &alpha[10], &alpha[15], &alpha[13]])}));
}

/// The same serialisation reached the way an exporter reaches it: through `State::flush` (which decides which prefix and
/// labels a metric gets) into the writer. Every (prefix, name) pair over prefixes {none, "", a, ab, abc, b.} and names
/// that begin with, equal, contain or have nothing to do with the prefix text, for the three kinds: the name on the wire
/// is `<prefix>.<name>` (the plain name without a prefix), tags are the global label followed by the key's own.
fn flush_prefix_part(res: &mut PartResult) {
    use metrics::Recorder;
    use metrics_exporter_dogstatsd::verif_driver::Driver;
    static META: metrics::Metadata<'static> = metrics::Metadata::new("t", metrics::Level::INFO, None);
    res.engine = "E3 prefix x name x kind through State::flush + PayloadWriter".into();
    let mut states = vseq::States::new();
    let prefixes: [Option<&str>; 6] = [None, Some(""), Some("a"), Some("ab"), Some("abc"), Some("b.")];
    let names = ["", "a", "ab", "abc", "abcd", "a.b", "ab.c", "b", "b.", "b.x", "xab", "z"];
    for prefix in prefixes {
        for global in [false, true] {
            for name in names {
                for kind in 0..3 {
                    res.executions += 1;
                    res.transitions += 2;
                    let gl = if global { vec![Label::new("g", "1")] } else { vec![] };
                    let (mut drv, rec) = Driver::new(false, false, 16, true, gl, prefix.map(|p| p.to_string()), 8192, false);
                    let key = Key::from_parts(name.to_string(), vec![Label::new("k", "v")]);
                    match kind {
                        0 => rec.register_counter(&key, &META).increment(3),
                        1 => rec.register_gauge(&key, &META).set(1.5),
                        _ => rec.register_histogram(&key, &META).record(2.5),
                    }
                    let payloads = drv.flush_once();
                    let want_name = match prefix {
                        Some(p) => format!("{}.{}", p, name),
                        None => name.to_string(),
                    };
                    let want_tags: Vec<String> = if global { vec!["g:1".into(), "k:v".into()] } else { vec!["k:v".into()] };
                    let msgs: Vec<statsd::Msg> = payloads.iter().filter_map(|p| statsd::parse_message(p).ok()).collect();
                    states.add(&(prefix.is_some(), msgs.len()));
                    let cfg = json!({"flush_prefix": [format!("{:?}", prefix), name, kind]});
                    let ok = msgs.len() == 1 && payloads.len() == 1 && msgs[0].name == want_name && msgs[0].tags == want_tags && msgs[0].ty == ['c', 'g', 'd'][kind];
                    if !ok {
                        res.violation("payload-name-wrong", format!("prefix {:?}, global labels {}, {} named {:?}: the flush emitted {:?}, expected one message named {:?} with tags {:?}", prefix, global, ["counter", "gauge", "histogram"][kind], name, payloads.iter().map(|p| String::from_utf8_lossy(p).to_string()).collect::<Vec<_>>(), want_name, want_tags), cfg);
                    }
                }
            }
        }
    }
    res.states = states.len();
    res.distinct_outcomes = states.len();
    res.sample(json!({"prefix": "ab", "name": "abc", "expected_on_the_wire": "ab.abc"}));
}

/// The limit as the user configures it: exporters built through the public builder with
/// `with_maximum_payload_length(n)` for n from 0 upward, given before or after the address, sending to a unix datagram
/// socket. No datagram is longer than n (for n = 0 and every n below the shortest message: nothing is sent at all), every
/// datagram is a sequence of whole messages, and once n is comfortably large the metrics arrive.
fn builder_limit_part(ctx: &Ctx, res: &mut PartResult) {
    use metrics::Recorder;
    static META: metrics::Metadata<'static> = metrics::Metadata::new("t", metrics::Level::INFO, None);
    res.engine = "E4 exporters built through the public builder x payload limits, datagrams read from the agent's socket".into();
    let mut states = vseq::States::new();
    let dir = ctx.run_dir();
    let limits: [usize; 9] = [0, 1, 10, 25, 26, 27, 64, 200, 8192];
    for (li, limit) in limits.iter().enumerate() {
        let limit = *limit;
        let got = vcore::dsd::run_exporter(
            &dir,
            &format!("c09-limit-{}", li),
            |b| b.with_maximum_payload_length(limit).map_err(|e| format!("with_maximum_payload_length({}): {}", limit, e)),
            |rec| {
                rec.register_counter(&Key::from_parts("requests", vec![Label::new("route", "index")]), &META).increment(3);
                rec.register_gauge(&Key::from_name("g"), &META).set(1.5);
                let h = rec.register_histogram(&Key::from_name("h"), &META);
                h.record(1.0);
                h.record(2.0);
            },
            std::time::Duration::from_millis(if limit < 64 { 350 } else { 3000 }),
            |got| limit >= 64 && got.iter().any(|d| d.starts_with(b"requests:3|c")),
        );
        res.executions += 1;
        res.transitions += 4;
        let cfg = json!({"builder_limit": limit});
        let got = match got {
            Ok(g) => g,
            Err(e) if e.starts_with("machinery") => {
                res.error = Some(e);
                return;
            }
            Err(e) => {
                res.violation("documented-limit-rejected", format!("limit {}: {}", limit, e), cfg);
                continue;
            }
        };
        states.add(&(limit, got.is_empty()));
        if let Some(d) = got.iter().find(|d| d.len() > limit) {
            res.violation("payload-exceeds-limit", format!("the exporter was built with with_maximum_payload_length({}), yet the agent socket received a datagram of {} bytes: {:?}", limit, d.len(), String::from_utf8_lossy(d)), cfg.clone());
            continue;
        }
        for d in &got {
            for line in d.split_inclusive(|b| *b == b'\n') {
                if let Err(e) = statsd::parse_message(line) {
                    res.violation("payload-not-a-message", format!("limit {}: datagram {:?}: {}", limit, String::from_utf8_lossy(d), e), cfg.clone());
                }
            }
        }
        if limit >= 64 && !got.iter().any(|d| d.starts_with(b"requests:3|c|#route:index\n") || d.windows(26).any(|w| w == b"requests:3|c|#route:index\n")) {
            res.violation("point-lost-without-being-reported", format!("limit {}: the counter message (26 bytes) never arrived; received {:?}", limit, got.iter().map(|d| String::from_utf8_lossy(d).to_string()).collect::<Vec<_>>()), cfg.clone());
        }
    }
    res.states = states.len();
    res.distinct_outcomes = states.len();
    res.sample(json!({"limit": 0, "expected": "no datagram at all"}));
}

/// The default limit belongs to the transport the exporter finally uses: builders that are given a unix address first and
/// a UDP address afterwards (defaults overridden from configuration), with no explicit limit, send UDP datagrams of at
/// most 1432 bytes, exactly like a builder that was given the UDP address alone; and every recorded value arrives.
fn builder_address_order_part(res: &mut PartResult) {
    use metrics::Recorder;
    static META: metrics::Metadata<'static> = metrics::Metadata::new("t", metrics::Level::INFO, None);
    res.engine = "E4 exporters built through the public builder x order of address options, datagrams read from a UDP socket".into();
    let mut states = vseq::States::new();
    const N: usize = 1500;
    for (oi, order) in [vec!["udp"], vec!["unix", "udp"], vec!["unixgram", "udp"], vec!["udp", "unix", "udp"]].iter().enumerate() {
        for sampling in [false, true] {
            let got = vcore::dsd::run_exporter_udp(
                |mut b, udp| {
                    for o in order {
                        let a = match *o {
                            "udp" => udp.to_string(),
                            "unix" => "unix:///tmp/c09-never-used.sock".to_string(),
                            _ => "unixgram:///tmp/c09-never-used.sock".to_string(),
                        };
                        b = b.with_remote_address(a).map_err(|e| format!("with_remote_address: {}", e))?;
                    }
                    Ok(b.with_histogram_sampling(sampling).send_histograms_as_distributions(true))
                },
                |rec| {
                    let h = rec.register_histogram(&Key::from_name("h"), &META);
                    for i in 0..N {
                        // 24 characters each when rendered
                        h.record(-1.2345678901234567e-100 - i as f64 * 1e-110);
                    }
                },
                std::time::Duration::from_millis(2500),
                |got| got.iter().map(|d| d.split(|b| *b == b':').count().saturating_sub(1)).sum::<usize>() >= if sampling { 1024 } else { N },
            );
            res.executions += 1;
            res.transitions += N as u64;
            let cfg = json!({"address_order": order, "sampling": sampling});
            let got = match got {
                Ok(g) => g,
                Err(e) if e.starts_with("machinery") => {
                    res.error = Some(e);
                    return;
                }
                Err(e) => {
                    res.violation("documented-limit-rejected", format!("addresses {:?}: {}", order, e), cfg);
                    continue;
                }
            };
            let longest = got.iter().map(|d| d.len()).max().unwrap_or(0);
            states.add(&(oi, sampling, longest > 1432));
            if longest > 1432 {
                res.violation("payload-exceeds-limit", format!("builder given the addresses {:?} in this order and no explicit limit (histogram sampling {}): the exporter sends over UDP, whose default limit is 1432 bytes, yet a datagram of {} bytes arrived", order, sampling, longest), cfg.clone());
            }
            let values: usize = got.iter().flat_map(|d| d.split_inclusive(|b| *b == b'\n')).filter_map(|l| statsd::parse_message(l).ok()).filter(|m| m.name == "h").map(|m| m.values.len()).sum();
            let want = if sampling { 1024 } else { N };
            if values != want {
                res.violation("point-lost-without-being-reported", format!("addresses {:?}, sampling {}: {} of {} histogram values arrived", order, sampling, values, want), cfg.clone());
            }
        }
    }
    res.states = states.len();
    res.distinct_outcomes = states.len();
    res.sample(json!({"addresses": ["unix://…", "127.0.0.1:<port>"], "expected": "UDP datagrams of at most 1432 bytes"}));
}

fn parts(ctx: &Ctx) -> Vec<PartSpec> {
    let mut v = vec![PartSpec::new("e3-state-flush-prefix-x-name", json!({"flush_prefix": true})), PartSpec::new("e4-builder-payload-limits", json!({"builder_limit": true})).budget(120.0), PartSpec::new("e4-builder-address-order", json!({"builder_order": true})).budget(120.0)];
    let depth = if ctx.quick() { 3 } else { 4 };
    for lp in [false, true] {
        for (pi, _) in [None, Some("p"), Some("pre")].iter().enumerate() {
            for gl in [false, true] {
                if ctx.quick() && pi == 1 {
                    continue;
                }
                v.push(PartSpec::new(&format!("e3-lp{}-prefix{}-global{}", lp as u8, pi, gl as u8), json!({"lp": lp, "prefix": pi, "global": gl, "depth": depth})).budget(if ctx.quick() { 150.0 } else { 2400.0 }));
            }
        }
    }
    v
}

fn run(ctx: &Ctx, spec: &PartSpec) -> PartResult {
    let mut res = PartResult::new(&spec.name, "");
    if spec.arg["builder_order"].as_bool() == Some(true) {
        builder_address_order_part(&mut res);
        return res;
    }
    if spec.arg["builder_limit"].as_bool() == Some(true) {
        builder_limit_part(ctx, &mut res);
        return res;
    }
    if spec.arg["flush_prefix"].as_bool() == Some(true) {
        flush_prefix_part(&mut res);
        return res;
    }
    let prefix = [None, Some("p"), Some("pre")][spec.arg["prefix"].as_u64().unwrap_or(0) as usize];
    e3(ctx, &mut res, spec.arg["lp"].as_bool().unwrap_or(false), prefix, spec.arg["global"].as_bool().unwrap_or(false), spec.arg["depth"].as_u64().unwrap_or(3) as usize);
    res
}

fn main() {
    driver::main(CheckDef {
        prop: "C09",
        level: "model_checking",
        rule: "for every max_payload_len in {0..72 (thorough 0..260), boundary values around the longest payload, 8192} x length prefix {off,on} x prefix {None,p,pre} x global labels {[],[g:1]}: every sequence of the stated depth over 19 operations (counter/gauge with extreme values and optional timestamp, histogram/distribution with 0,1,2,3,40 values incl. NaN / +-inf / -0 / MAX / MIN_POSITIVE and optional sample rate, the same key with two different sample rates, names of length 0..12 and one of 20000 bytes, labels with empty value, drain) on one real PayloadWriter, plus a final drain, with a second, unrelated writer used before every operation (what it emits must equal what it emits when used alone); every drained payload is parsed by an independent DogStatsD parser and matched against the writes since the previous drain (name, type, tags, values in order at round-trip precision, length prefix, size limit, written/dropped accounting); plus, through State::flush (which chooses the prefix and labels a metric gets), every (prefix, name) pair over 6 prefixes incl. the empty one and 12 names that begin with / equal / contain the prefix text, for the three kinds; distinct = distinct (config class, drain shape) states; plus exporters built through the public builder with with_maximum_payload_length(n), n in {0, 1, 10, 25, 26, 27, 64, 200, 8192}, sending to a unix datagram socket: no datagram longer than n, whole messages only, the metrics arrive once n allows; and builders given a unix address before the UDP address they finally use, without an explicit limit: UDP datagrams of at most 1432 bytes, all values arrive",
        assumptions: &["strings in names/tags are benign (no ':' '|' ',' or newline): the DogStatsD protocol has no escaping and the property does not ask for any"],
        parts,
        run,
    });
}
