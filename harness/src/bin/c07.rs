//! C07 — Prometheus output reports exactly what was recorded, each sample once (E3 + E1).
use metrics::{Key, Label, Level, Metadata, Recorder, Unit};
use metrics_exporter_prometheus::{Matcher, PrometheusBuilder, PrometheusHandle, PrometheusRecorder};
use std::collections::{BTreeMap, BTreeSet};
use vcore::driver::{self, CheckDef, Ctx, PartResult, PartSpec};
use vcore::json;
use vcore::promtext::{self, Family};
use vcore::vseq::{self, fbits};
use vcore::vsched::{self, body, fail, Body, Cfg, Log, Scenario, Verdict};

static META: Metadata<'static> = Metadata::new("t", Level::INFO, None);
static L_BA: [Label; 2] = [Label::from_static_parts("b", "2"), Label::from_static_parts("a", "1")];

#[derive(Clone, Copy, Debug)]
enum Op {
    Inc(usize, u64),
    Abs(usize, u64),
    GSet(usize, f64),
    GInc(usize, f64),
    Rec(usize, f64),
    /// histogram.record_many(v, n) through the handle
    RecN(usize, f64, usize),
    Describe(usize, &'static str, Option<Unit>),
    Render,
    Upkeep,
}

/// key universe: 0 = c_one{a=1,b=2}, 1 = the same key built statically with permuted labels, 2 = c_two,
/// 3 = g_one{a=1}, 4 = g_two, 5 = h_one{a=1,b=2}, 6 = alias of 5, 7 = h_two
fn mk_key(i: usize) -> Key {
    match i {
        0 => Key::from_parts("c_one", vec![Label::new("a", "1"), Label::new("b", "2")]),
        1 => Key::from_static_parts("c_one", &L_BA),
        2 => Key::from_name("c_two"),
        3 => Key::from_parts("g_one", vec![Label::new("a", "1"), Label::new("d-c", "K")]),
        4 => Key::from_name("g_two"),
        5 => Key::from_parts("h_one", vec![Label::new("a", "1"), Label::new("b", "2")]),
        6 => Key::from_static_parts("h_one", &L_BA),
        _ => Key::from_name("h_two"),
    }
}
fn series(i: usize, global: &[(&str, &str)]) -> (String, Vec<(String, String)>) {
    let k = mk_key(i);
    // override happens on the label names as written; the exposition shows them sanitised ([a-zA-Z_][a-zA-Z0-9_]*)
    let mut m: BTreeMap<String, String> = global.iter().map(|(a, b)| (a.to_string(), b.to_string())).collect();
    for l in k.labels() {
        m.insert(l.key().to_string(), l.value().to_string());
    }
    let san = |n: &str| -> String { n.chars().enumerate().map(|(i, c)| if c.is_ascii_alphabetic() || c == '_' || (i > 0 && c.is_ascii_digit()) { c } else { '_' }).collect() };
    let mut v: Vec<(String, String)> = m.into_iter().map(|(k, v)| (san(&k), v)).collect();
    v.sort();
    (k.name().to_string(), v)
}

fn alphabet() -> Vec<Op> {
    vec![
        Op::Inc(0, 2),
        Op::Inc(1, 3),
        Op::Abs(2, 5),
        Op::Abs(2, 3),
        Op::Inc(2, u64::MAX - 1),
        Op::Inc(2, 1),
        Op::GSet(3, 1.5),
        Op::GInc(3, 0.25),
        Op::GSet(4, f64::NAN),
        Op::GSet(4, -0.0),
        Op::GSet(4, 1e300),
        Op::Rec(5, 0.5),
        Op::Rec(6, 4.0),
        Op::Rec(7, 2.0),
        Op::Rec(7, f64::INFINITY),
        Op::Rec(5, f64::NAN),
        Op::RecN(7, 1.5, 3),
        Op::RecN(5, 2.5, 0),
        Op::Describe(0, "first", None),
        Op::Describe(0, "second", Some(Unit::Bytes)),
        Op::Describe(5, "hist", Some(Unit::Seconds)),
        Op::Describe(5, "later", None),
        Op::Render,
        Op::Upkeep,
    ]
}

#[derive(Clone, Copy, Debug, PartialEq)]
enum Config {
    Default,
    GlobalBuckets,
    OverrideH1,
    GlobalLabels,
    Quantiles,
    UnitSuffix,
}
const CONFIGS: [Config; 6] = [Config::Default, Config::GlobalBuckets, Config::OverrideH1, Config::GlobalLabels, Config::Quantiles, Config::UnitSuffix];

fn build(cfg: Config) -> (PrometheusRecorder, Vec<(&'static str, &'static str)>) {
    let b = PrometheusBuilder::new();
    match cfg {
        Config::Default => (b.build_recorder(), vec![]),
        Config::GlobalBuckets => (b.set_buckets(&[1.0, 4.0]).unwrap().build_recorder(), vec![]),
        Config::OverrideH1 => (b.set_buckets_for_metric(Matcher::Full("h_one".into()), &[0.5, 2.0]).unwrap().build_recorder(), vec![]),
        Config::GlobalLabels => (b.add_global_label("env", "prod").add_global_label("a", "G").add_global_label("d-c", "G2").build_recorder(), vec![("env", "prod"), ("a", "G"), ("d-c", "G2")]),
        Config::Quantiles => (b.set_quantiles(&[0.5]).unwrap().build_recorder(), vec![]),
        Config::UnitSuffix => (b.set_enable_unit_suffix(true).build_recorder(), vec![]),
    }
}

#[derive(Default)]
struct Model {
    counters: BTreeMap<(String, Vec<(String, String)>), u64>,
    gauges: BTreeMap<(String, Vec<(String, String)>), f64>,
    hists: BTreeMap<(String, Vec<(String, String)>), Vec<f64>>,
    help: BTreeMap<String, String>,
    unit: BTreeMap<String, Option<Unit>>,
}
impl Model {
    /// the family name a metric name is rendered under: with unit suffixes enabled, the unit of the first description
    fn fam(&self, name: &str, cfg: Config) -> String {
        match (cfg, self.unit.get(name)) {
            (Config::UnitSuffix, Some(Some(u))) => format!("{}_{}", name, u.as_str()),
            _ => name.to_string(),
        }
    }
    fn base<'a>(&'a self, fam: &'a str, cfg: Config) -> &'a str {
        self.unit.keys().find(|n| self.fam(n, cfg) == fam).map(|s| s.as_str()).unwrap_or(fam)
    }
}

fn apply_real(rec: &PrometheusRecorder, op: Op) {
    match op {
        Op::Inc(k, v) => rec.register_counter(&mk_key(k), &META).increment(v),
        Op::Abs(k, v) => rec.register_counter(&mk_key(k), &META).absolute(v),
        Op::GSet(k, v) => rec.register_gauge(&mk_key(k), &META).set(v),
        Op::GInc(k, v) => rec.register_gauge(&mk_key(k), &META).increment(v),
        Op::Rec(k, v) => rec.register_histogram(&mk_key(k), &META).record(v),
        Op::RecN(k, v, n) => rec.register_histogram(&mk_key(k), &META).record_many(v, n),
        Op::Describe(k, t, u) => {
            let n = mk_key(k).name().to_string();
            if n.starts_with('c') {
                rec.describe_counter(n.into(), u, t.into())
            } else {
                rec.describe_histogram(n.into(), u, t.into())
            }
        }
        Op::Render | Op::Upkeep => {}
    }
}
fn apply_model(m: &mut Model, op: Op, global: &[(&str, &str)]) {
    match op {
        Op::Inc(k, v) => {
            let e = m.counters.entry(series(k, global)).or_insert(0);
            *e = e.wrapping_add(v);
        }
        Op::Abs(k, v) => {
            let e = m.counters.entry(series(k, global)).or_insert(0);
            *e = (*e).max(v);
        }
        Op::GSet(k, v) => {
            m.gauges.insert(series(k, global), v);
        }
        Op::GInc(k, v) => {
            *m.gauges.entry(series(k, global)).or_insert(0.0) += v;
        }
        Op::Rec(k, v) => m.hists.entry(series(k, global)).or_default().push(v),
        Op::RecN(k, v, n) => {
            let h = m.hists.entry(series(k, global)).or_default();
            for _ in 0..n {
                h.push(v);
            }
        }
        Op::Describe(k, t, u) => {
            // the first description given for the name is the one that counts, text and unit alike
            m.help.entry(mk_key(k).name().to_string()).or_insert(t.to_string());
            m.unit.entry(mk_key(k).name().to_string()).or_insert(u);
        }
        Op::Render | Op::Upkeep => {}
    }
}

/// Compares one parsed rendering with the reference. Err((signature, message)).
fn compare(fams: &[Family], m: &Model, cfg: Config) -> Result<(), (String, String)> {
    let e = |sig: &str, msg: String| Err((sig.to_string(), msg));
    let dups = promtext::duplicate_series(fams);
    if !dups.is_empty() {
        return e("series-rendered-more-than-once", format!("{:?}", dups));
    }
    let mut want_fams: BTreeSet<String> = BTreeSet::new();
    want_fams.extend(m.counters.keys().map(|k| m.fam(&k.0, cfg)));
    want_fams.extend(m.gauges.keys().map(|k| m.fam(&k.0, cfg)));
    want_fams.extend(m.hists.keys().map(|k| m.fam(&k.0, cfg)));
    let got_fams: BTreeSet<String> = fams.iter().map(|f| f.name.clone()).collect();
    if want_fams != got_fams {
        return e("families-differ-from-registered-metrics", format!("rendered families {:?}, registered {:?}", got_fams, want_fams));
    }
    for f in fams {
        let base = m.base(&f.name, cfg).to_string();
        let want_help = m.help.get(&base);
        if f.help.as_ref() != want_help {
            return e("help-is-not-first-description", format!("family {}: HELP {:?}, first description given {:?}", f.name, f.help, want_help));
        }
        match f.ty.as_str() {
            "counter" => {
                let want: BTreeMap<Vec<(String, String)>, u64> = m.counters.iter().filter(|(k, _)| k.0 == base).map(|(k, v)| (k.1.clone(), *v)).collect();
                let got: BTreeMap<Vec<(String, String)>, String> = f.samples.iter().map(|s| (s.series_labels(), s.value.clone())).collect();
                if want.len() != got.len() {
                    return e("counter-series-set-wrong", format!("{}: series {:?}, expected {:?}", f.name, got.keys().collect::<Vec<_>>(), want.keys().collect::<Vec<_>>()));
                }
                for (l, v) in &want {
                    match got.get(l) {
                        Some(g) if g.parse::<u64>().ok() == Some(*v) => {}
                        other => return e("counter-value-wrong", format!("{}{:?}: rendered {:?}, recorded total {}", f.name, l, other, v)),
                    }
                }
            }
            "gauge" => {
                let want: BTreeMap<Vec<(String, String)>, f64> = m.gauges.iter().filter(|(k, _)| k.0 == base).map(|(k, v)| (k.1.clone(), *v)).collect();
                if want.len() != f.samples.len() {
                    return e("gauge-series-set-wrong", format!("{}: {} series, expected {}", f.name, f.samples.len(), want.len()));
                }
                for s in &f.samples {
                    match want.get(&s.series_labels()) {
                        Some(v) if fbits(s.value_f64()) == fbits(*v) => {}
                        other => return e("gauge-value-does-not-round-trip", format!("{}{:?}: rendered {:?}, last value {:?}", f.name, s.series_labels(), s.value, other)),
                    }
                }
            }
            ty @ ("summary" | "histogram") => {
                let want: BTreeMap<Vec<(String, String)>, Vec<f64>> = m.hists.iter().filter(|(k, _)| k.0 == base).map(|(k, v)| (k.1.clone(), v.clone())).collect();
                let want_ty = match (cfg, base.as_str()) {
                    (Config::GlobalBuckets, _) => "histogram",
                    (Config::OverrideH1, "h_one") => "histogram",
                    _ => "summary",
                };
                if ty != want_ty {
                    return e("histogram-family-type-wrong", format!("{} rendered as {}, expected {}", f.name, ty, want_ty));
                }
                let series_set: BTreeSet<Vec<(String, String)>> = f.samples.iter().map(|s| s.series_labels()).collect();
                if series_set != want.keys().cloned().collect() {
                    return e("histogram-series-set-wrong", format!("{}: series {:?}, expected {:?}", f.name, series_set, want.keys().collect::<Vec<_>>()));
                }
                for (l, vals) in &want {
                    let find = |n: &str| f.samples.iter().find(|s| s.name == format!("{}_{}", f.name, n) && s.series_labels() == *l);
                    let count = find("count").map(|s| s.value.clone());
                    let sum = find("sum").map(|s| s.value_f64());
                    if count.as_deref().and_then(|c| c.parse::<u64>().ok()) != Some(vals.len() as u64) {
                        return e("histogram-count-wrong", format!("{}{:?}: _count {:?}, {} samples were recorded", f.name, l, count, vals.len()));
                    }
                    let s: f64 = vals.iter().sum();
                    if sum != Some(s) && !(s.is_nan() && sum.map(|x| x.is_nan()) == Some(true)) {
                        return e("histogram-sum-wrong", format!("{}{:?}: _sum {:?}, samples sum to {}", f.name, l, sum, s));
                    }
                    if ty == "histogram" {
                        let mut inf_seen = false;
                        for b in f.samples.iter().filter(|s| s.name.ends_with("_bucket") && s.series_labels() == *l) {
                            let le = promtext::parse_value(b.label("le").unwrap_or("x")).unwrap_or(f64::NAN);
                            // the +Inf bucket is every sample ever recorded (NaN included), like _count
                            let n = if le == f64::INFINITY { vals.len() as u64 } else { vals.iter().filter(|v| **v <= le).count() as u64 };
                            if b.value.parse::<u64>().ok() != Some(n) {
                                return e("histogram-bucket-count-wrong", format!("{}{:?} le={}: {} but {} samples are <= le", f.name, l, le, b.value, n));
                            }
                            inf_seen |= le == f64::INFINITY;
                        }
                        if !inf_seen {
                            return e("histogram-bucket-count-wrong", format!("{}{:?}: no +Inf bucket", f.name, l));
                        }
                    }
                }
            }
            other => return e("family-type-wrong", format!("{} has type {}", f.name, other)),
        }
    }
    Ok(())
}

fn stable_lines(text: &str) -> BTreeSet<String> {
    text.lines().filter(|l| !l.contains("quantile=\"")).map(|l| l.to_string()).collect()
}

fn e3(ctx: &Ctx, res: &mut PartResult, cfg: Config, depth: usize, first: Option<usize>) {
    res.engine = "E3 bounded exhaustive op sequences on the real PrometheusRecorder vs reference through an independent parser".into();
    vseq::quiet_panics();
    let alpha = alphabet();
    let mut states = vseq::States::new();
    let mut fails: Vec<(String, String, Vec<usize>)> = Vec::new();
    let mut transitions = 0u64;
    let replay_seq: Option<Vec<usize>> = ctx.replay.as_ref().and_then(|r| r["seq"].as_array().map(|a| a.iter().map(|x| x.as_u64().unwrap() as usize).collect()));
    let mut run_seq = |tail: &[usize]| -> Option<usize> {
        let mut seq: Vec<usize> = first.into_iter().collect();
        seq.extend_from_slice(tail);
        let off = first.is_some() as usize;
        let (rec, global) = build(cfg);
        let h = rec.handle();
        let mut m = Model::default();
        let n = seq.len();
        for i in 0..=n {
            let op = if i < n { alpha[seq[i]] } else { Op::Render };
            transitions += 1;
            let cut = i.min(n.saturating_sub(1)).saturating_sub(off);
            let mut bad: Option<(String, String)> = None;
            match op {
                Op::Render => match vseq::catch(|| (h.render(), h.render())) {
                    Err(p) => bad = Some(("render-panic".into(), p)),
                    Ok((t1, t2)) => {
                        if stable_lines(&t1) != stable_lines(&t2) {
                            bad = Some(("render-twice-differs".into(), format!("{:?} then {:?}", t1, t2)));
                        } else {
                            match promtext::parse(&t1) {
                                Err(e) => bad = Some(("malformed-exposition".into(), format!("{} in {:?}", e, t1))),
                                Ok(fams) => {
                                    states.add(&stable_lines(&t1));
                                    if let Err(x) = compare(&fams, &m, cfg) {
                                        bad = Some(x);
                                    }
                                }
                            }
                        }
                    }
                },
                Op::Upkeep => {
                    if let Err(p) = vseq::catch(|| h.run_upkeep()) {
                        bad = Some(("render-panic".into(), p));
                    }
                }
                _ => {
                    if let Err(p) = vseq::catch(|| apply_real(&rec, op)) {
                        bad = Some(("recorder-panic".into(), p));
                    }
                    apply_model(&mut m, op, &global);
                }
            }
            if let Some((sig, msg)) = bad {
                fails.push((sig, format!("{:?} after {:?}: {}", cfg, seq[..i.min(n)].iter().map(|x| alpha[*x]).collect::<Vec<_>>(), msg.chars().take(900).collect::<String>()), seq[..(i + 1).min(n)].to_vec()));
                return Some(cut);
            }
        }
        None
    };
    if let Some(seq) = replay_seq {
        run_seq(if first.is_some() { &seq[1..] } else { &seq[..] });
        res.executions = 1;
    } else {
        let d = if first.is_some() { depth - 1 } else { depth };
        let (n, complete) = vseq::for_each_seq(alpha.len(), d, &mut run_seq, &|| ctx.over_budget());
        res.executions = n;
        res.exhaustive = complete;
        if !complete {
            res.cap_hit = Some("budget (cpu time of the part)".into());
        }
    }
    res.transitions = transitions;
    res.states = states.len();
    res.distinct_outcomes = states.len();
    res.bound = json!({"depth": depth, "alphabet": alpha.len(), "config": format!("{:?}", cfg), "first_op_fixed": first});
    for (sig, msg, seq) in fails {
        res.violation(&sig, msg, json!({"seq": seq}));
    }
    res.sample(json!({"config": format!("{:?}", cfg), "ops": format!("{:?}", [alpha[0], alpha[1], alpha[20], alpha[12], alpha[21], alpha[20]])}));
}

/// a long history: 200 samples (multi-block buckets) with renders in between
fn e3_long(res: &mut PartResult) {
    res.engine = "E3 one 200-sample history (multi-block buckets)".into();
    for cfg in [Config::Default, Config::GlobalBuckets] {
        let (rec, global) = build(cfg);
        let h = rec.handle();
        let mut m = Model::default();
        for i in 0..200 {
            let op = Op::Rec(5 + (i % 2), (i % 8) as f64 * 0.5);
            apply_real(&rec, op);
            apply_model(&mut m, op, &global);
            res.transitions += 1;
            if i % 67 == 66 || i == 199 {
                let t = h.render();
                match promtext::parse(&t).map_err(|e| ("malformed-exposition".to_string(), e)).and_then(|f| compare(&f, &m, cfg)) {
                    Ok(()) => {}
                    Err((sig, msg)) => res.violation(&sig, format!("{:?} after {} samples: {}", cfg, i + 1, msg), json!({"long": true})),
                }
            }
            if i == 130 {
                h.run_upkeep();
            }
        }
        res.executions += 1;
    }
    // many series: 300 series of each kind in a handful of families (every map behind the exporter grows several
    // times), rendered at doubling sizes: every series exactly once, with its own value
    for cfg in [Config::Default, Config::GlobalBuckets, Config::GlobalLabels] {
        let (rec, _) = build(cfg);
        let h = rec.handle();
        let mut next_check = 1usize;
        let mut want: BTreeMap<(String, String), f64> = BTreeMap::new();
        for i in 0..300usize {
            res.transitions += 3;
            let l = vec![Label::new("i", i.to_string())];
            rec.register_counter(&Key::from_parts(format!("mc{}", i % 5), l.clone()), &META).increment(i as u64 + 1);
            rec.register_gauge(&Key::from_parts(format!("mg{}", i % 3), l.clone()), &META).set(i as f64 + 0.5);
            rec.register_histogram(&Key::from_parts(format!("mh{}", i % 4), l.clone()), &META).record(i as f64 + 0.25);
            want.insert((format!("mc{}", i % 5), i.to_string()), i as f64 + 1.0);
            want.insert((format!("mg{}", i % 3), i.to_string()), i as f64 + 0.5);
            want.insert((format!("mh{}_sum", i % 4), i.to_string()), i as f64 + 0.25);
            if i + 1 == next_check || i == 299 {
                next_check *= 2;
                let text = h.render();
                let fams = match promtext::parse(&text) {
                    Ok(f) => f,
                    Err(e) => {
                        res.violation("malformed-exposition", format!("{:?} with {} series per kind: {}", cfg, i + 1, e), json!({"long": true}));
                        break;
                    }
                };
                if !promtext::duplicate_series(&fams).is_empty() {
                    res.violation("series-rendered-more-than-once", format!("{:?} with {} series per kind: {:?}", cfg, i + 1, promtext::duplicate_series(&fams).iter().take(3).collect::<Vec<_>>()), json!({"long": true}));
                    break;
                }
                let mut got: BTreeMap<(String, String), f64> = BTreeMap::new();
                for f in &fams {
                    for sm in &f.samples {
                        if sm.name == f.name && sm.label("quantile").is_none() || sm.name.ends_with("_sum") {
                            got.insert((sm.name.clone(), sm.label("i").unwrap_or("").to_string()), sm.value_f64());
                        }
                    }
                }
                if got != want {
                    let missing: Vec<_> = want.keys().filter(|k| !got.contains_key(*k)).take(3).collect();
                    let wrong: Vec<_> = want.iter().filter(|(k, v)| got.get(*k).map(|g| g != *v).unwrap_or(false)).take(3).collect();
                    res.violation("families-differ-from-registered-metrics", format!("{:?} with {} series per kind: {} series rendered, {} registered; missing e.g. {:?}; wrong value e.g. {:?}", cfg, i + 1, got.len(), want.len(), missing, wrong), json!({"long": true}));
                    break;
                }
            }
        }
        res.executions += 1;
    }
    res.states = 5;
    res.distinct_outcomes = 5;
    res.sample(json!({"history": "200 x record(h_one / alias, (i%8)*0.5), render after 67, 134, 200 samples, upkeep after 131; 900 series rendered at doubling sizes"}));
}

// ------------------------------------------------------------------ E1
struct S {
    rec: PrometheusRecorder,
    h: PrometheusHandle,
    log: Log<(String, usize, Option<u64>, Option<f64>)>, // (event, id, count, sum)
}
fn count_sum(text: &str) -> (Option<u64>, Option<f64>) {
    let fams = match promtext::parse(text) {
        Ok(f) => f,
        Err(_) => return (Some(u64::MAX), None),
    };
    let f = match fams.iter().find(|f| f.name == "h_two") {
        Some(f) => f,
        None => return (None, None),
    };
    let count: Option<u64> = f.samples.iter().find(|s| s.name == "h_two_count").and_then(|s| s.value.parse().ok());
    // a true histogram must be consistent in itself: cumulative buckets, the +Inf bucket equal to _count
    if f.ty == "histogram" {
        let mut prev = 0u64;
        let mut inf = None;
        for b in f.samples.iter().filter(|s| s.name == "h_two_bucket") {
            let n: u64 = b.value.parse().unwrap_or(u64::MAX);
            if n < prev {
                return (Some(u64::MAX), None);
            }
            prev = n;
            if b.label("le") == Some("+Inf") {
                inf = Some(n);
            }
        }
        if inf != count {
            return (Some(u64::MAX), None);
        }
    }
    (count, f.samples.iter().find(|s| s.name == "h_two_sum").map(|s| s.value_f64()))
}
fn e1(ctx: &Ctx, res: &mut PartResult, pb: usize, recorders: usize, prefill: u64, upkeeper: bool, buckets: bool) {
    let mut bodies: Vec<Body<S>> = Vec::new();
    let mut vals: Vec<f64> = Vec::new();
    for t in 0..recorders {
        let my: Vec<(usize, f64)> = (0..2).map(|i| {
            vals.push((1 << (t * 2 + i)) as f64);
            (t * 2 + i, (1 << (t * 2 + i)) as f64)
        }).collect();
        bodies.push(body(move |s: &S| {
            let h = s.rec.register_histogram(&mk_key(7), &META);
            for (id, v) in &my {
                s.log.push(("call".into(), *id, None, None));
                h.record(*v);
                s.log.push(("ret".into(), *id, None, None));
            }
        }));
    }
    bodies.push(body(|s: &S| {
        s.log.push(("rcall".into(), 0, None, None));
        let text = s.h.render();
        if std::env::var("C07_DEBUG").is_ok() {
            eprintln!("RENDER0: {:?}", text);
        }
        let (c, sm) = count_sum(&text);
        s.log.push(("rret".into(), 0, c, sm));
        s.h.run_upkeep();
        s.log.push(("rcall".into(), 1, None, None));
        let (c, sm) = count_sum(&s.h.render());
        s.log.push(("rret".into(), 1, c, sm));
    }));
    if upkeeper {
        // a second draining thread (what the exporter's periodic upkeep task is to a scrape)
        bodies.push(body(|s: &S| {
            s.h.run_upkeep();
            s.h.run_upkeep();
        }));
    }
    let vals2 = vals.clone();
    let scn = Scenario {
        name: format!("{} recorder thread(s) x 2 record(){} || drainer (render, run_upkeep, render){}; final render; {} samples (value 0) recorded beforehand so that the racing records straddle the 64-slot block hand-over", recorders, if buckets { " into a bucketed (true) histogram" } else { "" }, if upkeeper { " || second drainer (run_upkeep x2)" } else { "" }, prefill),
        setup: Box::new(move || {
            // with buckets the series is a true histogram: drained samples are aggregated by Histogram::record_many
            // instead of the rolling summary
            let rec = if buckets { PrometheusBuilder::new().set_buckets(&[1.5, 100.0]).unwrap().build_recorder() } else { PrometheusBuilder::new().build_recorder() };
            let h = rec.handle();
            let hist = rec.register_histogram(&mk_key(7), &META);
            for _ in 0..prefill {
                hist.record(0.0);
            }
            S { rec, h, log: Log::new() }
        }),
        bodies,
        check: Box::new(move |s, _| {
            let (fc, fs) = count_sum(&s.h.render());
            let log = s.log.get();
            let total: f64 = vals2.iter().sum();
            if fc != Some(vals2.len() as u64 + prefill) || fs != Some(total) {
                return fail("histogram-sample-lost-or-double-counted", format!("final _count {:?} _sum {:?}; {} samples summing to {} were recorded (each racing sample a distinct power of two, {} zeros beforehand)", fc, fs, vals2.len() as u64 + prefill, total, prefill));
            }
            let mut last = 0u64;
            for (i, e) in log.iter().enumerate() {
                if e.0 == "rret" {
                    let start = log.iter().position(|x| x.0 == "rcall" && x.1 == e.1).unwrap();
                    let completed_before = (0..vals2.len()).filter(|id| log.iter().position(|x| x.0 == "ret" && x.1 == *id).map(|p| p < start).unwrap_or(false)).count() as u64;
                    let started_before = (0..vals2.len()).filter(|id| log.iter().position(|x| x.0 == "call" && x.1 == *id).map(|p| p < i).unwrap_or(false)).count() as u64;
                    let (completed_before, started_before) = (completed_before + prefill, started_before + prefill);
                    let c = e.2.unwrap_or(0);
                    if c == u64::MAX {
                        return fail("malformed-exposition", "a concurrent render produced unparsable text".into());
                    }
                    if c < last {
                        return fail("histogram-count-decreased", format!("_count went from {} to {}", last, c));
                    }
                    if c < completed_before || c > started_before {
                        return fail("histogram-sample-lost-or-double-counted", format!("render {} reports _count {} but {} records had completed before it began and {} had started before it ended", e.1, c, completed_before, started_before));
                    }
                    // the sum must be a sum of distinct recorded samples: its bits must be a subset of the recorded powers of two
                    let sm = e.3.unwrap_or(0.0) as u64;
                    if (sm.count_ones() as u64) + prefill != c && !(prefill > 0 && c < prefill) {
                        return fail("histogram-sample-lost-or-double-counted", format!("render {} reports _count {} with _sum {} (not a sum of {} distinct recorded samples)", e.1, c, sm, c));
                    }
                    last = c;
                }
            }
            Verdict::Ok(format!("{:?}", log.iter().filter(|e| e.0 == "rret").map(|e| e.2).collect::<Vec<_>>()))
        }),
        termination_promised: true,
    };
    vsched::explore(&scn, &Cfg { max_bound: pb, horizon: 30000 }, ctx, res);
}

/// E1 on counters and gauges: two recorder threads update ONE gauge series (increment / decrement by distinct powers of
/// two) and one counter series while a third thread renders; the final render shows the sum of all updates (no update of
/// a recorder thread lost to the other one), every intermediate render a value made of updates that had started.
fn e1_scalars(ctx: &Ctx, res: &mut PartResult, pb: usize) {
    let gval = |text: &str, fam: &str| -> Option<f64> { promtext::parse(text).ok()?.iter().find(|f| f.name == fam)?.samples.first().map(|s| s.value_f64()) };
    let mut bodies: Vec<Body<S>> = Vec::new();
    for t in 0..2usize {
        bodies.push(body(move |s: &S| {
            let g = s.rec.register_gauge(&mk_key(3), &META);
            let c = s.rec.register_counter(&mk_key(2), &META);
            if t == 0 {
                g.increment(1.0);
                c.increment(1);
                g.increment(2.0);
            } else {
                g.decrement(4.0);
                c.increment(2);
                g.increment(8.0);
            }
        }));
    }
    bodies.push(body(move |s: &S| {
        let text = s.h.render();
        s.log.push(("r".into(), 0, gval(&text, "c_two").map(|v| v as u64), gval(&text, "g_one")));
    }));
    let scn = Scenario {
        name: "2 recorder threads: gauge +1,+2 | -4,+8 on one series, counter +1 | +2 on one series || render; final render".into(),
        setup: Box::new(|| {
            let rec = PrometheusBuilder::new().build_recorder();
            let h = rec.handle();
            rec.register_gauge(&mk_key(3), &META).set(16.0);
            S { rec, h, log: Log::new() }
        }),
        bodies,
        check: Box::new(move |s, _| {
            let text = s.h.render();
            let (g, c) = (gval(&text, "g_one"), gval(&text, "c_two"));
            if g != Some(16.0 + 1.0 + 2.0 - 4.0 + 8.0) {
                return fail("gauge-update-lost", format!("final gauge value {:?}; 16 +1 +2 -4 +8 = 23 was applied by two threads", g));
            }
            if c != Some(3.0) {
                return fail("counter-value-wrong", format!("final counter value {:?}; increments 1 and 2 were made by two threads", c));
            }
            for e in s.log.get() {
                // an intermediate gauge value is 16 plus a subset of {+1,+2,-4,+8} that respects each thread's order
                let ok = match e.3 {
                    None => true,
                    Some(v) => [16.0, 17.0, 19.0, 12.0, 20.0, 13.0, 15.0, 21.0, 23.0].contains(&v),
                };
                if !ok {
                    return fail("gauge-update-lost", format!("an intermediate render shows the gauge at {:?}, which no prefix of the two threads' updates produces", e.3));
                }
            }
            Verdict::Ok(format!("{:?}", s.log.get().iter().map(|e| (e.2, e.3)).collect::<Vec<_>>()))
        }),
        termination_promised: true,
    };
    vsched::explore(&scn, &Cfg { max_bound: pb, horizon: 30000 }, ctx, res);
}

fn parts(ctx: &Ctx) -> Vec<PartSpec> {
    let mut v = vec![PartSpec::new("e3-long-history", json!({"long": true}))];
    let n = alphabet().len();
    if ctx.quick() {
        for (ci, _) in CONFIGS.iter().enumerate() {
            v.push(PartSpec::new(&format!("e3-d4-config{}", ci), json!({"cfg": ci, "depth": 4})).budget(150.0));
        }
        v.push(PartSpec::new("e1-1recorder-pb2", json!({"e1": 2, "recorders": 1})).cpus("0"));
        v.push(PartSpec::new("e1-2recorders-pb2", json!({"e1": 2, "recorders": 2})).cpus("0").budget(150.0));
        v.push(PartSpec::new("e1-2recorders-handover63-pb2", json!({"e1": 2, "recorders": 2, "prefill": 63})).cpus("0").budget(150.0));
        v.push(PartSpec::new("e1-1recorder-2drainers-pb2", json!({"e1": 2, "recorders": 1, "prefill": 2, "upkeeper": true})).cpus("0").budget(150.0));
        v.push(PartSpec::new("e1-1recorder-impatient-waits-pb1", json!({"e1": 1, "recorders": 1, "impatient": 24})).cpus("0").budget(150.0));
        v.push(PartSpec::new("e1-scalars-2recorders-pb2", json!({"scalars": 2})).cpus("0").budget(150.0));
        v.push(PartSpec::new("e1-1recorder-2drainers-buckets-pb2", json!({"e1": 2, "recorders": 1, "prefill": 2, "upkeeper": true, "buckets": true})).cpus("0").budget(150.0));
    } else {
        for (ci, _) in CONFIGS.iter().enumerate() {
            for f in 0..n {
                v.push(PartSpec::new(&format!("e3-d5-config{}-first{}", ci, f), json!({"cfg": ci, "depth": 5, "first": f})).budget(2400.0));
            }
        }
        v.push(PartSpec::new("e1-1recorder-pb4", json!({"e1": 4, "recorders": 1})).cpus("0").budget(1500.0));
        v.push(PartSpec::new("e1-2recorders-pb3", json!({"e1": 3, "recorders": 2})).cpus("1").budget(2400.0));
        v.push(PartSpec::new("e1-2recorders-handover63-pb3", json!({"e1": 3, "recorders": 2, "prefill": 63})).cpus("2").budget(2400.0));
        v.push(PartSpec::new("e1-1recorder-handover62-pb3", json!({"e1": 3, "recorders": 1, "prefill": 62})).cpus("3").budget(2400.0));
        v.push(PartSpec::new("e1-2recorders-impatient-waits-pb2", json!({"e1": 2, "recorders": 2, "impatient": 24})).cpus("7").budget(2400.0));
        v.push(PartSpec::new("e1-scalars-2recorders-pb4", json!({"scalars": 4})).cpus("6").budget(2400.0));
        v.push(PartSpec::new("e1-1recorder-2drainers-buckets-pb3", json!({"e1": 3, "recorders": 1, "prefill": 2, "upkeeper": true, "buckets": true})).cpus("4").budget(2400.0));
        v.push(PartSpec::new("e1-2recorders-buckets-pb3", json!({"e1": 3, "recorders": 2, "buckets": true})).cpus("5").budget(2400.0));
        v.push(PartSpec::new("e1-1recorder-2drainers-pb3", json!({"e1": 3, "recorders": 1, "prefill": 2, "upkeeper": true})).cpus("4").budget(2400.0));
    }
    v
}

fn run(ctx: &Ctx, spec: &PartSpec) -> PartResult {
    let mut res = PartResult::new(&spec.name, "");
    if let Some(k) = spec.arg["impatient"].as_u64() {
        // impatient waits (see vsched::IMPATIENT): a draining thread's wait for in-flight writers retries 24 times at once
        vsched::IMPATIENT.store(k as u32, std::sync::atomic::Ordering::Relaxed);
    }
    if spec.arg["long"].as_bool() == Some(true) {
        e3_long(&mut res);
    } else if let Some(pb) = spec.arg["scalars"].as_u64() {
        e1_scalars(ctx, &mut res, pb as usize);
    } else if let Some(pb) = spec.arg["e1"].as_u64() {
        e1(ctx, &mut res, pb as usize, spec.arg["recorders"].as_u64().unwrap_or(1) as usize, spec.arg["prefill"].as_u64().unwrap_or(0), spec.arg["upkeeper"].as_bool().unwrap_or(false), spec.arg["buckets"].as_bool().unwrap_or(false));
    } else {
        e3(ctx, &mut res, CONFIGS[spec.arg["cfg"].as_u64().unwrap_or(0) as usize], spec.arg["depth"].as_u64().unwrap_or(4) as usize, spec.arg["first"].as_u64().map(|x| x as usize));
    }
    res
}

fn main() {
    driver::main(CheckDef {
        prop: "C07",
        level: "model_checking",
        rule: "E3: for each of 6 builder configurations (default summaries, global buckets, per-metric override, global labels with one overridden by a key label, custom quantiles, unit suffix) every sequence of the stated depth over 22 operations (counter increment/absolute incl. an increment that takes the total past 2^64 (totals are modulo 2^64), gauge set/increment incl. NaN, -0.0, 1e300, histogram record incl. +inf and NaN samples, first/second description of a name with and without a unit, render, run_upkeep; keys incl. equal keys built differently) on a fresh real PrometheusRecorder, plus a final render; every render is done twice (same line set, quantile lines aside), parsed by the strict independent parser and compared with the reference (families, series label sets = global overridden by key, counter totals, gauge bit round trip, _count/_sum conservation, bucket counts, HELP and unit suffix of the first description); a 200-sample multi-block history; 900 series (300 per kind, a handful of families) rendered at doubling sizes, every series once with its own value; E1: all SC interleavings of two recorder threads updating one gauge and one counter series with a rendering thread (no update lost); all SC interleavings of record() threads with a drainer thread (render, run_upkeep, render), also with 63 samples recorded beforehand (block hand-over) and with a second draining thread (run_upkeep x2, what the periodic upkeep task is to a scrape), also into a bucketed series (true histogram: cumulative buckets consistent, +Inf bucket = _count in every render) (samples are distinct powers of two so every partial sum identifies the set of samples counted); distinct = distinct rendered line sets / outcomes",
        assumptions: &["E1: sequential consistency, one registry shard", "dyadic sample values so that sums are exact in any order"],
        parts,
        run,
    });
}
