//! C10 — DogStatsD aggregation conserves counts across flushes under any interleaving (E1 + E4).
use metrics::{Counter, Gauge, Histogram, Key, Level, Metadata, Recorder};
use metrics_exporter_dogstatsd::verif_driver::Driver;
use metrics_exporter_dogstatsd::{AggregationMode, DogStatsDBuilder};
use std::io::Read;
use std::sync::Mutex;
use std::time::{Duration, Instant};
use std::collections::BTreeMap;
use std::sync::atomic::Ordering;
use std::sync::Arc;
use vcore::driver::{self, CheckDef, Ctx, PartResult, PartSpec};
use vcore::json;
use vcore::statsd::{self, Msg};
use vcore::vsched::{self, body, Body, Cfg, Log, Scenario, Verdict};

static META: Metadata<'static> = Metadata::new("t", Level::INFO, None);

#[derive(Clone, Debug)]
enum Ev {
    UpdCall(usize),
    UpdRet(usize),
    FlushCall(usize),
    FlushRet(usize, Vec<Msg>),
}

#[derive(Clone, Copy, Debug)]
enum Upd {
    Inc(u64),
    Abs(u64),
    Set(f64),
    GInc(f64),
    GDec(f64),
    Rec(f64),
}

struct S {
    drv: Mutex<Driver>,
    c: Counter,
    g: Gauge,
    h: Histogram,
    log: Log<Ev>,
    aggressive: bool,
    parse_error: Mutex<Option<String>>,
}

fn flush(s: &S, id: usize) {
    s.log.push(Ev::FlushCall(id));
    let payloads = s.drv.lock().unwrap().flush_once();
    let mut msgs = Vec::new();
    for p in payloads {
        match statsd::parse_message(&p) {
            Ok(m) => msgs.push(m),
            Err(e) => *s.parse_error.lock().unwrap() = Some(format!("{} in {:?}", e, String::from_utf8_lossy(&p))),
        }
    }
    s.log.push(Ev::FlushRet(id, msgs));
}

fn upd(s: &S, id: usize, u: Upd) {
    s.log.push(Ev::UpdCall(id));
    match u {
        Upd::Inc(v) => s.c.increment(v),
        Upd::Abs(v) => s.c.absolute(v),
        Upd::Set(v) => s.g.set(v),
        Upd::GInc(v) => s.g.increment(v),
        Upd::GDec(v) => s.g.decrement(v),
        Upd::Rec(v) => s.h.record(v),
    }
    s.log.push(Ev::UpdRet(id));
}

struct Hist {
    upds: Vec<(usize, usize, Upd)>,              // (call, ret, op) by op id
    flushes: Vec<(usize, usize, Vec<Msg>)>,      // in flush order
}

fn history(s: &S, ops: &[Upd]) -> Hist {
    let log = s.log.get();
    let mut upds: Vec<(usize, usize, Upd)> = ops.iter().map(|o| (usize::MAX, usize::MAX, *o)).collect();
    let mut fl: std::collections::BTreeMap<usize, (usize, usize, Vec<Msg>)> = Default::default();
    for (i, e) in log.iter().enumerate() {
        match e {
            Ev::UpdCall(id) => upds[*id].0 = i,
            Ev::UpdRet(id) => upds[*id].1 = i,
            Ev::FlushCall(id) => {
                fl.insert(*id, (i, usize::MAX, vec![]));
            }
            Ev::FlushRet(id, m) => {
                let e = fl.get_mut(id).unwrap();
                e.1 = i;
                e.2 = m.clone();
            }
        }
    }
    let mut flushes: Vec<(usize, usize, Vec<Msg>)> = fl.into_values().collect();
    flushes.sort_by_key(|f| f.0);
    Hist { upds, flushes }
}

fn oracle(s: &S, ops: &[Upd]) -> Verdict {
    if let Some(e) = s.parse_error.lock().unwrap().clone() {
        return vsched::fail("malformed-payload", e);
    }
    let h = history(s, ops);
    let overlaps = |a: (usize, usize), b: (usize, usize)| a.0 < b.1 && b.0 < a.1;
    // timestamps: counters and gauges carry one exactly in Aggressive mode; histograms never
    for f in &h.flushes {
        for m in &f.2 {
            let want = s.aggressive && (m.ty == 'c' || m.ty == 'g');
            if m.ts.is_some() != want {
                return vsched::fail("timestamp-mode-mismatch", format!("{:?} message {} a timestamp in {} mode", m.ty, if m.ts.is_some() { "carries" } else { "lacks" }, if s.aggressive { "Aggressive" } else { "Conservative" }));
            }
        }
    }
    // ---- counter
    let c_ops: Vec<&(usize, usize, Upd)> = h.upds.iter().filter(|u| matches!(u.2, Upd::Inc(_) | Upd::Abs(_))).collect();
    let sends: Vec<Option<u64>> = h.flushes.iter().map(|f| {
        let ms: Vec<&Msg> = f.2.iter().filter(|m| m.ty == 'c').collect();
        if ms.len() > 1 {
            return Some(u64::MAX);
        }
        ms.first().map(|m| m.values[0].parse::<u64>().unwrap_or(u64::MAX))
    }).collect();
    let abs_only = !c_ops.is_empty() && c_ops.iter().all(|u| matches!(u.2, Upd::Abs(_)));
    let inc_only = c_ops.iter().all(|u| matches!(u.2, Upd::Inc(_)));
    let first_abs_overlaps_flush = abs_only && h.flushes.iter().any(|f| overlaps((c_ops[0].0, c_ops[0].1), (f.0, f.1)));
    // The recorded finding (known_findings.json) is narrow: a flush that overlaps the call switching the counter to
    // absolute mode reads the re-based `last` with the old `current` (0) and sends exactly 0 - first (mod 2^64); the
    // deltas still add up modulo 2^64. Anything else that goes wrong in that window is a different violation.
    let wrapped_rebase = first_abs_overlaps_flush && {
        let first = if let Upd::Abs(v) = c_ops[0].2 { v } else { 0 };
        let last = if let Upd::Abs(v) = c_ops[c_ops.len() - 1].2 { v } else { 0 };
        let wsum = sends.iter().flatten().fold(0u64, |a, v| a.wrapping_add(*v));
        let hit = h.flushes.iter().enumerate().any(|(fi, f)| overlaps((c_ops[0].0, c_ops[0].1), (f.0, f.1)) && sends[fi] == Some(0u64.wrapping_sub(first)));
        hit && first != 0 && wsum == last - first
    };
    let sig = |base: &str| if wrapped_rebase { "absolute-rebase-vs-flush:wrapped-delta-sent".to_string() } else { base.to_string() };
    let describe = || format!("sends per flush {:?}; log {:?}", sends, s.log.get().iter().map(|e| match e { Ev::UpdCall(i) => format!("call{}", i), Ev::UpdRet(i) => format!("ret{}", i), Ev::FlushCall(i) => format!("F{}(", i), Ev::FlushRet(i, _) => format!(")F{}", i) }).collect::<Vec<_>>().join(" "));
    if inc_only || abs_only {
        let total: u128 = sends.iter().flatten().map(|v| *v as u128).sum();
        let want: u128 = if inc_only {
            c_ops.iter().map(|u| if let Upd::Inc(v) = u.2 { v as u128 } else { 0 }).sum()
        } else {
            let vals: Vec<u64> = c_ops.iter().map(|u| if let Upd::Abs(v) = u.2 { v } else { 0 }).collect();
            (vals[vals.len() - 1] - vals[0]) as u128
        };
        // per-flush upper bound
        let mut sent_before: u128 = 0;
        for (fi, f) in h.flushes.iter().enumerate() {
            if let Some(v) = sends[fi] {
                let added: u128 = if inc_only {
                    c_ops.iter().filter(|u| u.0 < f.1).map(|u| if let Upd::Inc(v) = u.2 { v as u128 } else { 0 }).sum()
                } else {
                    let first = if let Upd::Abs(v) = c_ops[0].2 { v } else { 0 };
                    c_ops.iter().filter(|u| u.0 < f.1).map(|u| if let Upd::Abs(v) = u.2 { (v - first) as u128 } else { 0 }).max().unwrap_or(0)
                };
                if (v as u128) + sent_before > added {
                    return Verdict::Fail { sig: sig("delta-exceeds-what-was-added"), msg: format!("flush {} sent {} but only {} had been added and {} already sent; {}", fi, v, added, sent_before, describe()) };
                }
                sent_before += v as u128;
            }
        }
        if total != want {
            return Verdict::Fail { sig: sig("counter-deltas-do-not-add-up"), msg: format!("deltas sum to {} but {} was added; {}", total, want, describe()) };
        }
        // zero discipline
        let mut last_was_zero = false;
        for v in sends.iter().flatten() {
            if *v == 0 {
                if last_was_zero {
                    return Verdict::Fail { sig: sig("zero-sent-twice"), msg: format!("a zero delta was sent twice with no nonzero delta in between; {}", describe()) };
                }
                last_was_zero = true;
            } else {
                last_was_zero = false;
            }
        }
        let last_nz = sends.iter().rposition(|v| matches!(v, Some(x) if *x != 0));
        let tail: Vec<Option<u64>> = sends[last_nz.map(|i| i + 1).unwrap_or(0)..].to_vec();
        // the three sequential final flushes guarantee at least two flushes after the last nonzero send
        if tail.len() >= 2 {
            let zeros = tail.iter().filter(|v| **v == Some(0)).count();
            if zeros == 0 && last_nz.is_some() {
                return Verdict::Fail { sig: sig("final-zero-never-sent"), msg: format!("the counter stopped changing but no zero was sent afterwards; {}", describe()) };
            }
        }
    }
    // ---- gauge: every flush sends the most recent value. With increments/decrements in play "most recent" is the
    // value after some prefix of a linearization of the gauge operations (consistent with their real-time order) that
    // contains every operation that returned before the flush began and none that was called after it returned; one
    // linearization has to explain all flushes, with cut points that do not move backwards.
    let g_ops: Vec<&(usize, usize, Upd)> = h.upds.iter().filter(|u| matches!(u.2, Upd::Set(_) | Upd::GInc(_) | Upd::GDec(_))).collect();
    if !g_ops.is_empty() {
        let mut sent: Vec<f64> = Vec::new();
        for (fi, f) in h.flushes.iter().enumerate() {
            let ms: Vec<&Msg> = f.2.iter().filter(|m| m.ty == 'g').collect();
            if ms.len() != 1 {
                return vsched::fail("gauge-not-sent-once-per-flush", format!("flush {} sent {} gauge messages", fi, ms.len()));
            }
            sent.push(ms[0].values[0].parse().unwrap_or(f64::NAN));
        }
        let n = g_ops.len();
        let mut perm: Vec<usize> = Vec::new();
        let mut used = vec![false; n];
        fn explains(order: &[usize], g_ops: &[&(usize, usize, Upd)], flushes: &[(usize, usize, Vec<Msg>)], sent: &[f64]) -> bool {
            // prefix values
            let mut vals = vec![0.0f64];
            for &i in order {
                let cur = *vals.last().unwrap();
                vals.push(match g_ops[i].2 {
                    Upd::Set(v) => v,
                    Upd::GInc(v) => cur + v,
                    Upd::GDec(v) => cur - v,
                    _ => cur,
                });
            }
            let mut lo = 0usize;
            for (fi, f) in flushes.iter().enumerate() {
                // smallest admissible cut >= lo giving the sent value
                let mut found = None;
                for cut in lo..=order.len() {
                    let inside_ok = order[..cut].iter().all(|&i| g_ops[i].0 < f.1); // nothing called after the flush returned
                    let outside_ok = order[cut..].iter().all(|&i| g_ops[i].1 > f.0); // nothing that returned before it began
                    if inside_ok && outside_ok && vals[cut] == sent[fi] {
                        found = Some(cut);
                        break;
                    }
                }
                match found {
                    Some(c) => lo = c,
                    None => return false,
                }
            }
            true
        }
        fn rec(perm: &mut Vec<usize>, used: &mut Vec<bool>, g_ops: &[&(usize, usize, Upd)], flushes: &[(usize, usize, Vec<Msg>)], sent: &[f64]) -> bool {
            let n = g_ops.len();
            if perm.len() == n {
                return explains(perm, g_ops, flushes, sent);
            }
            for i in 0..n {
                if used[i] {
                    continue;
                }
                // real-time order: i may come next only if no unused op returned before i was called
                if (0..n).any(|j| !used[j] && j != i && g_ops[j].1 < g_ops[i].0) {
                    continue;
                }
                used[i] = true;
                perm.push(i);
                if rec(perm, used, g_ops, flushes, sent) {
                    return true;
                }
                perm.pop();
                used[i] = false;
            }
            false
        }
        if !rec(&mut perm, &mut used, &g_ops, &h.flushes, &sent) {
            return vsched::fail("gauge-flush-not-most-recent-value", format!("gauge values sent per flush {:?} are not explained by any order of the gauge operations {:?}", sent, g_ops.iter().map(|u| u.2).collect::<Vec<_>>()));
        }
    }
    // ---- histogram: every recorded value in exactly one flush
    let h_ops: Vec<f64> = h.upds.iter().filter_map(|u| if let Upd::Rec(v) = u.2 { Some(v) } else { None }).collect();
    if !h_ops.is_empty() {
        let mut got: Vec<f64> = Vec::new();
        for f in &h.flushes {
            for m in f.2.iter().filter(|m| m.ty == 'd' || m.ty == 'h') {
                got.extend(m.values.iter().map(|v| v.parse::<f64>().unwrap_or(f64::NAN)));
            }
        }
        let mut a = got.clone();
        a.sort_by(|x, y| x.partial_cmp(y).unwrap());
        let mut b = h_ops.clone();
        b.sort_by(|x, y| x.partial_cmp(y).unwrap());
        if a != b {
            return vsched::fail("histogram-value-not-sent-exactly-once", format!("recorded {:?}, flushed {:?}", b, a));
        }
    }
    Verdict::Ok(format!("c={:?} g/h ok", sends))
}

fn scenario(name: &str, aggressive: bool, updaters: Vec<Vec<Upd>>, flushes: usize) -> Scenario<S> {
    let mut bodies: Vec<Body<S>> = Vec::new();
    let mut flat: Vec<Upd> = Vec::new();
    for ops in &updaters {
        let ops: Vec<(usize, Upd)> = ops.iter().map(|o| {
            flat.push(*o);
            (flat.len() - 1, *o)
        }).collect();
        bodies.push(body(move |s: &S| {
            for (id, o) in &ops {
                upd(s, *id, *o);
            }
        }));
    }
    bodies.push(body(move |s: &S| {
        for i in 0..flushes {
            flush(s, 1 + i);
        }
    }));
    Scenario {
        name: name.into(),
        setup: Box::new(move || {
            let (drv, rec) = Driver::new(aggressive, false, 16, true, vec![], None, 8192, false);
            let c = rec.register_counter(&Key::from_name("cnt"), &META);
            let g = rec.register_gauge(&Key::from_name("gau"), &META);
            let h = rec.register_histogram(&Key::from_name("his"), &META);
            let s = S { drv: Mutex::new(drv), c, g, h, log: Log::new(), aggressive, parse_error: Mutex::new(None) };
            flush(&s, 0);
            s
        }),
        bodies,
        check: Box::new(move |s, _| {
            for i in 0..3 {
                flush(s, 100 + i);
            }
            oracle(s, &flat)
        }),
        termination_promised: true,
    }
}

/// First use of a key from two threads at once: each registers the same new counter / gauge / histogram key through the
/// recorder and updates through its own handle, while a third thread flushes. Every increment and every histogram value
/// is sent exactly once over all flushes (three more follow at the end), whichever registration came first.
struct SReg {
    drv: Mutex<Driver>,
    rec: metrics_exporter_dogstatsd::DogStatsDRecorder,
    sent: Mutex<Vec<Msg>>,
}
fn registration_scenario() -> Scenario<SReg> {
    let flush = |s: &SReg| {
        let payloads = s.drv.lock().unwrap().flush_once();
        for p in payloads {
            for line in p.split_inclusive(|b| *b == b'\n') {
                if let Ok(m) = statsd::parse_message(line) {
                    s.sent.lock().unwrap().push(m);
                }
            }
        }
    };
    Scenario {
        name: "t0 register_counter(k).increment(3), register_histogram(k).record(1.5) || t1 register_counter(k).increment(4), register_histogram(k).record(2.5) || flusher x1; 3 final flushes".into(),
        setup: Box::new(|| {
            let (drv, rec) = Driver::new(false, false, 16, true, vec![], None, 8192, false);
            SReg { drv: Mutex::new(drv), rec, sent: Mutex::new(Vec::new()) }
        }),
        bodies: vec![
            body(|s: &SReg| {
                s.rec.register_counter(&Key::from_name("cnt"), &META).increment(3);
                s.rec.register_histogram(&Key::from_name("his"), &META).record(1.5);
            }),
            body(|s: &SReg| {
                s.rec.register_counter(&Key::from_name("cnt"), &META).increment(4);
                s.rec.register_histogram(&Key::from_name("his"), &META).record(2.5);
            }),
            body(move |s: &SReg| flush(s)),
        ],
        check: Box::new(move |s, _| {
            for _ in 0..3 {
                flush(s);
            }
            let sent = s.sent.lock().unwrap().clone();
            let csum: u64 = sent.iter().filter(|m| m.name == "cnt" && m.ty == 'c').flat_map(|m| m.values.iter()).map(|v| v.parse::<u64>().unwrap_or(u64::MAX / 8)).sum();
            let mut hv: Vec<String> = sent.iter().filter(|m| m.name == "his").flat_map(|m| m.values.iter().cloned()).collect();
            hv.sort();
            if csum != 7 {
                return vsched::fail("counter-sum-wrong", format!("two threads registered the same new counter key and incremented by 3 and by 4 through their own handles: the deltas sent over all flushes add up to {} (expected 7); sent: {:?}", csum, sent.iter().filter(|m| m.name == "cnt").map(|m| m.values.clone()).collect::<Vec<_>>()));
            }
            if hv != vec!["1.5".to_string(), "2.5".to_string()] {
                return vsched::fail("histogram-value-not-sent-exactly-once", format!("two threads registered the same new histogram key and recorded 1.5 and 2.5 through their own handles: values sent over all flushes: {:?}", hv));
            }
            Verdict::Ok(format!("{}", sent.len()))
        }),
        termination_promised: true,
    }
}

// ------------------------------------------------------------------ E4: the real forwarder thread into real sockets
fn recv_all(kind: &str, path: &std::path::Path, want_msgs: usize, cfg: &serde_json::Value) -> Result<Vec<Vec<u8>>, String> {
    let _ = std::fs::remove_file(path);
    let deadline = Instant::now() + Duration::from_secs(20);
    let aggressive = cfg["aggressive"].as_bool().unwrap_or(false);
    let build = |addr: String| -> Result<metrics_exporter_dogstatsd::DogStatsDRecorder, String> {
        let mut b = DogStatsDBuilder::default().with_remote_address(addr).map_err(|e| e.to_string())?
            .with_flush_interval(Duration::from_millis(40)).with_telemetry(false)
            .with_aggregation_mode(if aggressive { AggregationMode::Aggressive } else { AggregationMode::Conservative })
            .send_histograms_as_distributions(cfg["as_dist"].as_bool().unwrap_or(true));
        if let Some(p) = cfg["prefix"].as_str() {
            b = b.set_global_prefix(p);
        }
        if cfg["labels"].as_bool().unwrap_or(false) {
            b = b.with_global_labels(vec![metrics::Label::new("env", "t")]);
        }
        match cfg["extra"].as_str() {
            Some("maxlen") => b = b.with_maximum_payload_length(40).map_err(|e| e.to_string())?,
            Some("sampling") => b = b.with_histogram_sampling(true).with_histogram_reservoir_size(2),
            _ => {}
        }
        b.build().map_err(|e| e.to_string())
    };
    let emit = |rec: &metrics_exporter_dogstatsd::DogStatsDRecorder| {
        rec.register_counter(&Key::from_parts("cnt", vec![metrics::Label::new("k", "v")]), &META).increment(7);
        rec.register_gauge(&Key::from_name("gau"), &META).set(2.5);
        let h = rec.register_histogram(&Key::from_name("his"), &META);
        let n = if cfg["extra"].as_str().unwrap_or("none") == "none" { 2 } else { 12 };
        for i in 1..=n {
            h.record(i as f64);
        }
    };
    let mut out: Vec<Vec<u8>> = Vec::new();
    match kind {
        "unix" => {
            let l = std::os::unix::net::UnixListener::bind(path).map_err(|e| e.to_string())?;
            let rec = build(format!("unix://{}", path.display()))?;
            emit(&rec);
            let (mut conn, _) = l.accept().map_err(|e| e.to_string())?;
            conn.set_read_timeout(Some(Duration::from_millis(200))).unwrap();
            let mut buf: Vec<u8> = Vec::new();
            loop {
                let mut tmp = [0u8; 4096];
                match conn.read(&mut tmp) {
                    Ok(0) => break,
                    Ok(n) => buf.extend_from_slice(&tmp[..n]),
                    Err(_) => {}
                }
                if let Ok(fr) = statsd::split_frames(&buf) {
                    if fr.len() >= want_msgs {
                        // one more interval to catch duplicates / trailing garbage
                        std::thread::sleep(Duration::from_millis(150));
                        if let Ok(n) = conn.read(&mut tmp) {
                            buf.extend_from_slice(&tmp[..n]);
                        }
                        break;
                    }
                }
                if Instant::now() > deadline {
                    return Err(format!("timeout: only {} bytes received", buf.len()));
                }
            }
            out = statsd::split_frames(&buf).map_err(|e| format!("stream framing: {}", e))?;
            drop(rec);
        }
        "unixgram" | "udp" => {
            enum Sock {
                U(std::os::unix::net::UnixDatagram),
                N(std::net::UdpSocket),
            }
            let (sock, addr) = if kind == "unixgram" {
                let s = std::os::unix::net::UnixDatagram::bind(path).map_err(|e| e.to_string())?;
                s.set_read_timeout(Some(Duration::from_millis(200))).unwrap();
                (Sock::U(s), format!("unixgram://{}", path.display()))
            } else {
                let s = std::net::UdpSocket::bind("127.0.0.1:0").map_err(|e| e.to_string())?;
                s.set_read_timeout(Some(Duration::from_millis(200))).unwrap();
                let a = format!("udp://{}", s.local_addr().unwrap());
                (Sock::N(s), a)
            };
            let rec = build(addr)?;
            emit(&rec);
            let mut quiet = 0;
            let mut reached: Option<Instant> = None;
            loop {
                let mut tmp = [0u8; 65536];
                let r = match &sock {
                    Sock::U(s) => s.recv(&mut tmp),
                    Sock::N(s) => s.recv(&mut tmp),
                };
                match r {
                    Ok(n) => {
                        out.push(tmp[..n].to_vec());
                        quiet = 0;
                    }
                    Err(_) => quiet += 1,
                }
                if out.len() >= want_msgs && reached.is_none() {
                    reached = Some(Instant::now());
                }
                // gauges are re-sent on every flush, so the socket never goes quiet: listen for three more flush intervals
                if let Some(t) = reached {
                    if quiet >= 1 || t.elapsed() > Duration::from_millis(130) {
                        break;
                    }
                }
                if Instant::now() > deadline {
                    return Err(format!("timeout: only {} datagrams received", out.len()));
                }
            }
            drop(rec);
        }
        _ => return Err("unknown transport".into()),
    }
    let _ = std::fs::remove_file(path);
    Ok(out)
}

fn e4(ctx: &Ctx, res: &mut PartResult) {
    res.engine = "E4 configuration sweep through the real forwarder thread into real sockets".into();
    let mut states = vcore::vseq::States::new();
    let mut n = 0;
    for kind in ["unix", "unixgram", "udp"] {
        for aggressive in [false, true] {
            for (prefix, labels, as_dist, extra) in [(None, false, true, "none"), (Some("pre"), true, false, "none"), (None, false, true, "maxlen"), (Some("pre"), true, false, "sampling")] {
                if extra != "none" && aggressive {
                    continue;
                }
                n += 1;
                let cfg = json!({"transport": kind, "aggressive": aggressive, "prefix": prefix, "labels": labels, "as_dist": as_dist, "extra": extra});
                if let Some(rp) = &ctx.replay {
                    if *rp != cfg {
                        continue;
                    }
                }
                let path = ctx.run_dir().join(format!("c10-{}-{}.sock", std::process::id(), n));
                res.executions += 1;
                let frames = match recv_all(kind, &path, 3, &cfg) {
                    Ok(f) => f,
                    Err(e) if e.starts_with("timeout") => {
                        res.violation("agent-socket-did-not-receive-flush", format!("{}: {}", cfg, e), cfg.clone());
                        continue;
                    }
                    Err(e) if e.starts_with("stream framing") => {
                        res.violation("agent-socket-framing", format!("{}: {}", cfg, e), cfg.clone());
                        continue;
                    }
                    Err(e) => {
                        res.error = Some(format!("{}: {}", cfg, e));
                        return;
                    }
                };
                res.transitions += frames.len() as u64;
                let mut msgs = Vec::new();
                let mut bad = None;
                for f in &frames {
                    match statsd::parse_message(f) {
                        Ok(m) => msgs.push(m),
                        Err(e) => bad = Some(format!("{} in {:?}", e, String::from_utf8_lossy(f))),
                    }
                }
                if let Some(b) = bad {
                    res.violation("agent-socket-framing", format!("{}: a datagram/frame is not exactly one message: {}", cfg, b), cfg.clone());
                    continue;
                }
                let pfx = prefix.map(|p| format!("{}.", p)).unwrap_or_default();
                let gl: Vec<String> = if labels { vec!["env:t".into()] } else { vec![] };
                let ht = if as_dist { 'd' } else { 'h' };
                let mut want = vec![
                    (format!("{}cnt", pfx), 'c', vec!["7".to_string()], [gl.clone(), vec!["k:v".into()]].concat()),
                    (format!("{}gau", pfx), 'g', vec!["2.5".to_string()], gl.clone()),
                    (format!("{}his", pfx), ht, vec!["1.0".to_string(), "2.0".to_string()], gl.clone()),
                ];
                let mut msgs = msgs;
                if extra != "none" {
                    // the 12-value histogram is judged on its own: split across payloads within the limit / sampled
                    let his: Vec<Msg> = msgs.iter().filter(|m| m.ty == ht).cloned().collect();
                    msgs.retain(|m| m.ty != ht);
                    want.retain(|w| w.1 != ht);
                    let vals: Vec<f64> = his.iter().flat_map(|m| m.values.iter().map(|v| v.parse::<f64>().unwrap_or(f64::NAN))).collect();
                    let all: Vec<f64> = (1..=12).map(|i| i as f64).collect();
                    let bad = if his.iter().any(|m| m.name != format!("{}his", pfx) || m.tags != gl) {
                        Some("histogram message with wrong name or tags".to_string())
                    } else if extra == "maxlen" {
                        if frames.iter().any(|f| f.len() > 40) {
                            Some(format!("a payload is longer than the configured maximum of 40 bytes: {:?}", frames.iter().map(|f| f.len()).collect::<Vec<_>>()))
                        } else if vals != all || his.iter().any(|m| m.rate.is_some()) {
                            Some(format!("histogram values received {:?}, recorded {:?}", vals, all))
                        } else if his.len() < 2 {
                            Some("12 values cannot fit one 40-byte payload".to_string())
                        } else {
                            None
                        }
                    } else {
                        let mut d = vals.clone();
                        d.dedup();
                        let rate: Option<f64> = his.first().and_then(|m| m.rate.as_ref()).and_then(|r| r.parse().ok());
                        if vals.len() != 2 || d.len() != 2 || vals.iter().any(|v| !all.contains(v)) {
                            Some(format!("reservoir of 2 over 12 recorded values sent {:?}", vals))
                        } else if rate.map(|r| (r - 2.0 / 12.0).abs() > 1e-9).unwrap_or(true) {
                            Some(format!("sample rate {:?}, expected {}", rate, 2.0 / 12.0))
                        } else {
                            None
                        }
                    };
                    if let Some(b) = bad {
                        res.violation("agent-socket-messages-differ", format!("{}: {}", cfg, b), cfg.clone());
                        continue;
                    }
                }
                let mut got: Vec<(String, char, Vec<String>, Vec<String>)> = msgs.iter().filter(|m| !(m.ty == 'c' && m.values == ["0"])).map(|m| (m.name.clone(), m.ty, m.values.clone(), m.tags.clone())).collect();
                // gauges are re-sent on every flush: collapse repeats
                got.sort();
                got.dedup();
                want.sort();
                states.add(&format!("{:?}", got));
                if got != want {
                    res.violation("agent-socket-messages-differ", format!("{}: received {:?}, expected {:?}", cfg, got, want), cfg.clone());
                    continue;
                }
                for m in &msgs {
                    let want_ts = aggressive && (m.ty == 'c' || m.ty == 'g');
                    if m.ts.is_some() != want_ts {
                        res.violation("timestamp-mode-mismatch", format!("{}: {:?} message {} a timestamp", cfg, m.ty, if m.ts.is_some() { "carries" } else { "lacks" }), cfg.clone());
                        break;
                    }
                }
                res.sample(json!({"config": cfg, "received": msgs.iter().map(|m| format!("{:?}", m)).collect::<Vec<_>>()}));
            }
        }
    }
    res.states = states.len();
    res.distinct_outcomes = states.len();
}

/// sampling on: the accounting identities that still hold (values sent ⊆ values recorded since the previous flush,
/// as many as min(n, reservoir size), sample rate = sent / recorded, next flush starts empty)
fn sampling_part(res: &mut PartResult) {
    res.engine = "E3 reservoir sizes x sample counts x 2 flush cycles through the real State::flush with histogram sampling on".into();
    let mut states = vcore::vseq::States::new();
    for size in [1usize, 2, 4] {
        for n1 in 0..=size + 3 {
            for n2 in [0usize, 1, size + 2] {
                res.executions += 1;
                let (mut drv, rec) = Driver::new(false, true, size, true, vec![], None, 8192, false);
                let h = rec.register_histogram(&Key::from_name("his"), &META);
                for (cycle, n) in [n1, n2].iter().enumerate() {
                    res.transitions += 1;
                    let base = (cycle * 100) as f64;
                    for i in 0..*n {
                        h.record(base + i as f64 + 1.0);
                    }
                    let msgs: Vec<Msg> = drv.flush_once().iter().filter_map(|p| statsd::parse_message(p).ok()).collect();
                    let vals: Vec<f64> = msgs.iter().filter(|m| m.ty == 'd').flat_map(|m| m.values.iter().map(|v| v.parse::<f64>().unwrap_or(f64::NAN))).collect();
                    let rate: Option<f64> = msgs.iter().filter(|m| m.ty == 'd').filter_map(|m| m.rate.as_ref().and_then(|r| r.parse().ok())).next();
                    let cfg = json!({"size": size, "n1": n1, "n2": n2, "cycle": cycle});
                    let mut seen = std::collections::BTreeSet::new();
                    for v in &vals {
                        if !(*v > base && *v <= base + *n as f64) || !seen.insert(v.to_bits()) {
                            res.violation("sampled-flush-sends-value-not-recorded-this-cycle", format!("reservoir {} cycle {} ({} recorded): sent {:?}", size, cycle, n, vals), cfg.clone());
                        }
                    }
                    if vals.len() != (*n).min(size) {
                        res.violation("sampled-flush-sends-wrong-count", format!("reservoir {} cycle {} ({} recorded): sent {} values", size, cycle, n, vals.len()), cfg.clone());
                    }
                    if *n > 0 {
                        let want = vals.len() as f64 / *n as f64;
                        if rate.map(|r| (r - want).abs() > 1e-9).unwrap_or(true) {
                            res.violation("sampled-flush-sample-rate-wrong", format!("reservoir {} cycle {} ({} recorded, {} sent): sample rate {:?}, expected {}", size, cycle, n, vals.len(), rate, want), cfg.clone());
                        }
                    }
                    states.add(&(size, *n, vals.len()));
                }
            }
        }
    }
    res.states = states.len();
    res.distinct_outcomes = states.len();
    res.sample(json!({"reservoir": 2, "recorded": [4, 1], "expected": "2 values @0.5, then 1 value @1"}));
}

/// E3: every sequence of updates and flushes up to the depth, sequentially, against an exact reference model
/// (sequentially the property leaves no freedom: each flush must send exactly the pending delta / zero discipline,
/// the current gauge value and the histogram values recorded since the previous flush).
fn seq_part(ctx: &Ctx, res: &mut PartResult, depth: usize, aggressive: bool, as_dist: bool) {
    res.engine = "E3 all update/flush sequences up to the depth through the real handles + State::flush + PayloadWriter vs. an exact reference model".into();
    let mut states = vcore::vseq::States::new();
    const OPS: [&str; 11] = ["flush", "ci.increment(3)", "ca.absolute(next)", "gau.set(2.5)", "gau.increment(1)", "gau.decrement(0.25)", "his.record(k)", "ci.increment(0)", "his.record x 70 (more than one bucket block)", "ci{route=b}.increment(3) (a second counter under the same name)", "ci.increment(u64::MAX - 7) (the running total passes 2^64: deltas are exact modulo 2^64)"];
    let mut run = |seq: &[usize]| -> Option<usize> {
        let (mut drv, rec) = Driver::new(aggressive, false, 16, as_dist, vec![], None, 8192, false);
        let ci = rec.register_counter(&Key::from_name("ci"), &META);
        let ca = rec.register_counter(&Key::from_name("ca"), &META);
        let cb = rec.register_counter(&Key::from_parts("ci", vec![metrics::Label::new("route", "b")]), &META);
        let (mut cb_pend, mut cb_idle, mut cb_ever) = (0u64, false, false);
        let g = rec.register_gauge(&Key::from_name("gau"), &META);
        let h = rec.register_histogram(&Key::from_name("his"), &META);
        // reference model
        let (mut ci_pend, mut ci_idle) = (0u64, false);
        let (mut ca_cur, mut ca_last, mut ca_idle, mut ca_abs) = (0u64, 0u64, false, false);
        // whether a zero is sent for a counter that has never changed since it was registered is not specified by the
        // property ("a counter that STOPS changing is sent as zero exactly once"): such zeros are neither demanded nor forbidden
        let (mut ci_ever, mut ca_ever) = (false, false);
        let mut gv = 0.0f64;
        let mut hv: Vec<f64> = Vec::new();
        let mut next_abs = 100u64;
        let mut next_rec = 1.0f64;
        let total = seq.len() + 2;
        for step in 0..total {
            let op = if step < seq.len() { seq[step] } else { 0 };
            match op {
                1 => {
                    ci.increment(3);
                    ci_pend = ci_pend.wrapping_add(3);
                }
                2 => {
                    ca.absolute(next_abs);
                    if !ca_abs {
                        ca_abs = true;
                        ca_last = next_abs;
                    }
                    ca_cur = next_abs;
                    next_abs += 5;
                }
                3 => {
                    g.set(2.5);
                    gv = 2.5;
                }
                4 => {
                    g.increment(1.0);
                    gv += 1.0;
                }
                5 => {
                    g.decrement(0.25);
                    gv -= 0.25;
                }
                6 => {
                    h.record(next_rec);
                    hv.push(next_rec);
                    next_rec += 1.0;
                }
                7 => ci.increment(0),
                10 => {
                    ci.increment(u64::MAX - 7);
                    ci_pend = ci_pend.wrapping_add(u64::MAX - 7);
                }
                9 => {
                    cb.increment(3);
                    cb_pend += 3;
                }
                8 => {
                    for _ in 0..70 {
                        h.record(next_rec);
                        hv.push(next_rec);
                        next_rec += 1.0;
                    }
                }
                _ => {
                    res.transitions += 1;
                    let payloads = drv.flush_once();
                    let mut msgs = Vec::new();
                    for p in &payloads {
                        match statsd::parse_message(p) {
                            Ok(m) => msgs.push(m),
                            Err(e) => {
                                res.violation("malformed-payload", format!("{} in {:?} after {:?}", e, String::from_utf8_lossy(p), &seq[..step.min(seq.len())]), json!({"seq": seq, "aggressive": aggressive, "as_dist": as_dist}));
                                return Some(step.min(seq.len() - 1));
                            }
                        }
                    }
                    let mut want: Vec<(String, char, Vec<String>)> = Vec::new();
                    // counters: pending delta, or one zero when it stops changing
                    if ci_pend > 0 {
                        want.push(("ci".into(), 'c', vec![ci_pend.to_string()]));
                        ci_idle = false;
                        ci_ever = true;
                        ci_pend = 0;
                    } else if ci_ever && !ci_idle {
                        want.push(("ci".into(), 'c', vec!["0".into()]));
                        ci_idle = true;
                    }
                    if cb_pend > 0 {
                        want.push(("ci#route:b".into(), 'c', vec![cb_pend.to_string()]));
                        cb_idle = false;
                        cb_ever = true;
                        cb_pend = 0;
                    } else if cb_ever && !cb_idle {
                        want.push(("ci#route:b".into(), 'c', vec!["0".into()]));
                        cb_idle = true;
                    }
                    let d = ca_cur - ca_last;
                    ca_last = ca_cur;
                    if d > 0 {
                        want.push(("ca".into(), 'c', vec![d.to_string()]));
                        ca_idle = false;
                        ca_ever = true;
                    } else if ca_ever && !ca_idle {
                        want.push(("ca".into(), 'c', vec!["0".into()]));
                        ca_idle = true;
                    }
                    want.push(("gau".into(), 'g', vec![format!("{:?}", gv)]));
                    if !hv.is_empty() {
                        want.push(("his".into(), if as_dist { 'd' } else { 'h' }, hv.iter().map(|v| format!("{:?}", v)).collect()));
                        hv.clear();
                    }
                    // a series is identified by its name and its tags
                    let mut got: Vec<(String, char, Vec<String>)> = msgs.iter().map(|m| (if m.tags.is_empty() { m.name.clone() } else { format!("{}#{}", m.name, m.tags.join(",")) }, m.ty, m.values.clone())).collect();
                    got.retain(|g| !(g.1 == 'c' && g.2 == ["0"] && ((g.0 == "ci" && !ci_ever) || (g.0 == "ca" && !ca_ever) || (g.0 == "ci#route:b" && !cb_ever))));
                    // numeric comparison for the gauge (formatting is C09's business)
                    for gt in got.iter_mut().filter(|x| x.1 == 'g') {
                        if let Ok(v) = gt.2[0].parse::<f64>() {
                            gt.2[0] = format!("{:?}", v);
                        }
                    }
                    for gt in got.iter_mut().filter(|x| x.1 == 'd' || x.1 == 'h') {
                        for v in gt.2.iter_mut() {
                            if let Ok(x) = v.parse::<f64>() {
                                *v = format!("{:?}", x);
                            }
                        }
                    }
                    // a histogram is flushed one bucket block (64 values) per message, newest block first: merge them; within
                    // one message the values keep their recording order
                    let his_msgs: Vec<Vec<String>> = got.iter().filter(|x| x.1 == 'd' || x.1 == 'h').map(|x| x.2.clone()).collect();
                    if his_msgs.len() > 1 {
                        let ty = if as_dist { 'd' } else { 'h' };
                        let ordered_inside = his_msgs.iter().all(|m| m.windows(2).all(|w| w[0].parse::<f64>().unwrap_or(f64::NAN) < w[1].parse::<f64>().unwrap_or(f64::NAN)));
                        let mut all: Vec<f64> = his_msgs.iter().flatten().map(|v| v.parse::<f64>().unwrap_or(f64::NAN)).collect();
                        all.sort_by(|a, b| a.partial_cmp(b).unwrap_or(std::cmp::Ordering::Equal));
                        got.retain(|x| !(x.1 == 'd' || x.1 == 'h'));
                        let mut merged: Vec<String> = all.iter().map(|v| format!("{:?}", v)).collect();
                        if !ordered_inside {
                            merged.push("values-out-of-recording-order-inside-one-message".into());
                        }
                        got.push(("his".into(), ty, merged));
                    }
                    got.sort();
                    want.sort();
                    states.add(&got);
                    let cfg = json!({"seq": seq, "aggressive": aggressive, "as_dist": as_dist});
                    if got != want {
                        let names: Vec<&str> = seq[..step.min(seq.len())].iter().map(|o| OPS[*o]).collect();
                        res.violation("sequential-flush-differs-from-reference", format!("after [{}] the flush sent {:?}, expected {:?}", names.join(", "), got, want), cfg);
                        return Some(step.min(seq.len() - 1));
                    }
                    for m in &msgs {
                        let want_ts = aggressive && (m.ty == 'c' || m.ty == 'g');
                        if m.ts.is_some() != want_ts || m.rate.is_some() {
                            res.violation("timestamp-mode-mismatch", format!("{:?} message: timestamp {:?}, tags {:?}, rate {:?} in {} mode with sampling off", m.ty, m.ts, m.tags, m.rate, if aggressive { "Aggressive" } else { "Conservative" }), cfg.clone());
                            return Some(step.min(seq.len() - 1));
                        }
                    }
                }
            }
        }
        None
    };
    let (n, complete) = vcore::vseq::for_each_seq(OPS.len(), depth, &mut run, &|| ctx.over_budget());
    res.executions = n;
    if !complete {
        res.exhaustive = false;
        res.cap_hit = Some("budget (cpu time of the part)".into());
    }
    res.states = states.len();
    res.distinct_outcomes = states.len();
    res.bound = json!({"depth": depth, "alphabet": OPS, "aggressive": aggressive, "as_distributions": as_dist, "then": "2 more flushes"});
    res.sample(json!({"sequence": ["ci.increment(3)", "flush", "flush", "flush", "ci.increment(3)", "flush"], "expected_ci": "3, 0, (nothing), 3"}));
}

/// E4, fault history on the stream transport: the agent accepts the connection and then does not read for a while, so a
/// payload larger than the socket buffer is cut short by the write timeout; afterwards the agent reads everything from
/// every connection it was given. Whatever the exporter does about the failed write (the code closes the connection and
/// opens a new one), every byte stream the agent receives must be whole length-prefixed frames, each a well-formed
/// message; only a stream the exporter has closed may end in a cut-off frame.
fn stalled_agent_part(ctx: &Ctx, res: &mut PartResult) {
    use std::io::Read;
    res.engine = "E4 scripted fault history: stalled agent on the unix stream transport, payload larger than the socket buffer, write timeout".into();
    let mut states = vcore::vseq::States::new();
    for (timeout_ms, stall_ms) in [(100u64, 1200u64), (60, 700)] {
        res.executions += 1;
        let path = ctx.run_dir().join(format!("c10-stall-{}-{}.sock", std::process::id(), timeout_ms));
        let _ = std::fs::remove_file(&path);
        let cfg = json!({"stalled": true, "timeout_ms": timeout_ms, "stall_ms": stall_ms});
        let l = match std::os::unix::net::UnixListener::bind(&path) {
            Ok(l) => l,
            Err(e) => {
                res.error = Some(format!("bind: {}", e));
                return;
            }
        };
        l.set_nonblocking(true).unwrap();
        let rec = match DogStatsDBuilder::default().with_remote_address(format!("unix://{}", path.display())).and_then(|b| b.with_maximum_payload_length(4 << 20)) {
            Ok(b) => match b.with_flush_interval(Duration::from_millis(40)).with_write_timeout(Duration::from_millis(timeout_ms)).with_telemetry(false).with_histogram_sampling(true).with_histogram_reservoir_size(65536).build() {
                Ok(r) => r,
                Err(e) => {
                    res.error = Some(format!("build: {}", e));
                    return;
                }
            },
            Err(e) => {
                res.error = Some(format!("builder: {}", e));
                return;
            }
        };
        let h = rec.register_histogram(&Key::from_name("his"), &META);
        // one message of ~650 KB (a full reservoir of 65536 sampled values; without sampling a histogram is written in
        // messages of at most one 64-value block, which the kernel sends atomically): far more than a unix socket buffer holds
        for _ in 0..70_000 {
            h.record(1234.5678);
        }
        res.transitions += 1;
        // the agent: accepts, but reads nothing during the stall
        let mut conns: Vec<(std::os::unix::net::UnixStream, Vec<u8>, bool)> = Vec::new();
        let t0 = Instant::now();
        let mut second_batch = false;
        let mut last_byte = Instant::now();
        loop {
            while let Ok((c, _)) = l.accept() {
                c.set_nonblocking(true).unwrap();
                conns.push((c, Vec::new(), false));
                last_byte = Instant::now();
            }
            let stalled = t0.elapsed() < Duration::from_millis(stall_ms);
            if !stalled {
                if !second_batch {
                    // enough later traffic to run past anything a cut-off frame announced
                    second_batch = true;
                    for _ in 0..70_000 {
                        h.record(8765.4321);
                    }
                    res.transitions += 1;
                }
                for (c, buf, eof) in conns.iter_mut() {
                    if *eof {
                        continue;
                    }
                    let mut tmp = [0u8; 65536];
                    loop {
                        match c.read(&mut tmp) {
                            Ok(0) => {
                                *eof = true;
                                break;
                            }
                            Ok(n) => {
                                buf.extend_from_slice(&tmp[..n]);
                                last_byte = Instant::now();
                            }
                            Err(_) => break,
                        }
                    }
                }
                if second_batch && last_byte.elapsed() > Duration::from_millis(700) {
                    break;
                }
            }
            if t0.elapsed() > Duration::from_secs(30) {
                break;
            }
            std::thread::sleep(Duration::from_millis(5));
        }
        if std::env::var("C10_DEBUG").is_ok() {
            for (ci, (_, buf, eof)) in conns.iter().enumerate() {
                eprintln!("conn {}: {} bytes eof={} first frame len {:?}", ci, buf.len(), eof, buf.get(..4).map(|b| u32::from_le_bytes([b[0], b[1], b[2], b[3]])));
            }
        }
        // judge every stream
        let mut whole = 0usize;
        let mut vals = 0usize;
        for (ci, (_, buf, eof)) in conns.iter().enumerate() {
            let mut b: &[u8] = buf;
            let mut fi = 0;
            while !b.is_empty() {
                let cut = b.len() < 4 || b.len() - 4 < u32::from_le_bytes([b[0], b[1], b[2], b[3]]) as usize;
                if cut {
                    if !*eof {
                        res.violation("stream-framing-corrupted", format!("connection {} is still open and idle but ends in the middle of a frame ({} bytes of frame {}) (write timeout {} ms, agent stalled {} ms)", ci, b.len(), fi, timeout_ms, stall_ms), cfg.clone());
                    }
                    break;
                }
                let n = u32::from_le_bytes([b[0], b[1], b[2], b[3]]) as usize;
                match statsd::parse_message(&b[4..4 + n]) {
                    Ok(m) if m.name == "his" && !m.values.is_empty() && m.values.iter().all(|v| v == "1234.5678" || v == "8765.4321") => {
                        whole += 1;
                        vals += m.values.len();
                    }
                    Ok(m) => {
                        res.violation("stream-framing-corrupted", format!("connection {} frame {}: message {} with {} values is not what was recorded", ci, fi, m.name, m.values.len()), cfg.clone());
                        break;
                    }
                    Err(e) => {
                        res.violation("stream-framing-corrupted", format!("connection {} frame {} (announced length {}): not a well-formed message: {} (write timeout {} ms, agent stalled {} ms: a frame cut short by the timeout must not be continued on the same connection)", ci, fi, n, e.chars().take(120).collect::<String>(), timeout_ms, stall_ms), cfg.clone());
                        break;
                    }
                }
                b = &b[4 + n..];
                fi += 1;
            }
        }
        if whole == 0 {
            res.violation("nothing-delivered-after-agent-resumed", format!("{} connection(s), no whole frame received although the agent read everything for 700 ms after it resumed", conns.len()), cfg.clone());
        }
        states.add(&(conns.len().min(3), whole.min(3), vals > 65_536));
        drop(rec);
        let _ = std::fs::remove_file(&path);
    }
    res.states = states.len();
    res.distinct_outcomes = states.len();
    res.sample(json!({"history": "70000 values recorded into a sampling reservoir of 65536 (one ~650 KB message per flush); agent accepts and stalls 1.2 s (write timeout 100 ms); 70000 more values; agent reads all connections", "expected": "every stream = whole well-formed frames; a cut-off frame only at the end of a closed stream"}));
}

/// E4, flush cadence: a flush interval far shorter than it takes to send everything one flush produces (1 ms, 150
/// counters and 20 histograms updated in bursts) over the lossless datagram transport: whatever the forwarder's pacing
/// does, what the agent receives adds up — every counter's deltas to its increments, every histogram's values to the
/// values recorded.
fn short_interval_part(ctx: &Ctx, res: &mut PartResult) {
    res.engine = "E4 scripted history: flush interval of 1 ms against 170 metrics updated in bursts, unixgram transport".into();
    res.executions = 1;
    let path = ctx.run_dir().join(format!("c10-cadence-{}.sock", std::process::id()));
    let _ = std::fs::remove_file(&path);
    let sock = match std::os::unix::net::UnixDatagram::bind(&path) {
        Ok(s) => s,
        Err(e) => {
            res.error = Some(format!("bind: {}", e));
            return;
        }
    };
    sock.set_read_timeout(Some(Duration::from_millis(50))).unwrap();
    let rec = match DogStatsDBuilder::default().with_remote_address(format!("unixgram://{}", path.display())).map(|b| b.with_flush_interval(Duration::from_millis(1)).with_telemetry(false).send_histograms_as_distributions(true)).and_then(|b| b.build()) {
        Ok(r) => r,
        Err(e) => {
            res.error = Some(format!("build: {}", e));
            return;
        }
    };
    const NC: usize = 150;
    const NH: usize = 20;
    const BURSTS: u64 = 5;
    let done = Arc::new(std::sync::atomic::AtomicBool::new(false));
    let done2 = done.clone();
    let agent = std::thread::spawn(move || {
        let mut csum: BTreeMap<String, u128> = BTreeMap::new();
        let mut hcnt: BTreeMap<String, usize> = BTreeMap::new();
        let mut bad: Option<String> = None;
        let mut msgs = 0usize;
        let mut quiet_since = Instant::now();
        let mut buf = vec![0u8; 65536];
        loop {
            match sock.recv(&mut buf) {
                Ok(n) => {
                    quiet_since = Instant::now();
                    for line in buf[..n].split(|b| *b == b'\n').filter(|l| !l.is_empty()) {
                        let mut l = line.to_vec();
                        l.push(b'\n');
                        match statsd::parse_message(&l) {
                            Ok(m) => {
                                msgs += 1;
                                if m.ty == 'c' {
                                    *csum.entry(m.name.clone()).or_insert(0) += m.values[0].parse::<u128>().unwrap_or(u128::MAX / 4);
                                } else if m.ty == 'd' {
                                    *hcnt.entry(m.name.clone()).or_insert(0) += m.values.len();
                                }
                            }
                            Err(e) => bad = Some(format!("{} in {:?}", e, String::from_utf8_lossy(&l))),
                        }
                    }
                }
                Err(_) => {
                    if done2.load(Ordering::SeqCst) && quiet_since.elapsed() > Duration::from_millis(2500) {
                        break;
                    }
                }
            }
        }
        (csum, hcnt, bad, msgs)
    });
    let cs: Vec<metrics::Counter> = (0..NC).map(|i| rec.register_counter(&Key::from_name(format!("cad_c{}", i)), &META)).collect();
    let hs: Vec<metrics::Histogram> = (0..NH).map(|i| rec.register_histogram(&Key::from_name(format!("cad_h{}", i)), &META)).collect();
    for b in 0..BURSTS {
        for c in &cs {
            c.increment(b + 1);
        }
        for h in &hs {
            h.record(b as f64 + 0.5);
            h.record(b as f64 + 1.5);
        }
        res.transitions += 1;
        std::thread::sleep(Duration::from_millis(30));
    }
    std::thread::sleep(Duration::from_millis(300));
    done.store(true, Ordering::SeqCst);
    let (csum, hcnt, bad, msgs) = agent.join().unwrap();
    drop(rec);
    let _ = std::fs::remove_file(&path);
    let cfg = json!({"cadence": true});
    if let Some(b) = bad {
        res.violation("malformed-payload", b, cfg.clone());
    }
    let want_c: u128 = (1..=BURSTS as u128).sum();
    let bad_c: Vec<String> = (0..NC).map(|i| format!("cad_c{}", i)).filter(|n| csum.get(n).copied().unwrap_or(0) != want_c).collect();
    let bad_h: Vec<String> = (0..NH).map(|i| format!("cad_h{}", i)).filter(|n| hcnt.get(n).copied().unwrap_or(0) != 2 * BURSTS as usize).collect();
    if !bad_c.is_empty() {
        res.violation("counter-deltas-do-not-add-up", format!("flush interval 1 ms, {} messages received: the deltas of {} of {} counters do not add up to the {} incremented (e.g. {}: {:?})", msgs, bad_c.len(), NC, want_c, bad_c[0], csum.get(&bad_c[0])), cfg.clone());
    }
    if !bad_h.is_empty() {
        res.violation("histogram-value-not-sent-exactly-once", format!("flush interval 1 ms, {} messages received: {} of {} histograms did not get their {} values through (e.g. {}: {:?})", msgs, bad_h.len(), NH, 2 * BURSTS, bad_h[0], hcnt.get(&bad_h[0])), cfg);
    }
    res.states = 1;
    res.distinct_outcomes = 1;
    res.sample(json!({"history": "5 bursts over 150 counters and 20 histograms, flush every 1 ms, unixgram", "expected": "all deltas and values add up at the agent"}));
}

/// Many keys of every kind in ONE flush, under a global prefix and global labels, for several fresh exporters and
/// several flush rounds each (the order in which a flush visits the keys is the iteration order of a hash map): every
/// key's counter deltas add up to its increments under its own full name, every gauge / histogram arrives under its
/// own name, and nothing arrives under any other name. Keys in the exporter's own telemetry namespace are part of the
/// population (whether those carry the prefix is not judged here, only that the others always do).
fn many_keys_part(res: &mut PartResult) {
    res.engine = "E3 flush rounds over a population of keys through State::flush + PayloadWriter".into();
    let mut states = vcore::vseq::States::new();
    let names = ["a", "b", "requests", "datadog.dogstatsd.client.user", "datadog", "c.d", "e", "f", "datadog.dogstatsd.client.packets_sent", "g"];
    for (prefix, global) in [(Some("pre"), true), (Some("app"), false), (None, true)] {
        for inst in 0..8 {
            let gl = if global { vec![metrics::Label::new("g", "1")] } else { vec![] };
            let (mut drv, rec) = Driver::new(inst % 2 == 1, false, 16, true, gl, prefix.map(|p| p.to_string()), 8192, false);
            let mut sent: BTreeMap<(char, String), Vec<String>> = BTreeMap::new();
            let mut want: BTreeMap<(char, String), Vec<String>> = BTreeMap::new();
            let mut totals: BTreeMap<String, u64> = BTreeMap::new();
            for round in 0..3u64 {
                for (ni, name) in names.iter().enumerate() {
                    let key = Key::from_name(name.to_string());
                    let full = match prefix {
                        Some(p) => format!("{}.{}", p, name),
                        None => name.to_string(),
                    };
                    if (ni as u64 + round) % 3 != 0 {
                        let d = 1 + ni as u64 + 10 * round;
                        rec.register_counter(&key, &META).increment(d);
                        *totals.entry(full.clone()).or_insert(0) += d;
                    }
                    if (ni as u64 + round) % 4 == 0 {
                        let v = ni as f64 + 0.5 + round as f64;
                        rec.register_gauge(&key, &META).set(v);
                        want.entry(('g', full.clone())).or_default().push(format!("{}", v));
                    }
                    if (ni as u64 + round) % 5 == 0 {
                        let v = ni as f64 + 0.25;
                        rec.register_histogram(&key, &META).record(v);
                        want.entry(('d', full.clone())).or_default().push(format!("{}", v));
                    }
                }
                res.executions += 1;
                res.transitions += names.len() as u64;
                for p in drv.flush_once() {
                    for line in p.split_inclusive(|b| *b == b'\n') {
                        match statsd::parse_message(line) {
                            Ok(m) => sent.entry((m.ty, m.name.clone())).or_default().extend(m.values.clone()),
                            Err(e) => {
                                res.violation("payload-not-parseable", format!("{:?}: {}", String::from_utf8_lossy(line), e), json!({"many_keys": inst}));
                                return;
                            }
                        }
                    }
                }
            }
            states.add(&(prefix.is_some(), global, sent.len()));
            let exempt = |n: &str| n.contains("datadog.dogstatsd.client");
            let cfg = json!({"many_keys": inst, "prefix": format!("{:?}", prefix)});
            // counters: per wire name the deltas add up to the increments; no other name receives anything
            let mut got_totals: BTreeMap<String, u64> = BTreeMap::new();
            for ((ty, name), vals) in &sent {
                if *ty == 'c' {
                    *got_totals.entry(name.clone()).or_insert(0) += vals.iter().map(|v| v.parse::<u64>().unwrap_or(u64::MAX / 4)).sum::<u64>();
                }
            }
            for (name, t) in &totals {
                if exempt(name) {
                    continue;
                }
                let got = got_totals.get(name).cloned().unwrap_or(0);
                if got != *t {
                    res.violation("counter-sum-wrong", format!("prefix {:?}, exporter {} ({} keys per flush, 3 flushes): counter {:?} received deltas adding up to {}, its increments add up to {}; everything received: {:?}", prefix, inst, names.len(), name, got, t, got_totals), cfg.clone());
                    break;
                }
            }
            for ((ty, name), vals) in &sent {
                if exempt(name) {
                    continue;
                }
                let known = match ty {
                    'c' => totals.contains_key(name),
                    _ => want.get(&(*ty, name.clone())).map_or(false, |w| {
                        let mut a = w.clone();
                        let mut b = vals.clone();
                        a.sort();
                        b.sort();
                        // a gauge is sent once per flush after its last set; a histogram sends every value once
                        if *ty == 'g' { b.iter().all(|x| a.contains(x)) } else { a == b }
                    }),
                };
                if !known {
                    res.violation("message-for-a-key-nobody-wrote", format!("prefix {:?}, exporter {}: the flushes sent {:?} values {:?} under the name {:?}, which is not the full name of any key written (or not its values); written: counters {:?}, others {:?}", prefix, inst, ty, vals, name, totals.keys().collect::<Vec<_>>(), want.keys().collect::<Vec<_>>()), cfg.clone());
                    break;
                }
            }
            for ((ty, name), w) in &want {
                if exempt(name) || *ty == 'g' {
                    continue;
                }
                if sent.get(&(*ty, name.clone())).map_or(0, |v| v.len()) != w.len() {
                    res.violation("histogram-values-lost-or-duplicated", format!("prefix {:?}, exporter {}: {:?} got {:?}, recorded {:?}", prefix, inst, name, sent.get(&(*ty, name.clone())), w), cfg.clone());
                    break;
                }
            }
        }
    }
    res.states = states.len();
    res.distinct_outcomes = states.len();
    res.sample(json!({"keys_per_flush": 10, "exporters": 24, "flushes_each": 3, "expected": "every non-telemetry key only ever under prefix.name"}));
}

fn parts(ctx: &Ctx) -> Vec<PartSpec> {
    let e1 = |s: &str, pb: u64| PartSpec::new(&format!("e1-{}-pb{}", s, pb), json!({"e1": s, "pb": pb})).cpus("0");
    let mut v = vec![PartSpec::new("e4-sockets", json!({"e4": true})).budget(120.0), PartSpec::new("e3-sampling-on", json!({"sampling": true})), PartSpec::new("e3-many-keys-one-flush", json!({"many_keys": true})), PartSpec::new("e4-stalled-agent", json!({"stalled": true})).budget(120.0), PartSpec::new("e4-short-flush-interval", json!({"cadence": true})).budget(120.0)];
    let d = if ctx.quick() { 5 } else { 7 };
    v.push(PartSpec::new(&format!("e3-seq-d{}-conservative-dist", d), json!({"seq": d, "aggressive": false, "as_dist": true})).budget(if ctx.quick() { 150.0 } else { 2400.0 }));
    v.push(PartSpec::new(&format!("e3-seq-d{}-aggressive-hist", d - 1), json!({"seq": d - 1, "aggressive": true, "as_dist": false})).budget(if ctx.quick() { 150.0 } else { 2400.0 }));
    if ctx.quick() {
        v.push(PartSpec::new("e1-first-registration-race-pb2", json!({"e1reg": 2})).cpus("0"));
        v.extend([e1("inc", 2), e1("abs", 2), e1("gauge", 2), e1("gauge-arith", 2), e1("hist", 2), e1("inc-aggressive", 1)]);
    } else {
        v.push(PartSpec::new("e1-first-registration-race-pb3", json!({"e1reg": 3})).cpus("0").budget(1500.0));
        v.extend([e1("inc", 4).budget(1500.0), e1("abs", 4).budget(1500.0), e1("gauge", 4).budget(1500.0), e1("gauge-arith", 3).budget(1500.0), e1("hist", 3).budget(1500.0), e1("inc2", 3).budget(1500.0), e1("abs3", 3).budget(1500.0), e1("mixed", 3).budget(1500.0), e1("inc-aggressive", 2)]);
    }
    v
}

fn run(ctx: &Ctx, spec: &PartSpec) -> PartResult {
    let mut res = PartResult::new(&spec.name, "");
    if spec.arg["e4"].as_bool() == Some(true) {
        e4(ctx, &mut res);
        return res;
    }
    if spec.arg["cadence"].as_bool() == Some(true) {
        short_interval_part(ctx, &mut res);
        return res;
    }
    if spec.arg["stalled"].as_bool() == Some(true) {
        stalled_agent_part(ctx, &mut res);
        return res;
    }
    if spec.arg["many_keys"].as_bool() == Some(true) {
        many_keys_part(&mut res);
        return res;
    }
    if spec.arg["sampling"].as_bool() == Some(true) {
        sampling_part(&mut res);
        return res;
    }
    if let Some(d) = spec.arg["seq"].as_u64() {
        seq_part(ctx, &mut res, d as usize, spec.arg["aggressive"].as_bool().unwrap_or(false), spec.arg["as_dist"].as_bool().unwrap_or(true));
        return res;
    }
    if let Some(pb) = spec.arg["e1reg"].as_u64() {
        vsched::explore(&registration_scenario(), &Cfg { max_bound: pb as usize, horizon: 20000 }, ctx, &mut res);
        return res;
    }
    let pb = spec.arg["pb"].as_u64().unwrap_or(2) as usize;
    let scn = match spec.arg["e1"].as_str().unwrap_or("") {
        "inc" => scenario("updater inc(3),inc(4) || flusher x2; 1 initial + 3 final flushes", false, vec![vec![Upd::Inc(3), Upd::Inc(4)]], 2),
        "inc-aggressive" => scenario("Aggressive mode: updater inc(3) || flusher x1", true, vec![vec![Upd::Inc(3), Upd::Set(1.5)]], 1),
        "inc2" => scenario("2 updaters inc(3),inc(4) | inc(5) || flusher x2", false, vec![vec![Upd::Inc(3), Upd::Inc(4)], vec![Upd::Inc(5)]], 2),
        "abs" => scenario("updater abs(100),abs(105) || flusher x2", false, vec![vec![Upd::Abs(100), Upd::Abs(105)]], 2),
        "abs3" => scenario("updater abs(100),abs(105),abs(110) || flusher x3", false, vec![vec![Upd::Abs(100), Upd::Abs(105), Upd::Abs(110)]], 3),
        "gauge" => scenario("updater set(1.5),set(2.5) || flusher x2", false, vec![vec![Upd::Set(1.5), Upd::Set(2.5)]], 2),
        "gauge-arith" => scenario("updaters set(1.0),inc(0.5) | dec(0.25) || flusher x2", false, vec![vec![Upd::Set(1.0), Upd::GInc(0.5)], vec![Upd::GDec(0.25)]], 2),
        "hist" => scenario("updater rec(1),rec(2) || flusher x2", false, vec![vec![Upd::Rec(1.0), Upd::Rec(2.0)]], 2),
        _ => scenario("updater inc(3),set(1.5) | rec(1),inc(4) || flusher x2", false, vec![vec![Upd::Inc(3), Upd::Set(1.5)], vec![Upd::Rec(1.0), Upd::Inc(4)]], 2),
    };
    vsched::explore(&scn, &Cfg { max_bound: pb, horizon: 20000 }, ctx, &mut res);
    res
}

fn main() {
    driver::main(CheckDef {
        prop: "C10",
        level: "model_checking",
        rule: "E1: every SC interleaving (pb-bounded; 1 registry shard) of updater threads (increment / absolute / set / record through real handles) with a flusher thread driving the real State::flush + PayloadWriter, one initial and three final sequential flushes; every payload parsed by an independent DogStatsD parser; oracle: delta conservation, per-flush upper bound, zero discipline, most-recent gauge, histogram exactly-once, timestamp per documented mode; E3: every sequence (depth 5 quick / 7 thorough) over {flush, ci.increment(3), ci.increment(0), ci.increment(u64::MAX - 7), ca.absolute(next), a second counter of the same name with a label, gau.set, gau.increment, gau.decrement, his.record, 70 records at once} + 2 final flushes, sequentially, against an exact reference model of what each flush must send; E4: transports {unix stream, unixgram, udp} x modes x prefix/labels/distribution configurations through the real forwarder thread into real sockets (framing, one message per datagram/frame, timestamp), and a fault history on the stream transport (agent stalls, a payload larger than the socket buffer is cut short by the write timeout, agent resumes: every stream received is whole well-formed frames), and a flush interval of 1 ms against 170 metrics updated in bursts (everything adds up at the agent); distinct = distinct send sequences / received message sets; E3 many keys: 10 keys of every kind (two of them in the exporter's telemetry namespace) written and flushed 3 times on 8 fresh exporters for 3 prefix / global-label configurations: per full wire name the counter deltas add up to the increments, histogram values arrive once, nothing arrives under any other name; E1 first registration: two threads register the same new counter and histogram key through the recorder and update through their own handles while a third flushes: every increment and value is sent exactly once",
        assumptions: &["E1: sequential consistency; the flush is driven synchronously (Driver::flush_once) instead of by the sleeping forwarder thread", "E4: the forwarder thread's flush cadence is timing-driven (40 ms); only framing/content/timestamps are judged there, with a 20 s timeout reported as a violation of 'the agent socket receives these messages'"],
        parts,
        run,
    });
}
