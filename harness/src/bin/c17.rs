//! C17 — span fields become labels with metric > inner span > outer span precedence (E3).
use metrics::{Counter, Gauge, Histogram, Key, KeyName, Label, Level, Metadata, Recorder, SharedString, Unit};
use metrics_tracing_context::{LabelFilter, MetricsLayer, TracingContextLayer};
use metrics_util::layers::Layer;
use std::collections::BTreeMap;
use std::sync::{Arc, Mutex};
use tracing::field::Empty;
use tracing::{Dispatch, Span};
use tracing_subscriber::layer::SubscriberExt;
use vcore::driver::{self, CheckDef, Ctx, PartResult, PartSpec};
use vcore::json;
use vcore::vseq;

static META: Metadata<'static> = Metadata::new("t", Level::INFO, None);
type Log = Arc<Mutex<Vec<Vec<(String, String)>>>>;

struct LogRec(Log);
impl LogRec {
    fn put(&self, k: &Key) {
        self.0.lock().unwrap().push(k.labels().map(|l| (l.key().to_string(), l.value().to_string())).collect());
    }
}
static DESCRIBED: Mutex<Vec<String>> = Mutex::new(Vec::new());
impl Recorder for LogRec {
    fn describe_counter(&self, k: KeyName, u: Option<Unit>, d: SharedString) {
        DESCRIBED.lock().unwrap().push(format!("counter {} {:?} {}", k.as_str(), u, d));
    }
    fn describe_gauge(&self, k: KeyName, u: Option<Unit>, d: SharedString) {
        DESCRIBED.lock().unwrap().push(format!("gauge {} {:?} {}", k.as_str(), u, d));
    }
    fn describe_histogram(&self, k: KeyName, u: Option<Unit>, d: SharedString) {
        DESCRIBED.lock().unwrap().push(format!("histogram {} {:?} {}", k.as_str(), u, d));
    }
    fn register_counter(&self, k: &Key, _: &Metadata<'_>) -> Counter {
        self.put(k);
        Counter::noop()
    }
    fn register_gauge(&self, k: &Key, _: &Metadata<'_>) -> Gauge {
        self.put(k);
        Gauge::noop()
    }
    fn register_histogram(&self, k: &Key, _: &Metadata<'_>) -> Histogram {
        self.put(k);
        Histogram::noop()
    }
}

/// custom filter: drops label `b` for the metric named "mx", admits everything else
#[derive(Clone)]
struct Custom;
impl LabelFilter for Custom {
    fn should_include_label(&self, name: &KeyName, label: &Label) -> bool {
        !(name.as_str() == "mx" && label.key() == "b")
    }
}

#[derive(Clone, Debug)]
enum Filter {
    All,
    Allow(Vec<&'static str>),
    Custom,
}
impl Filter {
    fn admits(&self, metric: &str, label: &str) -> bool {
        match self {
            Filter::All => true,
            Filter::Allow(v) => v.contains(&label),
            Filter::Custom => !(metric == "mx" && label == "b"),
        }
    }
    fn build(&self, log: Log) -> Box<dyn Recorder> {
        match self {
            Filter::All => Box::new(TracingContextLayer::all().layer(LogRec(log))),
            Filter::Allow(v) => Box::new(TracingContextLayer::only_allow(v.iter()).layer(LogRec(log))),
            Filter::Custom => Box::new(TracingContextLayer::new(Custom).layer(LogRec(log))),
        }
    }
}

/// one level of a span tree
#[derive(Clone, Copy, Debug)]
struct Lvl {
    /// bit 0: field a given at creation, bit 1: field b given at creation
    create: u8,
    /// later record(): 0 none, 1 = a, 2 = b, 3 = a and b in ONE record (Span::record_all with a two-field value set)
    record: u8,
    /// false: recorded right after creation; true: recorded after the child span (if any) was created
    late: bool,
}

fn mk_span(l: &Lvl, level: usize) -> Span {
    let (va, vb) = (format!("L{}a", level), format!("L{}b", level));
    match l.create {
        0 => tracing::info_span!("s", a = Empty, b = Empty),
        1 => tracing::info_span!("s", a = va.as_str(), b = Empty),
        2 => tracing::info_span!("s", a = Empty, b = vb.as_str()),
        4 => tracing::info_span!("s"), // a callsite that declares no fields at all
        8 => tracing::info_span!("s", a = "", b = Empty), // an empty string is a value: it shadows an outer a like any other
        _ => tracing::info_span!("s", a = va.as_str(), b = vb.as_str()),
    }
}
fn do_record(span: &Span, l: &Lvl, level: usize) {
    match l.record {
        1 => {
            span.record("a", format!("R{}a", level).as_str());
        }
        2 => {
            span.record("b", format!("R{}b", level).as_str());
        }
        3 => {
            if let Some(meta) = span.metadata() {
                let fs = meta.fields();
                if let (Some(fa), Some(fb)) = (fs.field("a"), fs.field("b")) {
                    let (va, vb) = (format!("R{}a", level), format!("R{}b", level));
                    span.record_all(&fs.value_set(&[(&fa, Some(&va.as_str() as &dyn tracing::field::Value)), (&fb, Some(&vb.as_str() as &dyn tracing::field::Value))]));
                }
            }
        }
        _ => {}
    }
}

struct Env<'a> {
    rec: &'a dyn Recorder,
    log: &'a Log,
    filter: &'a Filter,
    fails: &'a mut Vec<(String, String)>,
    checks: &'a mut u64,
    states: &'a mut vseq::States,
    tree: &'a [Lvl],
}

/// emits metrics with every own-label set ⊆ {a, c} and compares with the reference for the visible span labels
fn emit_and_check(env: &mut Env<'_>, visible: Option<&BTreeMap<String, String>>, at: &str) {
    for metric in ["m", "mx"] {
        for own in 0..4u8 {
            let mut labels = Vec::new();
            if own & 1 != 0 {
                labels.push(Label::new("a", "Ma"));
            }
            if own & 2 != 0 {
                labels.push(Label::new("c", "Mc"));
            }
            let key = Key::from_parts(metric, labels.clone());
            env.log.lock().unwrap().clear();
            match own % 3 {
                0 => drop(env.rec.register_counter(&key, &META)),
                1 => drop(env.rec.register_gauge(&key, &META)),
                _ => drop(env.rec.register_histogram(&key, &META)),
            }
            *env.checks += 1;
            let got_raw = env.log.lock().unwrap().clone();
            let mut want: BTreeMap<String, String> = BTreeMap::new();
            if let Some(v) = visible {
                for (k, val) in v {
                    if env.filter.admits(metric, k) {
                        want.insert(k.clone(), val.clone());
                    }
                }
            }
            for l in &labels {
                want.insert(l.key().to_string(), l.value().to_string());
            }
            let want_v: Vec<(String, String)> = want.into_iter().collect();
            let mut bad: Option<(&str, String)> = None;
            if got_raw.len() != 1 {
                bad = Some(("metric-not-forwarded-exactly-once", format!("{} registrations reached the inner recorder", got_raw.len())));
            } else {
                let mut got = got_raw[0].clone();
                let names: std::collections::BTreeSet<&String> = got.iter().map(|g| &g.0).collect();
                if names.len() != got.len() {
                    bad = Some(("label-name-repeated-in-key", format!("resulting key has labels {:?}", got)));
                } else {
                    got.sort();
                    env.states.add(&got);
                    if got != want_v {
                        let sig = if visible.is_none() { "key-changed-without-current-span" } else { "span-label-precedence-wrong" };
                        bad = Some((sig, format!("resulting labels {:?}, expected {:?}", got, want_v)));
                    }
                }
            }
            if let Some((sig, msg)) = bad {
                if env.fails.len() < 8 {
                    env.fails.push((sig.to_string(), format!("tree {:?}, filter {:?}, metric {} with own labels {:?}, emitted {}: {}", env.tree, env.filter, metric, labels.iter().map(|l| l.key()).collect::<Vec<_>>(), at, msg)));
                }
            }
        }
    }
}

/// reference + real, recursively: `parent` = labels of the enclosing span as of now (None at top level)
fn walk(env: &mut Env<'_>, depth: usize, parent_labels: Option<BTreeMap<String, String>>) {
    if depth >= env.tree.len() {
        return;
    }
    let l = env.tree[depth];
    let span = mk_span(&l, depth);
    // reference: own creation fields, then the parent's labels (as of now) for names not already present
    let mut mine: BTreeMap<String, String> = BTreeMap::new();
    if l.create & 1 != 0 {
        mine.insert("a".into(), format!("L{}a", depth));
    }
    if l.create & 2 != 0 {
        mine.insert("b".into(), format!("L{}b", depth));
    }
    if l.create == 8 {
        mine.insert("a".into(), String::new());
    }
    if let Some(p) = &parent_labels {
        for (k, v) in p {
            mine.entry(k.clone()).or_insert(v.clone());
        }
    }
    let apply_record = |m: &mut BTreeMap<String, String>| match l.record {
        1 => {
            m.insert("a".into(), format!("R{}a", depth));
        }
        2 => {
            m.insert("b".into(), format!("R{}b", depth));
        }
        3 => {
            m.insert("a".into(), format!("R{}a", depth));
            m.insert("b".into(), format!("R{}b", depth));
        }
        _ => {}
    };
    if !l.late {
        do_record(&span, &l, depth);
        apply_record(&mut mine);
    }
    {
        let _g = span.enter();
        emit_and_check(env, Some(&mine), &format!("inside level {}", depth));
        // the child sees this span's labels as they are when the child is created
        let snapshot = mine.clone();
        if l.late {
            // child first, then the late record on this span: it must not reach the (already created) child
            walk_child_then_record(env, depth, &span, &l, snapshot, &mut mine, &apply_record);
        } else {
            walk(env, depth + 1, Some(snapshot));
        }
        emit_and_check(env, Some(&mine), &format!("inside level {} after its subtree", depth));
    }
    // after leaving the span the enclosing span (if any) is current again
    emit_and_check(env, parent_labels.as_ref(), &format!("after leaving level {}", depth));
}

fn walk_child_then_record(env: &mut Env<'_>, depth: usize, span: &Span, l: &Lvl, snapshot: BTreeMap<String, String>, mine: &mut BTreeMap<String, String>, apply_record: &dyn Fn(&mut BTreeMap<String, String>)) {
    if depth + 1 < env.tree.len() {
        // create the child, then record on the parent while the child is entered
        let cl = env.tree[depth + 1];
        let child = mk_span(&cl, depth + 1);
        let mut cm: BTreeMap<String, String> = BTreeMap::new();
        if cl.create & 1 != 0 {
            cm.insert("a".into(), format!("L{}a", depth + 1));
        }
        if cl.create & 2 != 0 {
            cm.insert("b".into(), format!("L{}b", depth + 1));
        }
        if cl.create == 8 {
            cm.insert("a".into(), String::new());
        }
        for (k, v) in &snapshot {
            cm.entry(k.clone()).or_insert(v.clone());
        }
        let crec = |m: &mut BTreeMap<String, String>| match cl.record {
            1 => {
                m.insert("a".into(), format!("R{}a", depth + 1));
            }
            2 => {
                m.insert("b".into(), format!("R{}b", depth + 1));
            }
            3 => {
                m.insert("a".into(), format!("R{}a", depth + 1));
                m.insert("b".into(), format!("R{}b", depth + 1));
            }
            _ => {}
        };
        // (the child's own record happens right after creation regardless of its `late` flag when it has no child itself)
        do_record(&child, &cl, depth + 1);
        crec(&mut cm);
        {
            let _cg = child.enter();
            do_record(span, l, depth);
            apply_record(mine);
            emit_and_check(env, Some(&cm), &format!("inside level {} after a late record() on level {}", depth + 1, depth));
            walk(env, depth + 2, Some(cm.clone()));
        }
    } else {
        do_record(span, l, depth);
        apply_record(mine);
    }
}

fn levels() -> Vec<Lvl> {
    let mut v = Vec::new();
    for create in 0..4u8 {
        v.push(Lvl { create, record: 0, late: false });
        for record in 1..4u8 {
            for late in [false, true] {
                v.push(Lvl { create, record, late });
            }
        }
    }
    // a span whose callsite declares no fields (nothing to record on it)
    v.push(Lvl { create: 4, record: 0, late: false });
    // a span created with a = "" (an empty string is a value)
    v.push(Lvl { create: 8, record: 0, late: false });
    v.push(Lvl { create: 8, record: 2, late: true });
    v
}

fn trees_part(ctx: &Ctx, res: &mut PartResult, max_depth: usize, filters: &[Filter], with_other_thread: bool) {
    res.engine = "E3 all span trees x field sets x metric label sets x filters on the real TracingContextLayer + MetricsLayer".into();
    let lv = levels();
    let mut states = vseq::States::new();
    let dispatch = Dispatch::new(tracing_subscriber::registry().with(MetricsLayer::new()));
    // a second thread holds a conflicting span on the same subscriber for the whole run
    let stop = Arc::new(std::sync::atomic::AtomicBool::new(false));
    let other = if with_other_thread {
        let (d2, s2) = (dispatch.clone(), stop.clone());
        let ready = Arc::new(std::sync::Barrier::new(2));
        let r2 = ready.clone();
        let h = std::thread::spawn(move || {
            tracing::dispatcher::with_default(&d2, || {
                let sp = tracing::info_span!("other", a = "OTHER_A", b = "OTHER_B", c = "OTHER_C");
                let _g = sp.enter();
                r2.wait();
                while !s2.load(std::sync::atomic::Ordering::SeqCst) {
                    std::thread::sleep(std::time::Duration::from_millis(2));
                }
            })
        });
        ready.wait();
        Some(h)
    } else {
        None
    };
    let mut checks = 0u64;
    tracing::dispatcher::with_default(&dispatch, || {
        for filter in filters {
            let log: Log = Default::default();
            let rec = filter.build(log.clone());
            let mut trees: Vec<Vec<Lvl>> = vec![vec![]];
            let mut layer: Vec<Vec<Lvl>> = vec![vec![]];
            for _ in 0..max_depth {
                let mut next = Vec::new();
                for t in &layer {
                    for l in &lv {
                        let mut n = t.clone();
                        n.push(*l);
                        next.push(n);
                    }
                }
                trees.extend(next.iter().cloned());
                layer = next;
            }
            for (ti, tree) in trees.iter().enumerate() {
                if ti % 256 == 0 && ctx.over_budget() {
                    res.cap_hit = Some("budget (cpu time of the part)".into());
                    res.exhaustive = false;
                    break;
                }
                if let Some(rp) = &ctx.replay {
                    if rp["tree"] != json!(format!("{:?}", tree)) || rp["filter"] != json!(format!("{:?}", filter)) {
                        continue;
                    }
                }
                res.executions += 1;
                let mut fails: Vec<(String, String)> = Vec::new();
                {
                    let mut env = Env { rec: rec.as_ref(), log: &log, filter, fails: &mut fails, checks: &mut checks, states: &mut states, tree };
                    emit_and_check(&mut env, None, "outside any span");
                    walk(&mut env, 0, None);
                    emit_and_check(&mut env, None, "after all spans were left");
                }
                for (sig, msg) in fails {
                    res.violation(&sig, msg, json!({"tree": format!("{:?}", tree), "filter": format!("{:?}", filter)}));
                }
            }
        }
    });
    stop.store(true, std::sync::atomic::Ordering::SeqCst);
    if let Some(h) = other {
        let _ = h.join();
    }
    res.transitions = checks;
    res.states = states.len();
    res.distinct_outcomes = states.len();
    res.bound = json!({"max_depth": max_depth, "level_variants": lv.len(), "filters": filters.len(), "second_thread_with_conflicting_span": with_other_thread});
    res.sample(json!({"tree": "[{create: a+b, record: a late}, {create: b, record: none}]", "filter": "Allowlist[a,c]", "metric_labels": "{a, c}"}));
}


/// spans created with an explicit parent (`parent: &p` / `parent: None`) while a different span is current, also from
/// another thread: the ancestors whose fields count are the span's actual parents, not whatever is current where it is created
fn mk_span_with_parent(create: u8, tag: &str, parent: Option<Option<&Span>>) -> Span {
    let (va, vb) = (format!("{}a", tag), format!("{}b", tag));
    macro_rules! mk {
        ($($p:tt)*) => {
            match create {
                0 => tracing::info_span!($($p)* "s", a = Empty, b = Empty),
                1 => tracing::info_span!($($p)* "s", a = va.as_str(), b = Empty),
                2 => tracing::info_span!($($p)* "s", a = Empty, b = vb.as_str()),
                4 => tracing::info_span!($($p)* "s"),
                _ => tracing::info_span!($($p)* "s", a = va.as_str(), b = vb.as_str()),
            }
        };
    }
    match parent {
        None => mk!(),
        Some(None) => mk!(parent: None,),
        Some(Some(p)) => mk!(parent: p,),
    }
}
fn labels_of(create: u8, tag: &str) -> BTreeMap<String, String> {
    let mut m = BTreeMap::new();
    if create & 1 != 0 {
        m.insert("a".to_string(), format!("{}a", tag));
    }
    if create & 2 != 0 {
        m.insert("b".to_string(), format!("{}b", tag));
    }
    m
}

fn explicit_parent_part(res: &mut PartResult) {
    res.engine = "E3 spans with explicit parents x current spans x filters, same thread and across threads".into();
    let mut states = vseq::States::new();
    let dispatch = Dispatch::new(tracing_subscriber::registry().with(MetricsLayer::new()));
    let mut checks = 0u64;
    let dummy: Vec<Lvl> = vec![];
    for filter in [Filter::All, Filter::Allow(vec!["a"]), Filter::Allow(vec!["b", "c"]), Filter::Custom] {
        let log: Log = Default::default();
        let rec = filter.build(log.clone());
        for xc in 0..4u8 {
            for pc in 0..5u8 {
                for cc in 0..5u8 {
                    for mode in 0..3u8 {
                        for other_thread in [false, true] {
                            res.executions += 1;
                            let mut fails: Vec<(String, String)> = Vec::new();
                            let mut run = |fails: &mut Vec<(String, String)>, checks: &mut u64, states: &mut vseq::States| {
                                // P: the explicit parent (created at top level, never entered); X: what is current where the child is created
                                let p = mk_span_with_parent(pc, "P", Some(None));
                                let x = mk_span_with_parent(xc, "X", Some(None));
                                let _xg = x.enter();
                                let child = match mode {
                                    0 => mk_span_with_parent(cc, "C", Some(Some(&p))),
                                    1 => mk_span_with_parent(cc, "C", Some(None)),
                                    _ => mk_span_with_parent(cc, "C", None), // contextual: X is the parent
                                };
                                let mut want = labels_of(cc, "C");
                                let inherited = match mode {
                                    0 => labels_of(pc, "P"),
                                    1 => BTreeMap::new(),
                                    _ => labels_of(xc, "X"),
                                };
                                for (k, v) in inherited {
                                    want.entry(k).or_insert(v);
                                }
                                let _cg = child.enter();
                                let mut env = Env { rec: rec.as_ref(), log: &log, filter: &filter, fails, checks, states, tree: &dummy };
                                emit_and_check(&mut env, Some(&want), &format!("inside a span created with {} while span X(create={}) was current (P create={}, child create={}, other thread: {})", ["parent: &P", "parent: None", "the contextual parent"][mode as usize], xc, pc, cc, other_thread));
                            };
                            if other_thread {
                                // the recorder is not Send: build a second one for the helper thread over the same log type
                                let d2 = dispatch.clone();
                                let f2 = filter.clone();
                                let out = std::thread::spawn(move || {
                                    let log2: Log = Default::default();
                                    let rec2 = f2.build(log2.clone());
                                    let mut fails: Vec<(String, String)> = Vec::new();
                                    let mut checks = 0u64;
                                    let mut st = vseq::States::new();
                                    tracing::dispatcher::with_default(&d2, || {
                                        let p = mk_span_with_parent(pc, "P", Some(None));
                                        let handle = {
                                            let p2 = p.clone();
                                            let d3 = d2.clone();
                                            let f3 = f2.clone();
                                            std::thread::spawn(move || {
                                                tracing::dispatcher::with_default(&d3, || {
                                                    let log3: Log = Default::default();
                                                    let rec3 = f3.build(log3.clone());
                                                    let x = mk_span_with_parent(xc, "X", Some(None));
                                                    let _xg = x.enter();
                                                    let child = match mode {
                                                        0 => mk_span_with_parent(cc, "C", Some(Some(&p2))),
                                                        1 => mk_span_with_parent(cc, "C", Some(None)),
                                                        _ => mk_span_with_parent(cc, "C", None),
                                                    };
                                                    let mut want = labels_of(cc, "C");
                                                    let inherited = match mode {
                                                        0 => labels_of(pc, "P"),
                                                        1 => BTreeMap::new(),
                                                        _ => labels_of(xc, "X"),
                                                    };
                                                    for (k, v) in inherited {
                                                        want.entry(k).or_insert(v);
                                                    }
                                                    let _cg = child.enter();
                                                    let mut fails: Vec<(String, String)> = Vec::new();
                                                    let mut checks = 0u64;
                                                    let mut st = vseq::States::new();
                                                    let dummy: Vec<Lvl> = vec![];
                                                    let mut env = Env { rec: rec3.as_ref(), log: &log3, filter: &f3, fails: &mut fails, checks: &mut checks, states: &mut st, tree: &dummy };
                                                    emit_and_check(&mut env, Some(&want), &format!("inside a span created on ANOTHER THREAD with mode {} (X create={}, P create={}, child create={})", mode, xc, pc, cc));
                                                    (fails, checks)
                                                })
                                            })
                                        };
                                        let (f, c) = handle.join().unwrap();
                                        fails.extend(f);
                                        checks += c;
                                        let _ = (&rec2, &mut st);
                                    });
                                    (fails, checks)
                                }).join().unwrap();
                                fails.extend(out.0);
                                checks += out.1;
                            } else {
                                tracing::dispatcher::with_default(&dispatch, || run(&mut fails, &mut checks, &mut states));
                            }
                            for (sig, msg) in fails {
                                res.violation(&sig, msg, json!({"explicit": [xc, pc, cc, mode, other_thread], "filter": format!("{:?}", filter)}));
                            }
                        }
                    }
                }
            }
        }
    }
    res.transitions = checks;
    res.states = states.len().max(1);
    res.distinct_outcomes = states.len().max(1);
    res.sample(json!({"current": "X{a}", "explicit_parent": "P{b}", "child": "C{}", "expected_labels_inside_child": "b=Pb (from P), nothing from X"}));
}

/// A recorded value whose `Debug` impl runs an environment action: the only points inside `Span::record` /
/// span creation where other code can run are the formatting callbacks of the values.
struct Probe<'a>(&'a dyn Fn());
impl std::fmt::Debug for Probe<'_> {
    fn fmt(&self, f: &mut std::fmt::Formatter<'_>) -> std::fmt::Result {
        (self.0)();
        f.write_str("PROBE")
    }
}

/// labels one emission of metric `m` (own label own=o) gets right now on this thread
fn observe(rec: &dyn Recorder, log: &Log) -> Result<Vec<(String, String)>, String> {
    log.lock().unwrap().clear();
    let key = Key::from_parts("m", vec![Label::new("own", "o")]);
    drop(rec.register_counter(&key, &META));
    let got = log.lock().unwrap().clone();
    if got.len() != 1 {
        return Err(format!("{} registrations reached the inner recorder", got.len()));
    }
    let mut g = got[0].clone();
    g.sort();
    Ok(g)
}
fn expect(filter: &Filter, visible: &BTreeMap<String, String>) -> Vec<(String, String)> {
    let mut want: BTreeMap<String, String> = visible.iter().filter(|(k, _)| filter.admits("m", k)).map(|(k, v)| (k.clone(), v.clone())).collect();
    want.insert("own".into(), "o".into());
    want.into_iter().collect()
}

/// Every environment action at the value-formatting callback of `Span::record`, for every parent/span field
/// configuration, recorded field and filter: an emission made (on the same or on another thread) while a `record()`
/// on the span is in progress sees the span's labels from before or from after that record — never anything else —
/// and a child created in that window inherits one of those two; after `record()` returns, the new value is visible.
fn record_window_part(res: &mut PartResult) {
    res.engine = "E3 every environment action at the value-formatting callback of Span::record x span configurations x filters".into();
    let mut states = vseq::States::new();
    let mut checks = 0u64;
    let actions = ["emit in the span, same thread", "create child + emit in it, same thread", "emit in the span, other thread", "create child + emit in it, other thread", "record the other field on the span, other thread"];
    for filter in [Filter::All, Filter::Allow(vec!["a"]), Filter::Allow(vec!["a", "b", "c"]), Filter::Custom] {
        for pc in 0..4u8 {
            for sc in 0..4u8 {
                for field in ["a", "b"] {
                    for (ai, aname) in actions.iter().enumerate() {
                        res.executions += 1;
                        let log: Log = Default::default();
                        let rec = filter.build(log.clone());
                        let mut fails: Vec<(String, String)> = Vec::new();
                        // a fresh subscriber per case: a panic inside one case must not leave poisoned state behind
                        let dispatch = Dispatch::new(tracing_subscriber::registry().with(MetricsLayer::new()));
                        let outcome = vseq::catch(|| tracing::dispatcher::with_default(&dispatch, || {
                            let p = mk_span_with_parent(pc, "P", Some(None));
                            let s = mk_span_with_parent(sc, "S", Some(Some(&p)));
                            let mut before = labels_of(sc, "S");
                            for (k, v) in labels_of(pc, "P") {
                                before.entry(k).or_insert(v);
                            }
                            let mut after = before.clone();
                            after.insert(field.to_string(), "PROBE".to_string());
                            let other_field = if field == "a" { "b" } else { "a" };
                            // what the action saw: (labels seen, child span kept for later)
                            let seen: Mutex<Vec<Result<Vec<(String, String)>, String>>> = Mutex::new(vec![]);
                            let child: Mutex<Option<Span>> = Mutex::new(None);
                            let calls = std::sync::atomic::AtomicUsize::new(0);
                            let act = || {
                                if calls.fetch_add(1, std::sync::atomic::Ordering::SeqCst) != 0 {
                                    return;
                                }
                                match ai {
                                    0 => seen.lock().unwrap().push(s.in_scope(|| observe(rec.as_ref(), &log))),
                                    1 => {
                                        let c = tracing::info_span!(parent: &s, "c", c = "Cc");
                                        seen.lock().unwrap().push(c.in_scope(|| observe(rec.as_ref(), &log)));
                                        *child.lock().unwrap() = Some(c);
                                    }
                                    _ => {
                                        let (d2, f2, s2) = (dispatch.clone(), filter.clone(), s.clone());
                                        let (r, c) = std::thread::spawn(move || {
                                            tracing::dispatcher::with_default(&d2, || {
                                                let log2: Log = Default::default();
                                                let rec2 = f2.build(log2.clone());
                                                match ai {
                                                    2 => (Some(s2.in_scope(|| observe(rec2.as_ref(), &log2))), None),
                                                    3 => {
                                                        let c = tracing::info_span!(parent: &s2, "c", c = "Cc");
                                                        (Some(c.in_scope(|| observe(rec2.as_ref(), &log2))), Some(c))
                                                    }
                                                    _ => {
                                                        s2.record(other_field, "OTHER");
                                                        (None, None)
                                                    }
                                                }
                                            })
                                        })
                                        .join()
                                        .unwrap_or_else(|e| panic!("helper thread panicked: {}", e.downcast_ref::<String>().cloned().or_else(|| e.downcast_ref::<&str>().map(|s| s.to_string())).unwrap_or_default()));
                                        if let Some(r) = r {
                                            seen.lock().unwrap().push(r);
                                        }
                                        *child.lock().unwrap() = c;
                                    }
                                }
                            };
                            s.record(field, tracing::field::debug(Probe(&act)));
                            checks += 1;
                            let with_c = |m: &BTreeMap<String, String>| {
                                let mut m = m.clone();
                                m.insert("c".into(), "Cc".into());
                                m
                            };
                            let is_child = ai == 1 || ai == 3;
                            let (wb, wa) = if is_child { (expect(&filter, &with_c(&before)), expect(&filter, &with_c(&after))) } else { (expect(&filter, &before), expect(&filter, &after)) };
                            if ai < 4 {
                                match seen.lock().unwrap().get(0) {
                                    None => fails.push(("record-window-callback-not-run".into(), "the recorded value was never formatted".into())),
                                    Some(Err(e)) => fails.push(("metric-not-forwarded-exactly-once".into(), e.clone())),
                                    Some(Ok(g)) => {
                                        states.add(g);
                                        if *g != wb && *g != wa {
                                            fails.push(("labels-torn-while-record-in-progress".into(), format!("emission made while record({}) was in progress got labels {:?}; allowed: {:?} (before) or {:?} (after)", field, g, wb, wa)));
                                        }
                                    }
                                }
                            }
                            // after record() returned: the span shows the new value (and the other thread's record, if any)
                            let mut fin = after.clone();
                            if ai == 4 {
                                fin.insert(other_field.to_string(), "OTHER".to_string());
                            }
                            match s.in_scope(|| observe(rec.as_ref(), &log)) {
                                Ok(g) => {
                                    states.add(&g);
                                    if g != expect(&filter, &fin) {
                                        fails.push(("record-did-not-replace-span-value".into(), format!("after record({}) returned the span shows {:?}, expected {:?}", field, g, expect(&filter, &fin))));
                                    }
                                }
                                Err(e) => fails.push(("metric-not-forwarded-exactly-once".into(), e)),
                            }
                            // a child created in the window keeps the labels it had then
                            let taken = child.lock().unwrap().take();
                            if let Some(c) = taken {
                                let first = seen.lock().unwrap().get(0).cloned();
                                match (c.in_scope(|| observe(rec.as_ref(), &log)), first) {
                                    (Ok(g), Some(Ok(f))) => {
                                        if g != f {
                                            fails.push(("child-labels-changed-after-creation".into(), format!("child created while record() was in progress showed {:?} then and {:?} afterwards", f, g)));
                                        }
                                    }
                                    (Err(e), _) => fails.push(("metric-not-forwarded-exactly-once".into(), e)),
                                    _ => {}
                                }
                            }
                        }));
                        if let Err(e) = outcome {
                            fails.push(("panic-while-record-in-progress".into(), format!("panicked: {}", e)));
                        }
                        for (sig, msg) in fails {
                            res.violation(&sig, format!("filter {:?}, parent create={}, span create={}, record({}), action `{}`: {}", filter, pc, sc, field, aname, msg), json!({"window": [pc, sc, field, ai], "filter": format!("{:?}", filter)}));
                        }
                    }
                }
            }
        }
    }
    res.transitions = checks;
    res.states = states.len().max(1);
    res.distinct_outcomes = states.len().max(1);
    res.bound = json!({"actions": actions, "callbacks_per_record": 1, "parent_variants": 4, "span_variants": 4, "fields": 2, "filters": 4});
    res.sample(json!({"span": "S{a} child of P{b}", "record": "b = <value whose Debug emits a metric in S from another thread>", "allowed": "{a=Sa,b=Pb} or {a=Sa,b=PROBE}"}));
}

#[derive(Debug)]
struct Dbg(u8);

fn value_types_part(res: &mut PartResult) {
    res.engine = "E3 field value types".into();
    let dispatch = Dispatch::new(tracing_subscriber::registry().with(MetricsLayer::new()));
    let log: Log = Default::default();
    let rec = Filter::All.build(log.clone());
    let mut states = vseq::States::new();
    tracing::dispatcher::with_default(&dispatch, || {
        let cases: Vec<(Span, Vec<(&str, String)>)> = vec![
            (tracing::info_span!("v", s = "text", t = true, f = false), vec![("s", "text".into()), ("t", "true".into()), ("f", "false".into())]),
            (tracing::info_span!("v", i = -5i64, imin = i64::MIN, u = 7u64, umax = u64::MAX), vec![("i", "-5".into()), ("imin", i64::MIN.to_string()), ("u", "7".into()), ("umax", u64::MAX.to_string())]),
            (tracing::info_span!("v", d = ?Dbg(3), disp = %"shown", fl = 1.5f64), vec![("d", "Dbg(3)".into()), ("disp", "shown".into()), ("fl", "1.5".into())]),
            (tracing::info_span!("v", big = u128::MAX, e = Empty), vec![("big", u128::MAX.to_string())]),
            (tracing::info_span!("v"), vec![]),
        ];
        // a field whose Debug impl fails part-way (writes some text, then panics; caught): a span creation and a
        // record() that fail like this must leave nothing behind for the fields rendered afterwards on this thread
        struct Exploding(u32);
        impl std::fmt::Debug for Exploding {
            fn fmt(&self, f: &mut std::fmt::Formatter<'_>) -> std::fmt::Result {
                write!(f, "Exploding {{ partial: {}", self.0)?;
                std::panic::resume_unwind(Box::new("Debug impl fails part-way"));
            }
        }
        let _ = std::panic::catch_unwind(std::panic::AssertUnwindSafe(|| {
            let sp = tracing::info_span!("boom", x = ?Exploding(1));
            drop(sp);
        }));
        let survivor = tracing::info_span!("after", later = Empty, d = ?Dbg(9));
        let _ = std::panic::catch_unwind(std::panic::AssertUnwindSafe(|| {
            survivor.record("later", tracing::field::debug(Exploding(2)));
        }));
        let cases: Vec<(Span, Vec<(&str, String)>)> = {
            let mut c = cases;
            c.insert(0, (survivor, vec![("d", "Dbg(9)".into())]));
            c
        };
        for (span, want) in cases {
            res.executions += 1;
            res.transitions += 1;
            let _g = span.enter();
            log.lock().unwrap().clear();
            let key = Key::from_parts("m", vec![Label::new("own", "o")]);
            drop(rec.register_counter(&key, &META));
            let mut got = log.lock().unwrap().get(0).cloned().unwrap_or_default();
            got.sort();
            let mut w: Vec<(String, String)> = want.iter().map(|(k, v)| (k.to_string(), v.clone())).collect();
            w.push(("own".into(), "o".into()));
            w.sort();
            states.add(&got);
            if got != w {
                res.violation("field-value-rendered-wrong", format!("labels {:?}, expected {:?}", got, w), json!({}));
            }
        }
    });
    // the key is handed on unchanged (same labels, same order) when nothing can be added: no subscriber at all, a
    // subscriber without the MetricsLayer, no current span, a current span without any recorded field
    {
        let key = Key::from_parts("m", vec![Label::new("z", "1"), Label::new("a", "2"), Label::new("z", "3")]);
        let unchanged: Vec<(String, String)> = key.labels().map(|l| (l.key().to_string(), l.value().to_string())).collect();
        let mut probe = |what: &str, res: &mut PartResult| {
            log.lock().unwrap().clear();
            drop(rec.register_gauge(&key, &META));
            let got = log.lock().unwrap().get(0).cloned().unwrap_or_default();
            res.executions += 1;
            res.transitions += 1;
            if got != unchanged {
                res.violation("key-changed-without-current-span", format!("{}: labels {:?}, expected the key's own {:?} in their order", what, got, unchanged), json!({}));
            }
        };
        tracing::dispatcher::with_default(&Dispatch::none(), || probe("no subscriber", res));
        let plain = Dispatch::new(tracing_subscriber::registry());
        tracing::dispatcher::with_default(&plain, || {
            let span = tracing::info_span!("p", a = "x");
            let _g = span.enter();
            probe("subscriber without the MetricsLayer, inside a span with fields", res);
        });
        tracing::dispatcher::with_default(&dispatch, || {
            probe("MetricsLayer present, no current span", res);
            let span = tracing::info_span!("e", a = Empty, b = Empty);
            let _g = span.enter();
            probe("current span whose fields are all Empty", res);
            let span2 = tracing::info_span!("n");
            let _g2 = span2.enter();
            probe("current span without fields inside a span whose fields are all Empty", res);
        });
    }
    // descriptions pass through the layer unchanged, inside and outside spans
    tracing::dispatcher::with_default(&dispatch, || {
        for inside in [false, true] {
            let span = tracing::info_span!("d", a = "x");
            let _g = if inside { Some(span.enter()) } else { None };
            DESCRIBED.lock().unwrap().clear();
            rec.describe_counter("dc".into(), Some(Unit::Bytes), "counter help".into());
            rec.describe_gauge("dg".into(), None, "gauge help".into());
            rec.describe_histogram("dh".into(), Some(Unit::Seconds), "histogram help".into());
            let got = DESCRIBED.lock().unwrap().clone();
            res.executions += 1;
            res.transitions += 3;
            let want = vec![format!("counter dc {:?} counter help", Some(Unit::Bytes)), format!("gauge dg {:?} gauge help", None::<Unit>), format!("histogram dh {:?} histogram help", Some(Unit::Seconds))];
            if got != want {
                res.violation("description-not-passed-through", format!("describe_* through the layer (inside a span: {}): inner recorder saw {:?}, expected {:?}", inside, got, want), json!({}));
            }
        }
    });
    res.states = states.len();
    res.distinct_outcomes = states.len();
    res.sample(json!({"span": "info_span!(\"v\", i = -5i64, imin = i64::MIN, u = 7u64, umax = u64::MAX)"}));
}

/// Span identity: every sequence of operations on a pool of up to 3 spans that all come from ONE callsite with different
/// field values (what a loop creating a span per iteration gives): create (value 1 or 2, contextual parent = the span
/// current at that moment), enter / exit (stack discipline, through an owned clone of the handle), record field b, drop
/// the handle (which closes the span once it is not entered; a later create can then get the same span id back from the
/// registry). After every step an emission must carry exactly the labels of the span current at that moment: its own
/// fields, what it inherited when it was created, and its later records — never those of a sibling, of an earlier span
/// with the same id, or of the callsite's previous use.
fn identity_part(ctx: &Ctx, res: &mut PartResult, depth: usize) {
    res.engine = "E3 bounded exhaustive create/enter/exit/record/drop sequences over spans of one callsite (incl. span id reuse)".into();
    let mut states = vseq::States::new();
    let dispatch = Dispatch::new(tracing_subscriber::registry().with(MetricsLayer::new()));
    let dummy: Vec<Lvl> = vec![];
    fn mk(v: u64) -> Span {
        tracing::info_span!("iter", a = v, b = Empty)
    }
    // a wide pair of spans (20 + 20 distinct fields: the child's label map holds 40 entries), created under the current
    // span, entered, checked and closed again: label maps come from a process-wide pool, and whatever such a map held
    // must be gone when a later span gets it
    fn wide_parent() -> Span {
        tracing::info_span!("wide", f00 = 0, f01 = 1, f02 = 2, f03 = 3, f04 = 4, f05 = 5, f06 = 6, f07 = 7, f08 = 8, f09 = 9, f10 = 10, f11 = 11, f12 = 12, f13 = 13, f14 = 14, f15 = 15, f16 = 16, f17 = 17, f18 = 18, f19 = 19)
    }
    fn wide_child() -> Span {
        tracing::info_span!("wide2", g00 = 0, g01 = 1, g02 = 2, g03 = 3, g04 = 4, g05 = 5, g06 = 6, g07 = 7, g08 = 8, g09 = 9, g10 = 10, g11 = 11, g12 = 12, g13 = 13, g14 = 14, g15 = 15, g16 = 16, g17 = 17, g18 = 18, g19 = 19)
    }
    const POOL: usize = 3;
    // ops: 0,1 = create with a=1 / a=2; 2..5 enter(i); 5 exit; 6..9 record(i); 9..12 drop(i); 12 = the wide pair;
    // 13 = the same recorder used under a SECOND subscriber instance for a moment (a span there, an emission in it)
    let n_ops = 14;
    let dispatch2 = Dispatch::new(tracing_subscriber::registry().with(MetricsLayer::new()));
    let mut total_checks = 0u64;
    for filter in [Filter::All, Filter::Allow(vec!["a", "b"])] {
        let log: Log = Default::default();
        let rec = filter.build(log.clone());
        let mut all_fails: Vec<(String, String, Vec<usize>)> = Vec::new();
        let mut transitions = 0u64;
        {
            // the recorder's very first emission happens while no subscriber is installed at all (key unchanged); what
            // it sees later must not depend on that
            let mut fails: Vec<(String, String)> = Vec::new();
            let mut env = Env { rec: rec.as_ref(), log: &log, filter: &filter, fails: &mut fails, checks: &mut total_checks, states: &mut states, tree: &dummy };
            emit_and_check(&mut env, None, "the recorder's first emission, before any subscriber exists");
            if let Some((sig, msg)) = fails.into_iter().next() {
                all_fails.push((sig, msg, vec![]));
            }
        }
        let mut run = |seq: &[usize]| -> Option<usize> {
            let mut cut: Option<usize> = None;
            tracing::dispatcher::with_default(&dispatch, || {
                let mut pool: Vec<Option<(Span, BTreeMap<String, String>)>> = (0..POOL).map(|_| None).collect();
                let mut stack: Vec<(usize, tracing::span::EnteredSpan)> = Vec::new();
                let mut recs = 0u64;
                for (step, op) in seq.iter().enumerate() {
                    let op = *op;
                    let applicable = match op {
                        0 | 1 => pool.iter().any(|s| s.is_none()),
                        2..=4 => pool[op - 2].is_some() && !stack.iter().any(|e| e.0 == op - 2),
                        5 => !stack.is_empty(),
                        6..=8 => pool[op - 6].is_some(),
                        12 | 13 => true,
                        _ => pool[op - 9].is_some() && !stack.iter().any(|e| e.0 == op - 9),
                    };
                    if !applicable {
                        cut = Some(step);
                        break;
                    }
                    transitions += 1;
                    match op {
                        0 | 1 => {
                            let v = op as u64 + 1;
                            let free = pool.iter().position(|s| s.is_none()).unwrap();
                            let mut labels: BTreeMap<String, String> = stack.last().map(|e| pool[e.0].as_ref().unwrap().1.clone()).unwrap_or_default();
                            labels.insert("a".into(), v.to_string());
                            pool[free] = Some((mk(v), labels));
                        }
                        2..=4 => {
                            let i = op - 2;
                            let g = pool[i].as_ref().unwrap().0.clone().entered();
                            stack.push((i, g));
                        }
                        5 => {
                            stack.pop();
                        }
                        6..=8 => {
                            let i = op - 6;
                            recs += 1;
                            let val = format!("r{}", recs);
                            let (sp, labels) = pool[i].as_mut().unwrap();
                            sp.record("b", val.as_str());
                            labels.insert("b".into(), val);
                        }
                        12 => {
                            let mut want: BTreeMap<String, String> = stack.last().map(|e| pool[e.0].as_ref().unwrap().1.clone()).unwrap_or_default();
                            for i in 0..20 {
                                want.insert(format!("f{:02}", i), i.to_string());
                            }
                            let p = wide_parent();
                            let pg = p.enter();
                            for i in 0..20 {
                                want.insert(format!("g{:02}", i), i.to_string());
                            }
                            let c = wide_child();
                            let cg = c.enter();
                            let mut fails: Vec<(String, String)> = Vec::new();
                            {
                                let mut env = Env { rec: rec.as_ref(), log: &log, filter: &Filter::All, fails: &mut fails, checks: &mut total_checks, states: &mut states, tree: &dummy };
                                if matches!(filter, Filter::All) {
                                    emit_and_check(&mut env, Some(&want), &format!("inside the wide pair of spans at step {} of {:?}", step, &seq[..=step]));
                                }
                            }
                            drop(cg);
                            drop(c);
                            drop(pg);
                            drop(p);
                            if let Some((sig, msg)) = fails.into_iter().next() {
                                all_fails.push((sig, msg, seq[..=step].to_vec()));
                                cut = Some(step);
                                break;
                            }
                        }
                        13 => {
                            // what is current under the first subscriber is not visible under the second one
                            let mut fails: Vec<(String, String)> = Vec::new();
                            tracing::dispatcher::with_default(&dispatch2, || {
                                let mut env = Env { rec: rec.as_ref(), log: &log, filter: &filter, fails: &mut fails, checks: &mut total_checks, states: &mut states, tree: &dummy };
                                emit_and_check(&mut env, None, &format!("under a second subscriber, outside its spans, at step {} of {:?}", step, &seq[..=step]));
                                let sp = mk(7);
                                let g = sp.enter();
                                let want: BTreeMap<String, String> = [("a".to_string(), "7".to_string())].into_iter().collect();
                                emit_and_check(&mut env, Some(&want), &format!("under a second subscriber, inside a span with a=7, at step {} of {:?}", step, &seq[..=step]));
                                drop(g);
                            });
                            if let Some((sig, msg)) = fails.into_iter().next() {
                                all_fails.push((sig, msg, seq[..=step].to_vec()));
                                cut = Some(step);
                                break;
                            }
                        }
                        _ => {
                            pool[op - 9] = None;
                        }
                    }
                    let visible: Option<BTreeMap<String, String>> = stack.last().map(|e| pool[e.0].as_ref().unwrap().1.clone());
                    let mut fails: Vec<(String, String)> = Vec::new();
                    {
                        let mut env = Env { rec: rec.as_ref(), log: &log, filter: &filter, fails: &mut fails, checks: &mut total_checks, states: &mut states, tree: &dummy };
                        emit_and_check(&mut env, visible.as_ref(), &format!("after step {} of the one-callsite program {:?} (0,1 = create a=1/2 under the current span; 2-4 enter; 5 exit; 6-8 record b; 9-11 drop handle; 12 = a wide pair of spans with 40 labels created, checked and closed; 13 = an emission under a second subscriber)", step, &seq[..=step]));
                    }
                    if let Some((sig, msg)) = fails.into_iter().next() {
                        all_fails.push((sig, msg, seq[..=step].to_vec()));
                        cut = Some(step);
                        break;
                    }
                }
                // leave every span before the handles go away
                while stack.pop().is_some() {}
            });
            cut
        };
        if let Some(rp) = ctx.replay.as_ref().and_then(|r| r["seq"].as_array().map(|a| a.iter().map(|x| x.as_u64().unwrap() as usize).collect::<Vec<usize>>())) {
            run(&rp);
            res.executions += 1;
        } else {
            let (n, complete) = vseq::for_each_seq(n_ops, depth, &mut run, &|| ctx.over_budget());
            res.executions += n;
            if !complete {
                res.exhaustive = false;
                res.cap_hit = Some("budget (cpu time of the part)".into());
            }
        }
        res.transitions += transitions;
        for (sig, msg, seq) in all_fails.into_iter().take(20) {
            res.violation(&sig, msg, json!({"seq": seq}));
        }
    }
    res.states = states.len();
    res.distinct_outcomes = states.len();
    res.bound = json!({"depth": depth, "alphabet": n_ops, "pool": POOL, "filters": 2});
    res.sample(json!({"program": "create a=1; enter it; create a=2 (child); exit; drop the first; create a=1 again (id reuse); enter; emit", "expected": "labels of exactly the span current at each emission"}));
}

fn filters(all: bool) -> Vec<Filter> {
    let mut v = vec![Filter::All, Filter::Custom];
    let names = ["a", "b", "c"];
    for mask in 0..8u8 {
        if !all && ![0u8, 1, 3, 6].contains(&mask) {
            continue;
        }
        v.push(Filter::Allow((0..3).filter(|i| mask & (1 << i) != 0).map(|i| names[i]).collect()));
    }
    v
}

fn parts(ctx: &Ctx) -> Vec<PartSpec> {
    let b = if ctx.quick() { 150.0 } else { 2400.0 };
    let mut v = vec![PartSpec::new("value-types", json!({"p": "values"})), PartSpec::new("explicit-parents", json!({"p": "explicit"})), PartSpec::new("record-window", json!({"p": "window"})), PartSpec::new(&format!("one-callsite-identity-d{}", if ctx.quick() { 6 } else { 8 }), json!({"p": "identity", "depth": if ctx.quick() { 6 } else { 8 }})).budget(b)];
    let fl = filters(true);
    let depth = if ctx.quick() { 3 } else { 5 };
    for fi in 0..fl.len() {
        v.push(PartSpec::new(&format!("trees-depth{}-filter{}", depth, fi), json!({"p": "trees", "depth": depth, "filter": fi, "other": fi % 2 == 0})).budget(b));
    }
    v
}

/// The process's FIRST subscriber carrying a MetricsLayer has another shape than the ones the parts use (an extra,
/// empty layer below the MetricsLayer): whatever a layer instance sets up must be its own, so the bare
/// `registry().with(MetricsLayer::new())` subscribers built afterwards work all the same. Run at the start of every part.
fn other_shape_first(res: &mut PartResult) {
    struct Nop;
    impl<S: tracing::Subscriber> tracing_subscriber::Layer<S> for Nop {}
    let shaped = Dispatch::new(tracing_subscriber::registry().with(Nop).with(MetricsLayer::new()));
    let log: Log = Default::default();
    let rec = Filter::All.build(log.clone());
    tracing::dispatcher::with_default(&shaped, || {
        let sp = tracing::info_span!("shaped", a = "S");
        let _g = sp.enter();
        log.lock().unwrap().clear();
        let _ = rec.register_counter(&Key::from_name("m"), &META);
    });
    let got = log.lock().unwrap().clone();
    if !format!("{:?}", got).contains("S") {
        res.violation("span-label-missing", format!("under a subscriber with an extra layer below the MetricsLayer a metric emitted inside span(a=S) reached the recorder as {:?}", got), json!({"other_shape": true}));
    }
}

fn run(ctx: &Ctx, spec: &PartSpec) -> PartResult {
    let mut res = PartResult::new(&spec.name, "");
    vseq::quiet_panics();
    other_shape_first(&mut res);
    if spec.arg["p"].as_str() == Some("values") {
        value_types_part(&mut res);
    } else if spec.arg["p"].as_str() == Some("explicit") {
        explicit_parent_part(&mut res);
    } else if spec.arg["p"].as_str() == Some("identity") {
        identity_part(ctx, &mut res, spec.arg["depth"].as_u64().unwrap_or(5) as usize);
    } else if spec.arg["p"].as_str() == Some("window") {
        record_window_part(&mut res);
    } else {
        let fl = filters(true);
        let f = fl[spec.arg["filter"].as_u64().unwrap_or(0) as usize].clone();
        trees_part(ctx, &mut res, spec.arg["depth"].as_u64().unwrap_or(2) as usize, &[f], spec.arg["other"].as_bool().unwrap_or(false));
    }
    res
}

fn main() {
    driver::main(CheckDef {
        prop: "C17",
        level: "model_checking",
        rule: "all span trees (chains of nested spans) up to the stated depth where every level independently takes one of 20 variants (fields a,b given at creation or left Empty; a later record() of a or b, either right after creation or after the child span was created), x filters {IncludeAll, custom per-metric closure, Allowlists over {a,b,c}} x metric own-label sets ⊆ {a,c} x 2 metric names x 3 kinds, emitted inside every level, after every subtree, after leaving every level and outside any span, on the real MetricsLayer + TracingContextLayer over a real tracing-subscriber registry, optionally with a second thread holding a conflicting span on the same subscriber; the key reaching the inner recorder is compared with a reference precedence map (metric > inner span > outer span-at-child-creation, record() replaces); plus, at the value-formatting callback inside Span::record (the one point where other code can run during a record), every action of {emit in the span, create a child and emit in it} x {same thread, another thread} and a concurrent record of the other field: the emission sees the labels from before or after the record, never a torn set; plus field value types (str, bool, i64/u64 extremes, Debug, Display, f64, u128, Empty); distinct = distinct resulting label sets; span identity: every sequence of 6 (thorough 8) operations over a pool of 3 spans from ONE callsite with different field values (create under the current span, enter/exit, record, drop the handle, a wide pair of spans with 40 labels created, checked and closed — label maps are pooled —, and the same recorder used for a moment under a second subscriber instance; the recorder's first emission is made before any subscriber exists — so that the registry hands span ids out again), an emission after every step; level shapes include a span created with an empty-string value and a record of two fields in ONE Span::record_all call; every part first uses a subscriber of another shape (an extra empty layer below the MetricsLayer), so the subscribers the parts build are never the process's first",
        assumptions: &["span trees are chains (each span has at most one child): sibling spans are independent by construction of the per-span label map"],
        parts,
        run,
    });
}
