//! C19 — debugging snapshots show every registered metric with its true current state (E3 + E1).
use metrics::{Key, KeyName, Label, Level, Metadata, Recorder, SharedString, Unit};
use metrics_util::debugging::{DebugValue, DebuggingRecorder, Snapshotter};
use metrics_util::MetricKind;
use std::collections::BTreeMap;
use vcore::driver::{self, CheckDef, Ctx, PartResult, PartSpec};
use vcore::json;
use vcore::vseq;
use vcore::vsched::{self, body, fail, Cfg, Log, Scenario, Verdict};

static META: Metadata<'static> = Metadata::new("t", Level::INFO, None);
static L_BA: [Label; 2] = [Label::from_static_parts("b", "2"), Label::from_static_parts("a", "1")];

#[derive(Clone, Copy, Debug, PartialEq, Eq, PartialOrd, Ord, Hash)]
enum K {
    C,
    G,
    H,
}
#[derive(Clone, Copy, Debug)]
enum Op {
    Describe(K, &'static str, Option<Unit>, &'static str),
    Register(K, usize),
    Inc(usize, u64),
    Set(usize, f64),
    Rec(usize, f64),
    /// n values 0, 1, .., n-1 into one histogram (more than one 64-slot bucket block between two snapshots)
    RecMany(usize, usize),
    /// histogram.record_many(v, n): the batched entry point of the handle (n = 0 records nothing)
    Batch(usize, f64, usize),
    /// counter.absolute(v): the counter becomes at least v (a lower v changes nothing)
    Abs(usize, u64),
    Snapshot,
}

fn mk_key(i: usize) -> Key {
    match i {
        0 => Key::from_name("m"),
        1 => Key::from_parts("m", vec![Label::new("a", "1"), Label::new("b", "2")]),
        2 => Key::from_static_parts("m", &L_BA), // equal to key 1, built differently
        // two labels with the same name, spelled in either order: equal keys (one metric, listed once)
        4 => Key::from_parts("z", vec![Label::new("zone", "a"), Label::new("zone", "b")]),
        5 => Key::from_parts("z", vec![Label::new("zone", "b"), Label::new("zone", "a")]),
        // equal to keys 1 and 2: a CLONE of a static key taken before anything hashed it (what a caller does that keeps a
        // copy of a call site's key)
        6 => Key::from_static_parts("m", &L_BA).clone(),
        _ => Key::from_name("n"),
    }
}
fn canon(k: &Key) -> String {
    let mut l: Vec<String> = k.labels().map(|l| format!("{}={}", l.key(), l.value())).collect();
    l.sort();
    format!("{}{{{}}}", k.name(), l.join(","))
}

fn alphabet() -> Vec<Op> {
    use K::*;
    vec![
        Op::Describe(C, "m", None, "d1"),
        Op::Describe(C, "m", Some(Unit::Bytes), "d2"),
        Op::Describe(C, "m", None, "d3"),
        Op::Describe(C, "m", Some(Unit::Seconds), "d4"), // a second, different unit for the same kind and name
        Op::Describe(H, "m", Some(Unit::Count), "d1"),
        Op::Describe(G, "m", None, "d1"),
        Op::Describe(C, "n", Some(Unit::Seconds), "d1"),
        Op::Register(C, 0),
        Op::Register(C, 1),
        Op::Register(C, 2),
        Op::Register(G, 0),
        Op::Register(H, 0),
        Op::Register(C, 3),
        Op::Inc(0, 2),
        Op::Inc(2, 5),
        Op::Inc(4, 1),
        Op::Inc(5, 3),
        Op::Abs(0, 1),
        Op::Abs(0, 9),
        Op::Inc(6, 2),
        Op::Set(0, 1.5),
        Op::Rec(0, 1.0),
        Op::Rec(0, 2.0),
        Op::Rec(0, f64::NAN),
        Op::Batch(0, 7.0, 0),
        Op::Batch(0, 7.0, 3),
        Op::Snapshot,
    ]
}

#[derive(Default, Clone)]
struct Model {
    seen: Vec<(K, String)>,
    meta: BTreeMap<(K, String), (Option<Unit>, String)>,
    counters: BTreeMap<String, u64>,
    gauges: BTreeMap<String, u64>,
    hists: BTreeMap<String, Vec<u64>>,
}
impl Model {
    fn register(&mut self, k: K, key: &Key) {
        let c = canon(key);
        if !self.seen.contains(&(k, c.clone())) {
            self.seen.push((k, c.clone()));
        }
        match k {
            K::C => {
                self.counters.entry(c).or_insert(0);
            }
            K::G => {
                self.gauges.entry(c).or_insert(0f64.to_bits());
            }
            K::H => {
                self.hists.entry(c).or_default();
            }
        }
    }
    fn apply(&mut self, op: Op) {
        match op {
            Op::Describe(k, name, unit, text) => {
                let e = self.meta.entry((k, name.to_string())).or_insert((None, text.to_string()));
                if unit.is_some() {
                    e.0 = unit;
                }
                e.1 = text.to_string();
            }
            Op::Register(k, i) => self.register(k, &mk_key(i)),
            Op::Inc(i, v) => {
                self.register(K::C, &mk_key(i));
                *self.counters.get_mut(&canon(&mk_key(i))).unwrap() += v;
            }
            Op::Abs(i, v) => {
                self.register(K::C, &mk_key(i));
                let c = self.counters.get_mut(&canon(&mk_key(i))).unwrap();
                *c = (*c).max(v);
            }
            Op::Set(i, v) => {
                self.register(K::G, &mk_key(i));
                self.gauges.insert(canon(&mk_key(i)), v.to_bits());
            }
            Op::Rec(i, v) => {
                self.register(K::H, &mk_key(i));
                self.hists.get_mut(&canon(&mk_key(i))).unwrap().push(v.to_bits());
            }
            Op::RecMany(i, n) => {
                self.register(K::H, &mk_key(i));
                let h = self.hists.get_mut(&canon(&mk_key(i))).unwrap();
                for j in 0..n {
                    h.push((j as f64).to_bits());
                }
            }
            Op::Batch(i, v, n) => {
                self.register(K::H, &mk_key(i));
                let h = self.hists.get_mut(&canon(&mk_key(i))).unwrap();
                for _ in 0..n {
                    h.push(v.to_bits());
                }
            }
            Op::Snapshot => {}
        }
    }
    /// expected snapshot; histogram values are handed out (and forgotten) by it
    fn snapshot(&mut self) -> Vec<String> {
        let mut out = Vec::new();
        for (k, c) in &self.seen {
            let name = c.split('{').next().unwrap().to_string();
            let (unit, desc) = self.meta.get(&(*k, name)).map(|(u, d)| (*u, Some(d.clone()))).unwrap_or((None, None));
            let val = match k {
                K::C => format!("C{}", self.counters[c]),
                K::G => format!("G{:x}", self.gauges[c]),
                K::H => {
                    let mut v = std::mem::take(self.hists.get_mut(c).unwrap());
                    v.sort();
                    format!("H{:x?}", v)
                }
            };
            out.push(format!("{:?}|{}|{:?}|{:?}|{}", k, c, unit.map(|u| u.as_str()), desc, val));
        }
        out
    }
}

thread_local! { static VIA_MAP: std::cell::Cell<bool> = std::cell::Cell::new(false); }
fn real_snapshot(s: &Snapshotter) -> Vec<String> {
    // the blocks part reads snapshots through `into_hashmap()` (order-insensitive comparison), everything else through `into_vec()`
    let entries: Vec<_> = if VIA_MAP.with(|v| v.get()) { s.snapshot().into_hashmap().into_iter().map(|(k, (u, d, v))| (k, u, d, v)).collect() } else { s.snapshot().into_vec() };
    entries.into_iter().map(|(ck, unit, desc, val)| {
        let k = match ck.kind() {
            MetricKind::Counter => K::C,
            MetricKind::Gauge => K::G,
            MetricKind::Histogram => K::H,
        };
        let v = match val {
            DebugValue::Counter(c) => format!("C{}", c),
            DebugValue::Gauge(g) => format!("G{:x}", g.into_inner().to_bits()),
            DebugValue::Histogram(h) => {
                let mut v: Vec<u64> = h.into_iter().map(|x| x.into_inner().to_bits()).collect();
                v.sort();
                format!("H{:x?}", v)
            }
        };
        format!("{:?}|{}|{:?}|{:?}|{}", k, canon(ck.key()), unit.map(|u| u.as_str()), desc.map(|d| d.to_string()), v)
    }).collect()
}

fn apply_real(rec: &DebuggingRecorder, op: Op) {
    match op {
        Op::Describe(k, name, unit, text) => {
            let (n, t): (KeyName, SharedString) = (name.into(), text.into());
            match k {
                K::C => rec.describe_counter(n, unit, t),
                K::G => rec.describe_gauge(n, unit, t),
                K::H => rec.describe_histogram(n, unit, t),
            }
        }
        Op::Register(k, i) => match k {
            K::C => drop(rec.register_counter(&mk_key(i), &META)),
            K::G => drop(rec.register_gauge(&mk_key(i), &META)),
            K::H => drop(rec.register_histogram(&mk_key(i), &META)),
        },
        Op::Inc(i, v) => rec.register_counter(&mk_key(i), &META).increment(v),
        Op::Set(i, v) => rec.register_gauge(&mk_key(i), &META).set(v),
        Op::Abs(i, v) => rec.register_counter(&mk_key(i), &META).absolute(v),
        Op::Rec(i, v) => rec.register_histogram(&mk_key(i), &META).record(v),
        Op::RecMany(i, n) => {
            let h = rec.register_histogram(&mk_key(i), &META);
            for j in 0..n {
                h.record(j as f64);
            }
        }
        Op::Batch(i, v, n) => rec.register_histogram(&mk_key(i), &META).record_many(v, n),
        Op::Snapshot => {}
    }
}

/// second alphabet: histogram windows around the bucket's block size (64)
fn block_alphabet() -> Vec<Op> {
    vec![Op::RecMany(0, 63), Op::RecMany(0, 64), Op::RecMany(0, 65), Op::RecMany(0, 130), Op::Rec(0, 0.5), Op::RecMany(3, 65), Op::Snapshot]
}

fn e3(ctx: &Ctx, res: &mut PartResult, depth: usize, first: Option<usize>, blocks: bool) {
    res.engine = "E3 bounded exhaustive op sequences on the real DebuggingRecorder vs reference".into();
    vseq::quiet_panics();
    let alpha = if blocks { block_alphabet() } else { alphabet() };
    VIA_MAP.with(|v| v.set(blocks));
    let mut states = vseq::States::new();
    let mut fails: Vec<(String, String, Vec<usize>)> = Vec::new();
    let mut transitions = 0u64;
    let replay_seq: Option<Vec<usize>> = ctx.replay.as_ref().and_then(|r| r["seq"].as_array().map(|a| a.iter().map(|x| x.as_u64().unwrap() as usize).collect()));
    let mut run_seq = |tail: &[usize]| -> Option<usize> {
        let mut seq: Vec<usize> = first.into_iter().collect();
        seq.extend_from_slice(tail);
        let off = first.is_some() as usize;
        let rec = DebuggingRecorder::new();
        let snap = rec.snapshotter();
        let mut m = Model::default();
        let n = seq.len();
        for i in 0..=n {
            let op = if i < n { alpha[seq[i]] } else { Op::Snapshot };
            transitions += 1;
            if let Err(e) = vseq::catch(|| apply_real(&rec, op)) {
                fails.push(("debugging-recorder-panic".into(), format!("{:?} panicked: {}", op, e), seq[..(i + 1).min(n)].to_vec()));
                return Some(i.min(n.saturating_sub(1)).saturating_sub(off));
            }
            m.apply(op);
            if matches!(op, Op::Snapshot) {
                let mut want = m.snapshot();
                let mut got = real_snapshot(&snap);
                if blocks {
                    want.sort();
                    got.sort();
                }
                states.add(&got);
                if got != want {
                    let sig = if got.len() != want.len() || got.iter().map(|g| g.split('|').take(2).collect::<Vec<_>>()).ne(want.iter().map(|g| g.split('|').take(2).collect::<Vec<_>>())) {
                        "snapshot-lists-wrong-metrics-or-order"
                    } else if got.iter().map(|g| g.split('|').nth(4).unwrap_or("").to_string()).ne(want.iter().map(|g| g.split('|').nth(4).unwrap_or("").to_string())) {
                        "snapshot-value-wrong"
                    } else {
                        "snapshot-unit-or-description-wrong"
                    };
                    fails.push((sig.into(), format!("after {:?}: snapshot {:?}, expected {:?}", seq[..i.min(n)].iter().map(|x| alpha[*x]).collect::<Vec<_>>(), got, want), seq[..(i + 1).min(n)].to_vec()));
                    return Some(i.min(n.saturating_sub(1)).saturating_sub(off));
                }
            }
        }
        None
    };
    if let Some(seq) = replay_seq {
        run_seq(if first.is_some() { &seq[1..] } else { &seq[..] });
        res.executions = 1;
    } else {
        let d = if first.is_some() { depth - 1 } else { depth };
        let (n, complete) = vseq::for_each_seq(alpha.len(), d, &mut run_seq, &|| ctx.over_budget());
        res.executions = n;
        res.exhaustive = complete;
        if !complete {
            res.cap_hit = Some("budget (cpu time of the part)".into());
        }
    }
    res.transitions = transitions;
    res.states = states.len();
    res.distinct_outcomes = states.len();
    res.bound = json!({"depth": depth, "alphabet": alpha.len(), "first_op_fixed": first});
    for (sig, msg, seq) in fails {
        res.violation(&sig, msg, json!({"seq": seq}));
    }
    res.sample(json!({"ops": if blocks { format!("{:?}", [alpha[2], alpha[6], alpha[4], alpha[3]]) } else { format!("{:?}", [alpha[1], alpha[7], alpha[13], alpha[17], alpha[2]]) }}));
}

/// two threads, each with its own locally installed DebuggingRecorder, emitting through the macros
fn local_threads(res: &mut PartResult) {
    res.engine = "E3 all pairs of 3-step macro programs on two threads with local recorders".into();
    let progs: Vec<Vec<usize>> = {
        let mut v = Vec::new();
        for a in 0..4 {
            for b in 0..4 {
                for c in 0..4 {
                    v.push(vec![a, b, c]);
                }
            }
        }
        v
    };
    fn run_prog(p: &[usize], tag: &'static str) -> Vec<String> {
        let rec = DebuggingRecorder::new();
        let snap = rec.snapshotter();
        metrics::with_local_recorder(&rec, || {
            for o in p {
                match o {
                    0 => metrics::counter!("shared", "who" => tag).increment(1),
                    1 => metrics::gauge!("shared").set(if tag == "A" { 1.0 } else { 2.0 }),
                    2 => metrics::histogram!("shared").record(if tag == "A" { 10.0 } else { 20.0 }),
                    _ => metrics::describe_counter!("shared", tag),
                }
            }
        });
        real_snapshot(&snap)
    }
    let mut states = vseq::States::new();
    for pa in &progs {
        for pb in progs.iter().step_by(5) {
            res.executions += 1;
            res.transitions += 6;
            let (a2, b2) = (pa.clone(), pb.clone());
            let ta = std::thread::spawn(move || run_prog(&a2, "A"));
            let tb = std::thread::spawn(move || run_prog(&b2, "B"));
            let (sa, sb) = (ta.join().unwrap(), tb.join().unwrap());
            // reference: the same program run alone
            let (wa, wb) = (run_prog(pa, "A"), run_prog(pb, "B"));
            states.add(&(sa.clone(), sb.clone()));
            if sa != wa || sb != wb {
                res.violation("local-recorder-shows-other-threads-metrics", format!("programs {:?}/{:?}: snapshots {:?} / {:?}, expected {:?} / {:?}", pa, pb, sa, sb, wa, wb), json!({"pa": pa, "pb": pb}));
            }
        }
    }
    res.states = states.len();
    res.distinct_outcomes = states.len();
    res.sample(json!({"program_A": progs[27], "program_B": progs[5]}));
}

/// Two debugging recorders used through local scopes on ONE thread: every program of <= 2 top-level scopes, each with
/// recorder 1 or 2, entered through `with_local_recorder` or a `set_default_local_recorder` guard, left normally or by a
/// caught panic, optionally with one nested scope (recorder, exit kind) inside, an emission inside every scope level
/// (before and after the nested scope) and one outside after every top-level scope. Each recorder's snapshot must list
/// exactly the emissions made while it was the innermost local recorder — never another recorder's.
fn scopes_part(res: &mut PartResult) {
    res.engine = "E3 all programs of local scopes over two DebuggingRecorders on one thread (normal and panicking exits, nesting)".into();
    vseq::quiet_panics();
    #[derive(Clone, Copy, Debug)]
    struct Seg {
        r: usize,
        guard: bool,
        panic: bool,
        inner: Option<(usize, bool)>,
    }
    let mut segs: Vec<Seg> = Vec::new();
    for r in 0..2 {
        for guard in [false, true] {
            for panic in [false, true] {
                segs.push(Seg { r, guard, panic, inner: None });
                for ir in 0..2 {
                    for ip in [false, true] {
                        segs.push(Seg { r, guard, panic, inner: Some((ir, ip)) });
                    }
                }
            }
        }
    }
    let mut progs: Vec<Vec<Seg>> = segs.iter().map(|s| vec![*s]).collect();
    for a in &segs {
        for b in &segs {
            progs.push(vec![*a, *b]);
        }
    }
    let mut states = vseq::States::new();
    for prog in &progs {
        res.executions += 1;
        res.transitions += prog.len() as u64 * 4;
        let p2 = prog.clone();
        let (got, want) = std::thread::spawn(move || {
            let recs = [DebuggingRecorder::new(), DebuggingRecorder::new()];
            let snaps = [recs[0].snapshotter(), recs[1].snapshotter()];
            let id = std::cell::Cell::new(0usize);
            let want: std::cell::RefCell<[Vec<String>; 2]> = std::cell::RefCell::new([vec![], vec![]]);
            let emit = |to: Option<usize>| {
                let n = format!("e{}", id.get());
                id.set(id.get() + 1);
                metrics::counter!(n.clone()).increment(1);
                if let Some(r) = to {
                    want.borrow_mut()[r].push(n);
                }
            };
            for seg in &p2 {
                let body = || {
                    emit(Some(seg.r));
                    if let Some((ir, ip)) = seg.inner {
                        let _ = std::panic::catch_unwind(std::panic::AssertUnwindSafe(|| {
                            metrics::with_local_recorder(&recs[ir], || {
                                emit(Some(ir));
                                if ip {
                                    std::panic::resume_unwind(Box::new("inner scope left by a panic"));
                                }
                            })
                        }));
                        emit(Some(seg.r));
                    }
                    if seg.panic {
                        std::panic::resume_unwind(Box::new("scope left by a panic"));
                    }
                };
                let _ = std::panic::catch_unwind(std::panic::AssertUnwindSafe(|| {
                    if seg.guard {
                        let _g = metrics::set_default_local_recorder(&recs[seg.r]);
                        body();
                    } else {
                        metrics::with_local_recorder(&recs[seg.r], body);
                    }
                }));
                // outside every scope: nobody's
                emit(None);
            }
            let got: Vec<Vec<String>> = snaps.iter().map(|s| {
                let mut v: Vec<String> = s.snapshot().into_vec().into_iter().map(|(k, _, _, _)| k.key().name().to_string()).collect();
                v.sort();
                v
            }).collect();
            let mut w: Vec<Vec<String>> = want.borrow().iter().cloned().collect();
            for x in w.iter_mut() {
                x.sort();
            }
            (got, w)
        }).join().unwrap();
        states.add(&got);
        if got != want {
            res.violation("local-recorder-shows-other-threads-metrics", format!("program {:?} on one thread: the two recorders' snapshots list {:?}, but the emissions made while each was the innermost local recorder are {:?}", prog, got, want), json!({"prog": format!("{:?}", prog)}));
        }
    }
    res.states = states.len();
    res.distinct_outcomes = states.len();
    res.sample(json!({"program": "with_local_recorder(r1, || { emit; with_local_recorder(r2, || { emit; panic }); emit }); emit; guard(r2) { emit }; emit", "expected": "r1: e0, e2; r2: e1, e4; e3 and e5 nowhere"}));
}

/// Many metrics (every map behind the recorder has to grow several times): 150 keys per kind registered in a fixed
/// order, updated, snapshot taken after 1, 2, 4, 8, ... registrations: every registered metric listed exactly once, in
/// order of first registration, with its own value.
fn many_part(res: &mut PartResult) {
    res.engine = "E3 growth: 450 metrics on one DebuggingRecorder, snapshots at doubling sizes".into();
    let rec = DebuggingRecorder::new();
    let snap = rec.snapshotter();
    let mut states = vseq::States::new();
    let mut want: Vec<String> = Vec::new();
    let mut next_check = 1usize;
    for i in 0..450usize {
        res.executions += 1;
        res.transitions += 1;
        let key = if i % 2 == 0 { Key::from_name(format!("many{}", i)) } else { Key::from_parts(format!("many{}", i / 7), vec![Label::new("i", i.to_string())]) };
        match i % 3 {
            0 => {
                rec.register_counter(&key, &META).increment(i as u64 + 1);
                want.push(format!("C|{}|{}", canon(&key), i + 1));
            }
            1 => {
                rec.register_gauge(&key, &META).set(i as f64);
                want.push(format!("G|{}|{}", canon(&key), i));
            }
            _ => {
                rec.register_histogram(&key, &META).record(i as f64);
                want.push(format!("H|{}|{}", canon(&key), i));
            }
        }
        if i + 1 == next_check || i == 449 {
            next_check *= 2;
            let got: Vec<String> = snap.snapshot().into_vec().into_iter().map(|(ck, _, _, v)| match v {
                DebugValue::Counter(c) => format!("C|{}|{}", canon(ck.key()), c),
                DebugValue::Gauge(g) => format!("G|{}|{}", canon(ck.key()), g.into_inner()),
                DebugValue::Histogram(h) => format!("H|{}|{}", canon(ck.key()), h.first().map(|x| x.into_inner()).unwrap_or(-1.0)),
            }).collect();
            // histogram values are handed out once: a histogram registered before the previous snapshot shows none now
            let norm = |v: &Vec<String>| -> Vec<String> { v.iter().map(|l| if l.starts_with("H|") { l.rsplitn(2, '|').nth(1).unwrap().to_string() } else { l.clone() }).collect() };
            states.add(&got.len());
            if norm(&got) != norm(&want) {
                let first = norm(&got).iter().zip(norm(&want).iter()).position(|(a, b)| a != b).unwrap_or(got.len().min(want.len()));
                res.violation("snapshot-lists-wrong-metrics-or-order", format!("after {} registrations the snapshot has {} rows (expected {}); first difference at row {}: {:?} vs expected {:?}", i + 1, got.len(), want.len(), first, got.get(first), want.get(first)), json!({"many": i}));
                break;
            }
        }
    }
    res.states = states.len();
    res.distinct_outcomes = states.len();
    res.sample(json!({"metrics": 450, "snapshots_after": "1, 2, 4, ..., 256, 450 registrations"}));
}

// ------------------------------------------------------------------ E1
struct S {
    rec: DebuggingRecorder,
    snap: Snapshotter,
    log: Log<Vec<String>>,
}
/// two threads register the same new histogram key at the same time and record through their own handles
fn e1_two_registrants(ctx: &Ctx, res: &mut PartResult, pb: usize) {
    let scn = Scenario {
        name: "2 threads each register_histogram(same new key) + record || snapshotter (1 snapshot), then a final snapshot".into(),
        setup: Box::new(|| {
            let rec = DebuggingRecorder::new();
            let snap = rec.snapshotter();
            S { rec, snap, log: Log::new() }
        }),
        bodies: vec![
            body(|s: &S| s.rec.register_histogram(&mk_key(1), &META).record(1.0)),
            body(|s: &S| s.rec.register_histogram(&mk_key(2), &META).record(2.0)),
            body(|s: &S| {
                s.log.push(real_snapshot(&s.snap));
            }),
        ],
        check: Box::new(|s, _| {
            s.log.push(real_snapshot(&s.snap));
            let snaps = s.log.get();
            let all: String = snaps.iter().flatten().filter(|l| l.starts_with("H|")).map(|l| l.split('|').nth(4).unwrap_or("").to_string()).collect::<Vec<_>>().join(" ");
            let one = format!("{:x}", 1.0f64.to_bits());
            let two = format!("{:x}", 2.0f64.to_bits());
            if all.matches(&one).count() != 1 || all.matches(&two).count() != 1 {
                return fail("histogram-value-not-in-exactly-one-snapshot", format!("two threads registered the same key and recorded 1.0 and 2.0; histogram values over the snapshots: {:?}", all));
            }
            let last = snaps.last().unwrap();
            if last.iter().filter(|l| l.starts_with("H|")).count() != 1 {
                return fail("snapshot-lists-wrong-metrics-or-order", format!("final snapshot {:?}", last));
            }
            Verdict::Ok(all)
        }),
        termination_promised: true,
    };
    vsched::explore(&scn, &Cfg { max_bound: pb, horizon: 20000 }, ctx, res);
}

/// two threads update the same gauge and the same counter through their own handles (equal keys registered twice):
/// the final snapshot shows every update applied, and a snapshot taken meanwhile shows a value some prefix explains
fn e1_two_updaters(ctx: &Ctx, res: &mut PartResult, pb: usize) {
    let scn = Scenario {
        name: "t0 gauge.increment(1), counter.increment(1), gauge.increment(2) || t1 gauge.increment(4), counter.increment(2), gauge.decrement(8) || snapshotter (1 snapshot), then a final snapshot".into(),
        setup: Box::new(|| {
            let rec = DebuggingRecorder::new();
            let snap = rec.snapshotter();
            S { rec, snap, log: Log::new() }
        }),
        bodies: vec![
            body(|s: &S| {
                let g = s.rec.register_gauge(&mk_key(1), &META);
                g.increment(1.0);
                s.rec.register_counter(&mk_key(1), &META).increment(1);
                g.increment(2.0);
            }),
            body(|s: &S| {
                let g = s.rec.register_gauge(&mk_key(2), &META);
                g.increment(4.0);
                s.rec.register_counter(&mk_key(2), &META).increment(2);
                g.decrement(8.0);
            }),
            body(|s: &S| {
                s.log.push(real_snapshot(&s.snap));
            }),
        ],
        check: Box::new(|s, _| {
            s.log.push(real_snapshot(&s.snap));
            let snaps = s.log.get();
            let val = |snap: &Vec<String>, k: &str| -> Option<String> { snap.iter().find(|l| l.starts_with(k)).map(|l| l.split('|').nth(4).unwrap_or("").to_string()) };
            let last = snaps.last().unwrap();
            let (g, c) = (val(last, "G|"), val(last, "C|"));
            let want_g = format!("G{:x}", (-1.0f64).to_bits());
            if g.as_deref() != Some(want_g.as_str()) || c.as_deref() != Some("C3") {
                return fail("snapshot-value-wrong", format!("two threads updated one gauge (+1, +2 | +4, -8) and one counter (+1 | +2) through their own handles; the final snapshot shows gauge {:?} (expected -1.0 = {}) and counter {:?} (expected C3)", g, want_g, c));
            }
            // the snapshot taken meanwhile: the gauge holds the sum of a prefix of each thread's updates
            if let Some(gm) = val(&snaps[0], "G|") {
                let ok = [0.0f64, 1.0, 3.0].iter().any(|a| [0.0f64, 4.0, -4.0].iter().any(|b| gm == format!("G{:x}", (a + b).to_bits())));
                if !ok {
                    return fail("snapshot-value-wrong", format!("a snapshot taken while two threads updated one gauge shows {}, which no prefix of their updates (+1, +2 | +4, -8) adds up to", gm));
                }
            }
            Verdict::Ok(format!("{:?}", snaps[0]))
        }),
        termination_promised: true,
    };
    vsched::explore(&scn, &Cfg { max_bound: pb, horizon: 20000 }, ctx, res);
}

/// two snapshotting threads at once: each recorded value still appears in exactly one snapshot
fn e1_two_snapshotters(ctx: &Ctx, res: &mut PartResult, pb: usize) {
    let scn = Scenario {
        name: "recorder thread (histogram record(1), record(2)) || snapshotter A (1 snapshot) || snapshotter B (1 snapshot), then a final snapshot".into(),
        setup: Box::new(|| {
            let rec = DebuggingRecorder::new();
            let snap = rec.snapshotter();
            S { rec, snap, log: Log::new() }
        }),
        bodies: vec![
            body(|s: &S| {
                let h = s.rec.register_histogram(&mk_key(0), &META);
                h.record(1.0);
                h.record(2.0);
            }),
            body(|s: &S| {
                s.log.push(real_snapshot(&s.snap));
            }),
            body(|s: &S| {
                s.log.push(real_snapshot(&s.rec.snapshotter()));
            }),
        ],
        check: Box::new(|s, _| {
            s.log.push(real_snapshot(&s.snap));
            let snaps = s.log.get();
            let all: String = snaps.iter().flatten().filter(|l| l.starts_with("H|")).map(|l| l.split('|').nth(4).unwrap_or("").to_string()).collect::<Vec<_>>().join(" ");
            let one = format!("{:x}", 1.0f64.to_bits());
            let two = format!("{:x}", 2.0f64.to_bits());
            if all.matches(&one).count() != 1 || all.matches(&two).count() != 1 {
                return fail("histogram-value-not-in-exactly-one-snapshot", format!("recorded 1.0 and 2.0; histogram values over the three snapshots (two of them concurrent): {:?}", all));
            }
            Verdict::Ok(all)
        }),
        termination_promised: true,
    };
    vsched::explore(&scn, &Cfg { max_bound: pb, horizon: 20000 }, ctx, res);
}

fn e1(ctx: &Ctx, res: &mut PartResult, pb: usize) {
    let scn = Scenario {
        name: "recorder thread (histogram record(1), record(2), counter inc(3)) || snapshotter (snapshot x2), then a final snapshot".into(),
        setup: Box::new(|| {
            let rec = DebuggingRecorder::new();
            let snap = rec.snapshotter();
            S { rec, snap, log: Log::new() }
        }),
        bodies: vec![
            body(|s: &S| {
                let h = s.rec.register_histogram(&mk_key(0), &META);
                h.record(1.0);
                h.record(2.0);
                s.rec.register_counter(&mk_key(0), &META).increment(3);
            }),
            body(|s: &S| {
                s.log.push(real_snapshot(&s.snap));
                s.log.push(real_snapshot(&s.snap));
            }),
        ],
        check: Box::new(|s, _| {
            s.log.push(real_snapshot(&s.snap));
            let snaps = s.log.get();
            let mut seen: Vec<String> = Vec::new();
            let mut last_c = 0u64;
            for sn in &snaps {
                for line in sn {
                    let f: Vec<&str> = line.split('|').collect();
                    if f[0] == "H" {
                        seen.push(f[4].to_string());
                    }
                    if f[0] == "C" {
                        let c: u64 = f[4][1..].parse().unwrap();
                        if c < last_c {
                            return fail("snapshot-value-wrong", format!("counter went from {} to {}", last_c, c));
                        }
                        last_c = c;
                    }
                }
            }
            let all: String = seen.join(" ");
            let one = format!("{:x}", 1.0f64.to_bits());
            let two = format!("{:x}", 2.0f64.to_bits());
            if all.matches(&one).count() != 1 || all.matches(&two).count() != 1 {
                return fail("histogram-value-not-in-exactly-one-snapshot", format!("recorded 1.0 and 2.0; histogram values over the three snapshots: {:?}", seen));
            }
            if last_c != 3 {
                return fail("snapshot-value-wrong", format!("final counter {}", last_c));
            }
            let last = snaps.last().unwrap();
            if last.len() != 2 || !last[0].starts_with("H|") || !last[1].starts_with("C|") {
                return fail("snapshot-lists-wrong-metrics-or-order", format!("final snapshot {:?}", last));
            }
            Verdict::Ok(format!("{:?}", seen))
        }),
        termination_promised: true,
    };
    vsched::explore(&scn, &Cfg { max_bound: pb, horizon: 20000 }, ctx, res);
}

fn parts(ctx: &Ctx) -> Vec<PartSpec> {
    let mut v = vec![PartSpec::new("e3-local-threads", json!({"local": true})), PartSpec::new("e3-local-scopes-one-thread", json!({"scopes": true})), PartSpec::new("e3-many-metrics", json!({"many": true}))];
    if ctx.quick() {
        for f in 0..alphabet().len() {
            v.push(PartSpec::new(&format!("e3-d5-first{}", f), json!({"depth": 5, "first": f})).budget(150.0));
        }
        v.push(PartSpec::new("e3-blocks-d4", json!({"depth": 4, "blocks": true})).budget(150.0));
        v.push(PartSpec::new("e1-record-vs-snapshot-pb2", json!({"e1": 2})).cpus("0"));
        v.push(PartSpec::new("e1-record-vs-snapshot-impatient-waits-pb1", json!({"e1": 1, "impatient": 24})).cpus("0"));
        v.push(PartSpec::new("e1-two-registrants-pb2", json!({"e1": 2, "two": true})).cpus("0"));
        v.push(PartSpec::new("e1-two-snapshotters-pb2", json!({"e1": 2, "snaps": true})).cpus("0"));
        v.push(PartSpec::new("e1-two-updaters-pb2", json!({"e1": 2, "updaters": true})).cpus("0"));
    } else {
        for f in 0..alphabet().len() {
            v.push(PartSpec::new(&format!("e3-d6-first{}", f), json!({"depth": 6, "first": f})).budget(2400.0));
        }
        v.push(PartSpec::new("e3-blocks-d6", json!({"depth": 6, "blocks": true})).budget(2400.0));
        v.push(PartSpec::new("e1-record-vs-snapshot-pb4", json!({"e1": 4})).cpus("0").budget(1500.0));
        v.push(PartSpec::new("e1-record-vs-snapshot-impatient-waits-pb2", json!({"e1": 2, "impatient": 24})).cpus("3").budget(1500.0));
        v.push(PartSpec::new("e1-two-registrants-pb3", json!({"e1": 3, "two": true})).cpus("1").budget(1500.0));
        v.push(PartSpec::new("e1-two-snapshotters-pb3", json!({"e1": 3, "snaps": true})).cpus("2").budget(1500.0));
        v.push(PartSpec::new("e1-two-updaters-pb3", json!({"e1": 3, "updaters": true})).cpus("4").budget(1500.0));
    }
    v
}

fn run(ctx: &Ctx, spec: &PartSpec) -> PartResult {
    let mut res = PartResult::new(&spec.name, "");
    if let Some(k) = spec.arg["impatient"].as_u64() {
        vsched::IMPATIENT.store(k as u32, std::sync::atomic::Ordering::Relaxed);
    }
    if spec.arg["many"].as_bool() == Some(true) {
        many_part(&mut res);
    } else if spec.arg["scopes"].as_bool() == Some(true) {
        scopes_part(&mut res);
    } else if spec.arg["local"].as_bool() == Some(true) {
        local_threads(&mut res);
    } else if let Some(pb) = spec.arg["e1"].as_u64() {
        if spec.arg["updaters"].as_bool() == Some(true) {
            e1_two_updaters(ctx, &mut res, pb as usize);
        } else if spec.arg["snaps"].as_bool() == Some(true) {
            e1_two_snapshotters(ctx, &mut res, pb as usize);
        } else if spec.arg["two"].as_bool() == Some(true) {
            e1_two_registrants(ctx, &mut res, pb as usize);
        } else {
            e1(ctx, &mut res, pb as usize);
        }
    } else {
        e3(ctx, &mut res, spec.arg["depth"].as_u64().unwrap_or(4) as usize, spec.arg["first"].as_u64().map(|x| x as usize), spec.arg["blocks"].as_bool().unwrap_or(false));
    }
    res
}

fn main() {
    driver::main(CheckDef {
        prop: "C19",
        level: "model_checking",
        rule: "E3: every sequence of depth <= 4 (thorough 6) over {63, 64, 65, 130 records into one histogram, one record, 65 records into another, snapshot} (windows around the 64-slot block size of the bucket); every sequence of the stated depth over 19 operations (describe with two different units / without unit and four texts, register of 4 keys incl. an equal key built differently, absolute counter values below and above the current one, increments through a pair of equal keys whose two labels share a name and are spelled in either order and the same name under three kinds, counter/gauge/histogram updates incl. record_many with counts 0 and 3, snapshot) on a fresh real DebuggingRecorder, plus a final snapshot; every snapshot compared with a reference (first-registration order, described-only metrics absent, latest description, unit kept, histogram values since the previous snapshot); 450 metrics on one recorder with snapshots at doubling sizes (every map grows several times); all pairs of 3-step macro programs on two threads with local recorders; all programs of <= 2 local scopes (closure or guard, left normally or by a caught panic, optionally one nested scope) over two recorders on one thread, each recorder's snapshot listing exactly the emissions made while it was innermost; E1: all SC interleavings of a recording thread with a snapshotting thread, of two registrants, of two snapshotters, and of two threads updating one gauge and one counter through their own handles; distinct = distinct snapshots; counter.absolute below and above the current value",
        assumptions: &["E1: sequential consistency, one registry shard"],
        parts,
        run,
    });
}
