//! C06 — the registry keeps exactly one storage per metric kind and key (E3 + E1).
use metrics::{CounterFn, GaugeFn, HistogramFn, Key, Label};
use metrics_util::registry::{Registry, Storage};
use std::collections::BTreeMap;
use std::sync::atomic::{AtomicUsize, Ordering};
use std::sync::Arc;
use vcore::driver::{self, CheckDef, Ctx, PartResult, PartSpec};
use vcore::json;
use vcore::vseq;
use vcore::vsched::{self, body, fail, Body, Cfg, Log, Scenario, Verdict};

/// A storage that counts constructions: every storage object carries a unique id.
#[derive(Debug)]
struct Tagged(usize);
impl CounterFn for Tagged {
    fn increment(&self, _: u64) {}
    fn absolute(&self, _: u64) {}
}
impl GaugeFn for Tagged {
    fn increment(&self, _: f64) {}
    fn decrement(&self, _: f64) {}
    fn set(&self, _: f64) {}
}
impl HistogramFn for Tagged {
    fn record(&self, _: f64) {}
}
struct Counting(Arc<AtomicUsize>);
impl Storage<Key> for Counting {
    type Counter = Arc<Tagged>;
    type Gauge = Arc<Tagged>;
    type Histogram = Arc<Tagged>;
    fn counter(&self, _: &Key) -> Arc<Tagged> {
        Arc::new(Tagged(self.0.fetch_add(1, Ordering::SeqCst)))
    }
    fn gauge(&self, _: &Key) -> Arc<Tagged> {
        Arc::new(Tagged(self.0.fetch_add(1, Ordering::SeqCst)))
    }
    fn histogram(&self, _: &Key) -> Arc<Tagged> {
        Arc::new(Tagged(self.0.fetch_add(1, Ordering::SeqCst)))
    }
}

#[derive(Clone, Copy, Debug, PartialEq, Eq, PartialOrd, Ord, Hash)]
enum Kind {
    C,
    G,
    H,
}
#[derive(Clone, Copy, Debug)]
enum Pred {
    KeepK1,
    DropAll,
}
#[derive(Clone, Copy, Debug)]
enum Op {
    /// get_or_create through ONE static, not-yet-hashed Key object shared by all threads (what the macros' per-call-site
    /// statics are): equal to key 0/1
    GocShared(Kind),
    Goc(Kind, usize),
    /// get_or_create whose `op` closure panics (caught): for an absent key the entry is created first, and the panic
    /// unwinds while the shard's write lock is held (the lock is poisoned from then on)
    GocPanic(Kind, usize),
    Get(Kind, usize),
    Del(Kind, usize),
    Retain(Kind, Pred),
    Clear,
    Visit(Kind),
    Handles(Kind),
}

static L_AB: [Label; 2] = [Label::from_static_parts("b", "2"), Label::from_static_parts("a", "1")];

/// key universe: 0 = k1, 1 = k1' (equal to k1: static, permuted labels, hash not yet computed), 2 = k2 (same name,
/// fewer labels), 3 = k3 (different name, same shard as k1 under 16 shards)
fn mk_key(i: usize, k3name: &str) -> Key {
    match i {
        0 => Key::from_parts("m", vec![Label::new("a", "1"), Label::new("b", "2")]),
        1 => Key::from_static_parts("m", &L_AB),
        2 => Key::from_parts(String::from("m"), vec![Label::new("a", "1")]),
        // two labels with the SAME name and different values, supplied in either order: equal keys (key equality treats
        // two labels as an unordered pair), so one storage
        5 => Key::from_parts("z", vec![Label::new("zone", "a"), Label::new("zone", "b")]),
        6 => Key::from_parts("z", vec![Label::new("zone", "b"), Label::new("zone", "a")]),
        // equal to k1 once more: a CLONE of the static key taken before its hash was ever computed (what a caller does
        // that keeps a copy of a macro's key), and a clone taken after
        7 => Key::from_static_parts("m", &L_AB).clone(),
        8 => {
            let k = Key::from_static_parts("m", &L_AB);
            let _ = k.get_hash();
            k.clone()
        }
        // equal to k1 again, derived from an already hashed base key
        4 => Key::from_parts("m", vec![Label::new("a", "1")]).with_extra_labels(vec![Label::new("b", "2")]),
        // three labels, the first one in place and the other two in either order: equal keys, one storage
        9 => Key::from_parts("t", vec![Label::new("a", "1"), Label::new("b", "2"), Label::new("c", "3")]),
        10 => Key::from_parts("t", vec![Label::new("a", "1"), Label::new("c", "3"), Label::new("b", "2")]),
        // five labels, the last two swapped
        11 => Key::from_parts("t", vec![Label::new("a", "1"), Label::new("b", "2"), Label::new("c", "3"), Label::new("d", "4"), Label::new("e", "5")]),
        12 => Key::from_parts("t", vec![Label::new("a", "1"), Label::new("b", "2"), Label::new("c", "3"), Label::new("e", "5"), Label::new("d", "4")]),
        _ => Key::from_name(k3name.to_string()),
    }
}
fn canon(k: &Key) -> String {
    let mut l: Vec<String> = k.labels().map(|l| format!("{}={}", l.key(), l.value())).collect();
    l.sort();
    format!("{}{{{}}}", k.name(), l.join(","))
}
fn find_k3() -> String {
    let h1 = mk_key(0, "").get_hash();
    for i in 0..100000 {
        let n = format!("n{}", i);
        if Key::from_name(n.clone()).get_hash() & 15 == h1 & 15 {
            return n;
        }
    }
    panic!("no colliding key found");
}

fn alphabet() -> Vec<Op> {
    use Kind::*;
    let mut a = Vec::new();
    for (k, keys) in [(C, vec![0, 1, 2, 3, 4, 7]), (G, vec![0, 2, 8]), (H, vec![1])] {
        for i in keys {
            a.push(Op::Goc(k, i));
        }
    }
    a.extend([Op::GocPanic(C, 3), Op::GocPanic(G, 0), Op::GocPanic(H, 1)]);
    a.extend([Op::Get(C, 1), Op::Get(C, 2), Op::Get(C, 7), Op::Get(G, 0), Op::Get(H, 0)]);
    a.extend([Op::Del(C, 0), Op::Del(C, 4), Op::Del(C, 3), Op::Del(G, 1), Op::Del(H, 0)]);
    a.extend([Op::Retain(C, Pred::KeepK1), Op::Retain(C, Pred::DropAll), Op::Retain(G, Pred::DropAll), Op::Retain(H, Pred::KeepK1)]);
    a.push(Op::Clear);
    a.extend([Op::Visit(C), Op::Visit(G), Op::Visit(H), Op::Handles(C), Op::Handles(G), Op::Handles(H)]);
    a
}

/// second, small alphabet: the pair of equal keys whose two labels share a name, and pairs of equal keys with 3 and 5
/// labels that differ in the order of the labels after the first
fn alphabet_samename() -> Vec<Op> {
    use Kind::*;
    vec![Op::Goc(G, 5), Op::Goc(G, 6), Op::Goc(C, 6), Op::Get(G, 5), Op::Get(G, 6), Op::Del(G, 5), Op::Del(G, 6), Op::Retain(G, Pred::DropAll), Op::Visit(G), Op::Handles(G), Op::Clear, Op::Goc(G, 9), Op::Goc(G, 10), Op::Get(G, 10), Op::Del(G, 9), Op::Goc(C, 11), Op::Goc(C, 12), Op::Get(C, 11)]
}

type Model = BTreeMap<(Kind, String), usize>;

fn listing(reg: &Registry<Key, Counting>, kind: Kind, via_handles: bool) -> Vec<(String, usize)> {
    let mut v: Vec<(String, usize)> = Vec::new();
    if via_handles {
        match kind {
            Kind::C => reg.get_counter_handles().into_iter().for_each(|(k, s)| v.push((canon(&k), s.0))),
            Kind::G => reg.get_gauge_handles().into_iter().for_each(|(k, s)| v.push((canon(&k), s.0))),
            Kind::H => reg.get_histogram_handles().into_iter().for_each(|(k, s)| v.push((canon(&k), s.0))),
        }
    } else {
        match kind {
            Kind::C => reg.visit_counters(|k, s| v.push((canon(k), s.0))),
            Kind::G => reg.visit_gauges(|k, s| v.push((canon(k), s.0))),
            Kind::H => reg.visit_histograms(|k, s| v.push((canon(k), s.0))),
        }
    }
    v.sort();
    v
}
fn model_listing(m: &Model, kind: Kind) -> Vec<(String, usize)> {
    m.iter().filter(|((k, _), _)| *k == kind).map(|((_, c), id)| (c.clone(), *id)).collect()
}

/// apply one op to the real registry; returns a description of its result
fn apply_real(reg: &Registry<Key, Counting>, op: Op, k3: &str) -> String {
    apply_real_shared(reg, op, k3, None)
}
fn apply_real_shared(reg: &Registry<Key, Counting>, op: Op, k3: &str, shared: Option<&Key>) -> String {
    match op {
        Op::GocShared(kind) => {
            let k = shared.expect("shared key");
            let id = match kind {
                Kind::C => reg.get_or_create_counter(k, |s| s.0),
                Kind::G => reg.get_or_create_gauge(k, |s| s.0),
                Kind::H => reg.get_or_create_histogram(k, |s| s.0),
            };
            format!("id{}", id)
        }
        Op::Goc(kind, i) => {
            let k = mk_key(i, k3);
            let id = match kind {
                Kind::C => reg.get_or_create_counter(&k, |s| s.0),
                Kind::G => reg.get_or_create_gauge(&k, |s| s.0),
                Kind::H => reg.get_or_create_histogram(&k, |s| s.0),
            };
            format!("id{}", id)
        }
        Op::GocPanic(kind, i) => {
            let k = mk_key(i, k3);
            let r = std::panic::catch_unwind(std::panic::AssertUnwindSafe(|| match kind {
                Kind::C => reg.get_or_create_counter(&k, |_| -> usize { panic!("op closure panics") }),
                Kind::G => reg.get_or_create_gauge(&k, |_| -> usize { panic!("op closure panics") }),
                Kind::H => reg.get_or_create_histogram(&k, |_| -> usize { panic!("op closure panics") }),
            }));
            format!("panicked={}", r.is_err())
        }
        Op::Get(kind, i) => {
            let k = mk_key(i, k3);
            let r = match kind {
                Kind::C => reg.get_counter(&k).map(|s| s.0),
                Kind::G => reg.get_gauge(&k).map(|s| s.0),
                Kind::H => reg.get_histogram(&k).map(|s| s.0),
            };
            format!("{:?}", r)
        }
        Op::Del(kind, i) => {
            let k = mk_key(i, k3);
            let r = match kind {
                Kind::C => reg.delete_counter(&k),
                Kind::G => reg.delete_gauge(&k),
                Kind::H => reg.delete_histogram(&k),
            };
            format!("{}", r)
        }
        Op::Retain(kind, p) => {
            let k1 = canon(&mk_key(0, k3));
            let mut seen: Vec<(String, usize)> = Vec::new();
            let mut f = |k: &Key, s: &Arc<Tagged>| {
                seen.push((canon(k), s.0));
                match p {
                    Pred::KeepK1 => canon(k) == k1,
                    Pred::DropAll => false,
                }
            };
            match kind {
                Kind::C => reg.retain_counters(&mut f),
                Kind::G => reg.retain_gauges(&mut f),
                Kind::H => reg.retain_histograms(&mut f),
            }
            seen.sort();
            format!("{:?}", seen)
        }
        Op::Clear => {
            reg.clear();
            String::new()
        }
        Op::Visit(kind) => format!("{:?}", listing(reg, kind, false)),
        Op::Handles(kind) => format!("{:?}", listing(reg, kind, true)),
    }
}

fn apply_model(m: &mut Model, next_id: &mut usize, op: Op, k3: &str) -> String {
    match op {
        Op::GocShared(kind) => apply_model(m, next_id, Op::Goc(kind, 1), k3),
        Op::Goc(kind, i) => {
            let c = canon(&mk_key(i, k3));
            let id = *m.entry((kind, c)).or_insert_with(|| {
                let id = *next_id;
                *next_id += 1;
                id
            });
            format!("id{}", id)
        }
        Op::GocPanic(kind, i) => {
            // the entry exists afterwards whether or not it did before; the closure's panic reaches the caller
            let _ = apply_model(m, next_id, Op::Goc(kind, i), k3);
            "panicked=true".into()
        }
        Op::Get(kind, i) => format!("{:?}", m.get(&(kind, canon(&mk_key(i, k3))))),
        Op::Del(kind, i) => format!("{}", m.remove(&(kind, canon(&mk_key(i, k3)))).is_some()),
        Op::Retain(kind, p) => {
            let seen = model_listing(m, kind);
            let k1 = canon(&mk_key(0, k3));
            m.retain(|(k, c), _| {
                *k != kind
                    || match p {
                        Pred::KeepK1 => *c == k1,
                        Pred::DropAll => false,
                    }
            });
            format!("{:?}", seen)
        }
        Op::Clear => {
            m.clear();
            String::new()
        }
        Op::Visit(kind) | Op::Handles(kind) => format!("{:?}", model_listing(m, kind)),
    }
}

// ------------------------------------------------------------------ a caller's own key type
/// `Registry<K, S>` takes any `K: Clone + Eq + Hashable`, and a hash only promises "equal keys hash equally": keys 0 and
/// 1 below are DIFFERENT keys with the same 64-bit hash (2 is unrelated). Different keys never share storage, whatever
/// their hashes: every sequence of get_or_create / get / delete over the three keys and two kinds against the map reference.
#[derive(Clone, PartialEq, Eq, Debug)]
struct Coarse(u8);
impl std::hash::Hash for Coarse {
    fn hash<H: std::hash::Hasher>(&self, h: &mut H) {
        (self.0 / 2).hash(h)
    }
}
/// the stock wrapper that makes any `Hash` type a registry key
type CK = metrics_util::DefaultHashable<Coarse>;
#[allow(non_snake_case)]
fn CK(k: u8) -> CK {
    metrics_util::DefaultHashable(Coarse(k))
}
struct CountingCK(Arc<AtomicUsize>);
impl Storage<CK> for CountingCK {
    type Counter = Arc<Tagged>;
    type Gauge = Arc<Tagged>;
    type Histogram = Arc<Tagged>;
    fn counter(&self, _: &CK) -> Arc<Tagged> {
        Arc::new(Tagged(self.0.fetch_add(1, Ordering::SeqCst)))
    }
    fn gauge(&self, _: &CK) -> Arc<Tagged> {
        Arc::new(Tagged(self.0.fetch_add(1, Ordering::SeqCst)))
    }
    fn histogram(&self, _: &CK) -> Arc<Tagged> {
        Arc::new(Tagged(self.0.fetch_add(1, Ordering::SeqCst)))
    }
}
fn custom_key_part(ctx: &Ctx, res: &mut PartResult, depth: usize) {
    res.engine = "E3 bounded exhaustive op sequences on Registry<K, S> for a caller's key type with colliding hashes".into();
    // ops: for kind in {counter, histogram}, key in 0..3: get_or_create, get, delete; + listing of both kinds
    let n_ops = 2 * 3 * 3 + 1;
    let mut states = vseq::States::new();
    let mut fails: Vec<(String, String, Vec<usize>)> = Vec::new();
    let mut transitions = 0u64;
    let mut run = |seq: &[usize]| -> Option<usize> {
        let made = Arc::new(AtomicUsize::new(0));
        let reg: Registry<CK, CountingCK> = Registry::new(CountingCK(made.clone()));
        let mut m: BTreeMap<(usize, u8), usize> = BTreeMap::new();
        let mut next = 0usize;
        for (i, op) in seq.iter().enumerate() {
            transitions += 1;
            let (got, want): (String, String) = if *op == n_ops - 1 {
                let mut l: Vec<(usize, u8, usize)> = Vec::new();
                reg.visit_counters(|k, s| l.push((0, (k.0).0, s.0)));
                for (k, s) in reg.get_histogram_handles() {
                    l.push((1, (k.0).0, s.0));
                }
                l.sort();
                (format!("{:?}", l), format!("{:?}", m.iter().map(|((kind, k), id)| (*kind, *k, *id)).collect::<Vec<_>>()))
            } else {
                let (kind, rest) = (op / 9, op % 9);
                let (key, what) = ((rest / 3) as u8, rest % 3);
                let k = CK(key);
                match what {
                    0 => {
                        let id = if kind == 0 { reg.get_or_create_counter(&k, |s| s.0) } else { reg.get_or_create_histogram(&k, |s| s.0) };
                        let w = *m.entry((kind, key)).or_insert_with(|| {
                            next += 1;
                            next - 1
                        });
                        (format!("id{}", id), format!("id{}", w))
                    }
                    1 => {
                        let r = if kind == 0 { reg.get_counter(&k).map(|s| s.0) } else { reg.get_histogram(&k).map(|s| s.0) };
                        (format!("{:?}", r), format!("{:?}", m.get(&(kind, key))))
                    }
                    _ => {
                        let r = if kind == 0 { reg.delete_counter(&k) } else { reg.delete_histogram(&k) };
                        (format!("{}", r), format!("{}", m.remove(&(kind, key)).is_some()))
                    }
                }
            };
            if got != want || made.load(Ordering::SeqCst) != next {
                fails.push(("different-keys-share-storage-or-equal-keys-do-not".into(), format!("custom key type (keys 0 and 1 differ but hash alike): step {} of {:?} (op = kind*9 + key*3 + {{0 get_or_create, 1 get, 2 delete}}, 18 = listing) returned {}, the map reference says {}; {} storages constructed, reference {}", i, &seq[..=i], got, want, made.load(Ordering::SeqCst), next), seq[..=i].to_vec()));
                return Some(i);
            }
        }
        states.add(&format!("{:?}", m));
        None
    };
    if let Some(seq) = ctx.replay.as_ref().and_then(|r| r["seq"].as_array().map(|a| a.iter().map(|x| x.as_u64().unwrap() as usize).collect::<Vec<usize>>())) {
        run(&seq);
        res.executions = 1;
    } else {
        let (n, complete) = vseq::for_each_seq(n_ops, depth, &mut run, &|| ctx.over_budget());
        res.executions = n;
        res.exhaustive = complete;
    }
    res.transitions = transitions;
    res.states = states.len();
    res.distinct_outcomes = states.len();
    res.bound = json!({"depth": depth, "alphabet": n_ops, "keys": "0 and 1 collide (same 64-bit hash), 2 does not"});
    for (sig, msg, seq) in fails.into_iter().take(10) {
        res.violation(&sig, msg, json!({"seq": seq}));
    }
}

/// Many keys of one kind (the shard's hash table has to grow several times: its capacity thresholds are 3, 7, 14, 28,
/// 56 ...): after every registration every key registered so far is still found, by `get` and by `get_or_create`, with
/// its own storage, and is listed once; afterwards every key is deleted exactly once.
fn many_keys_part(res: &mut PartResult) {
    res.engine = "E3 growth of one shard's table: n keys of one kind, lookups of all of them after every insertion".into();
    let mut states = vseq::States::new();
    for kind in [Kind::C, Kind::G, Kind::H] {
        let made = Arc::new(AtomicUsize::new(0));
        let reg: Registry<Key, Counting> = Registry::new(Counting(made.clone()));
        let keys: Vec<Key> = (0..120).map(|i| if i % 2 == 0 { Key::from_name(format!("many{}", i)) } else { Key::from_parts(format!("many{}", i), vec![Label::new("i", i.to_string())]) }).collect();
        let goc = |k: &Key| match kind {
            Kind::C => reg.get_or_create_counter(k, |s| s.0),
            Kind::G => reg.get_or_create_gauge(k, |s| s.0),
            Kind::H => reg.get_or_create_histogram(k, |s| s.0),
        };
        let get = |k: &Key| match kind {
            Kind::C => reg.get_counter(k).map(|s| s.0),
            Kind::G => reg.get_gauge(k).map(|s| s.0),
            Kind::H => reg.get_histogram(k).map(|s| s.0),
        };
        let mut ids: Vec<usize> = Vec::new();
        'grow: for n in 0..keys.len() {
            res.executions += 1;
            ids.push(goc(&keys[n]));
            for j in 0..=n {
                res.transitions += 2;
                let (g, c) = (get(&keys[j]), goc(&keys[j]));
                if g != Some(ids[j]) || c != ids[j] {
                    res.violation("get-wrong-storage", format!("{:?}: after registering {} keys, key #{} ({}) is found as {:?} by get and as id{} by get_or_create; its storage is id{}", kind, n + 1, j, canon(&keys[j]), g, c, ids[j]), json!({"many": n}));
                    break 'grow;
                }
            }
            if made.load(Ordering::SeqCst) != n + 1 {
                res.violation("storage-constructed-more-than-once", format!("{:?}: {} storages constructed for {} keys", kind, made.load(Ordering::SeqCst), n + 1), json!({"many": n}));
                break;
            }
            let l = listing(&reg, kind, n % 2 == 0);
            if l.len() != n + 1 {
                res.violation("listing-differs-from-live-keys", format!("{:?}: {} keys registered, the listing has {} rows", kind, n + 1, l.len()), json!({"many": n}));
                break;
            }
        }
        states.add(&(kind, ids.len()));
        for k in &keys {
            let (a, b) = match kind {
                Kind::C => (reg.delete_counter(k), reg.delete_counter(k)),
                Kind::G => (reg.delete_gauge(k), reg.delete_gauge(k)),
                Kind::H => (reg.delete_histogram(k), reg.delete_histogram(k)),
            };
            if !(a && !b) && res.violations.is_empty() {
                res.violation("delete-reports-untruthfully", format!("{:?}: deleting {} twice reported ({}, {})", kind, canon(k), a, b), json!({"many": 0}));
            }
        }
    }
    res.states = states.len();
    res.distinct_outcomes = states.len();
    res.sample(json!({"keys": 120, "kinds": 3, "check": "after every registration all earlier keys are still found with their own storage"}));
}

fn e3(ctx: &Ctx, res: &mut PartResult, depth: usize, first: Option<usize>, samename: bool) {
    res.engine = "E3 bounded exhaustive op sequences on the real Registry vs a map reference".into();
    let alpha = if samename { alphabet_samename() } else { alphabet() };
    let k3 = find_k3();
    let shards = std::thread::available_parallelism().map(|x| x.get()).unwrap_or(1).next_power_of_two();
    let mut states = vseq::States::new();
    let mut fails: Vec<(String, String, Vec<usize>)> = Vec::new();
    let mut transitions = 0u64;
    let replay_seq: Option<Vec<usize>> = ctx.replay.as_ref().and_then(|r| r["seq"].as_array().map(|a| a.iter().map(|x| x.as_u64().unwrap() as usize).collect()));
    let mut run_seq = |tail: &[usize]| -> Option<usize> {
        let mut seq: Vec<usize> = Vec::new();
        if let Some(f) = first {
            seq.push(f);
        }
        seq.extend_from_slice(tail);
        let off = if first.is_some() { 1 } else { 0 };
        let made = Arc::new(AtomicUsize::new(0));
        let reg = Registry::new(Counting(made.clone()));
        let mut m: Model = BTreeMap::new();
        let mut next_id = 0usize;
        for (i, o) in seq.iter().enumerate() {
            transitions += 1;
            let op = alpha[*o];
            let real = match vseq::catch(|| apply_real(&reg, op, &k3)) {
                Ok(r) => r,
                Err(e) => {
                    fails.push(("registry-panic".into(), format!("{:?} panicked: {}", op, e), seq[..=i].to_vec()));
                    return Some(i.saturating_sub(off));
                }
            };
            let want = apply_model(&mut m, &mut next_id, op, &k3);
            let mut bad: Option<(&str, String)> = None;
            if real != want {
                let sig = match op {
                    Op::Goc(..) | Op::GocShared(..) | Op::GocPanic(..) => "get-or-create-wrong-storage",
                    Op::Get(..) => "get-wrong-storage",
                    Op::Del(..) => "delete-reports-untruthfully",
                    Op::Retain(..) => "retain-visits-wrong-entries",
                    Op::Clear => "clear",
                    Op::Visit(..) | Op::Handles(..) => "listing-differs-from-live-keys",
                };
                bad = Some((sig, format!("{:?} returned {} expected {}", op, real, want)));
            }
            if bad.is_none() && made.load(Ordering::SeqCst) != next_id {
                bad = Some(("storage-constructed-more-than-once", format!("{} storages constructed, reference says {}", made.load(Ordering::SeqCst), next_id)));
            }
            if bad.is_none() {
                // full state comparison after every step, through both listing APIs
                for kind in [Kind::C, Kind::G, Kind::H] {
                    let ml = model_listing(&m, kind);
                    let (a, b) = (listing(&reg, kind, false), listing(&reg, kind, true));
                    if a != ml || b != ml {
                        bad = Some(("listing-differs-from-live-keys", format!("after {:?}: {:?} listing visit={:?} handles={:?} reference={:?}", op, kind, a, b, ml)));
                        break;
                    }
                }
            }
            states.add(&format!("{:?}", m));
            if let Some((sig, msg)) = bad {
                fails.push((sig.into(), format!("{} (sequence {:?}, {} shards)", msg, seq[..=i].iter().map(|x| alpha[*x]).collect::<Vec<_>>(), shards), seq[..=i].to_vec()));
                return Some(i.saturating_sub(off));
            }
        }
        None
    };
    if let Some(seq) = replay_seq {
        let f = first.is_some();
        run_seq(if f { &seq[1..] } else { &seq[..] });
        res.executions = 1;
    } else {
        let d = if first.is_some() { depth - 1 } else { depth };
        let (n, complete) = vseq::for_each_seq(alpha.len(), d, &mut run_seq, &|| ctx.over_budget());
        res.executions = n;
        res.exhaustive = complete;
        if !complete {
            res.cap_hit = Some("budget (cpu time of the part)".into());
        }
    }
    res.transitions = transitions;
    res.states = states.len();
    res.distinct_outcomes = states.len();
    res.bound = json!({"depth": depth, "alphabet": alpha.len(), "shards": shards, "first_op_fixed": first});
    for (sig, msg, seq) in fails {
        res.violation(&sig, msg, json!({"seq": seq}));
    }
    res.sample(json!({"ops": format!("{:?}", [alpha[0], alpha[1], alpha[alpha.len() / 2], alpha[alpha.len() - 2]]), "shards": shards}));
}

// ------------------------------------------------------------------ E1
#[derive(Clone, Debug)]
enum Ev {
    Call(usize),
    Ret(usize, String),
}
struct S {
    reg: Registry<Key, Counting>,
    made: Arc<AtomicUsize>,
    log: Log<Ev>,
    k3: String,
    shared: &'static Key,
}

fn e1_scenario(name: &str, threads: Vec<Vec<Op>>) -> Scenario<S> {
    let mut bodies: Vec<Body<S>> = Vec::new();
    let mut opid = 0;
    let mut flat: Vec<Op> = Vec::new();
    for ops in &threads {
        let ops: Vec<(usize, Op)> = ops.iter().map(|o| {
            opid += 1;
            flat.push(*o);
            (opid - 1, *o)
        }).collect();
        bodies.push(body(move |s: &S| {
            for (id, op) in &ops {
                s.log.push(Ev::Call(*id));
                let r = apply_real_shared(&s.reg, *op, &s.k3, Some(s.shared));
                s.log.push(Ev::Ret(*id, r));
            }
        }));
    }
    Scenario {
        name: name.into(),
        setup: Box::new(|| {
            let made = Arc::new(AtomicUsize::new(0));
            S { reg: Registry::new(Counting(made.clone())), made, log: Log::new(), k3: find_k3(), shared: Box::leak(Box::new(Key::from_static_parts("m", &L_AB))) }
        }),
        bodies,
        check: Box::new(move |s, _| {
            let log = s.log.get();
            let n = flat.len();
            let mut call = vec![0usize; n];
            let mut ret = vec![0usize; n];
            let mut result = vec![String::new(); n];
            for (i, e) in log.iter().enumerate() {
                match e {
                    Ev::Call(id) => call[*id] = i,
                    Ev::Ret(id, r) => {
                        ret[*id] = i;
                        result[*id] = r.clone();
                    }
                }
            }
            // sequential spec: the map reference, where a create of an absent key may return any id not used before
            #[derive(Clone)]
            struct St {
                m: Model,
                used: Vec<usize>,
            }
            let flat2 = flat.clone();
            let k3 = s.k3.clone();
            let apply = |st: &St, i: usize| -> Option<St> {
                let mut st = st.clone();
                match flat2[i] {
                    Op::Goc(kind, _) | Op::GocShared(kind) => {
                        let ki = if let Op::Goc(_, ki) = flat2[i] { ki } else { 1 };
                        let c = canon(&mk_key(ki, &k3));
                        let got: usize = result[i].trim_start_matches("id").parse().ok()?;
                        match st.m.get(&(kind, c.clone())) {
                            Some(id) => {
                                if *id != got {
                                    return None;
                                }
                            }
                            None => {
                                if st.used.contains(&got) {
                                    return None;
                                }
                                st.used.push(got);
                                st.m.insert((kind, c), got);
                            }
                        }
                        Some(st)
                    }
                    op => {
                        let mut nid = 0;
                        let want = apply_model(&mut st.m, &mut nid, op, &k3);
                        if want == result[i] {
                            Some(st)
                        } else {
                            None
                        }
                    }
                }
            };
            // `clear()` empties the three per-kind maps one after the other; the property promises an atomic map PER
            // KIND, so a clear call is three atomic steps (one per kind, in any order) inside the call's interval, not
            // one step across kinds. (Judging it as one step was a false alarm of this check at preemption bound 3:
            // gauges cleared, a histogram created by another thread, histograms cleared.)
            let mut vop: Vec<(usize, Option<Kind>)> = Vec::new();
            for i in 0..n {
                if matches!(flat2[i], Op::Clear) {
                    for k in [Kind::C, Kind::G, Kind::H] {
                        vop.push((i, Some(k)));
                    }
                } else {
                    vop.push((i, None));
                }
            }
            let vcall: Vec<usize> = vop.iter().map(|v| call[v.0]).collect();
            let vret: Vec<usize> = vop.iter().map(|v| ret[v.0]).collect();
            let vapply = |st: &St, vi: usize| -> Option<St> {
                match vop[vi] {
                    (i, None) => apply(st, i),
                    (_, Some(kind)) => {
                        let mut st = st.clone();
                        st.m.retain(|(k, _), _| *k != kind);
                        Some(st)
                    }
                }
            };
            if !vsched::linearizable(vop.len(), &vcall, &vret, St { m: BTreeMap::new(), used: vec![] }, &vapply) {
                return fail("registry-history-not-linearizable", format!("no sequential order of the single-map reference explains the results {:?} of {:?}", result, flat));
            }
            // at quiescence: constructions == distinct ids handed out, listing == what get returns
            let ids: std::collections::BTreeSet<String> = flat.iter().zip(result.iter()).filter(|(o, _)| matches!(o, Op::Goc(..) | Op::GocShared(..))).map(|(_, r)| r.clone()).collect();
            if s.made.load(Ordering::SeqCst) != ids.len() {
                return fail("storage-constructed-more-than-once", format!("{} storages constructed but only {} distinct ones were ever handed out", s.made.load(Ordering::SeqCst), ids.len()));
            }
            let l = listing(&s.reg, Kind::C, false);
            let mut seen = std::collections::BTreeSet::new();
            for (k, _) in &l {
                if !seen.insert(k.clone()) {
                    return fail("listing-differs-from-live-keys", format!("key {} listed twice: {:?}", k, l));
                }
            }
            Verdict::Ok(format!("{:?} final={:?}", result, l))
        }),
        termination_promised: true,
    }
}

// ------------------------------------------------------------------ E1: get-or-create applies its operation to the live storage
/// a storage with a value (every access is a scheduling point)
struct Val {
    id: usize,
    v: metrics::verif::atomic::AtomicU64,
}
impl CounterFn for Val {
    fn increment(&self, d: u64) {
        self.v.fetch_add(d, Ordering::SeqCst);
    }
    fn absolute(&self, _: u64) {}
}
impl GaugeFn for Val {
    fn increment(&self, _: f64) {}
    fn decrement(&self, _: f64) {}
    fn set(&self, _: f64) {}
}
impl HistogramFn for Val {
    fn record(&self, _: f64) {
        self.v.fetch_add(5, Ordering::SeqCst);
    }
}
struct ValStorage(Arc<AtomicUsize>);
impl Storage<Key> for ValStorage {
    type Counter = Arc<Val>;
    type Gauge = Arc<Val>;
    type Histogram = Arc<Val>;
    fn counter(&self, _: &Key) -> Arc<Val> {
        Arc::new(Val { id: self.0.fetch_add(1, Ordering::SeqCst), v: metrics::verif::atomic::AtomicU64::new(0) })
    }
    fn gauge(&self, _: &Key) -> Arc<Val> {
        Arc::new(Val { id: self.0.fetch_add(1, Ordering::SeqCst), v: metrics::verif::atomic::AtomicU64::new(0) })
    }
    fn histogram(&self, _: &Key) -> Arc<Val> {
        Arc::new(Val { id: self.0.fetch_add(1, Ordering::SeqCst), v: metrics::verif::atomic::AtomicU64::new(0) })
    }
}
struct SV {
    reg: Registry<Key, ValStorage>,
    made: Arc<AtomicUsize>,
    /// (thread, what, value) in the order the calls returned
    log: Log<(usize, &'static str, u64)>,
    k3: String,
}
/// Three threads get-or-create the same key and add 5 each (the operation is part of the call); a fourth kind of actor
/// sweeps with the value-dependent predicate "drop what is still zero" and lists the live handles. In the single atomic
/// map every live storage has had its creating operation applied, so the sweep removes nothing, all three additions land
/// on the one storage (the calls see 5, 10, 15 in some order), one storage is ever built, and the final value is 15.
fn e1_value_scenario(kind: Kind) -> Scenario<SV> {
    let add = move |s: &SV, t: usize, ki: usize| {
        let key = mk_key(ki, &s.k3);
        let r = match kind {
            Kind::C => s.reg.get_or_create_counter(&key, |c| c.v.fetch_add(5, Ordering::SeqCst) + 5),
            Kind::G => s.reg.get_or_create_gauge(&key, |c| c.v.fetch_add(5, Ordering::SeqCst) + 5),
            Kind::H => s.reg.get_or_create_histogram(&key, |c| c.v.fetch_add(5, Ordering::SeqCst) + 5),
        };
        s.log.push((t, "add", r));
    };
    let sweep = move |s: &SV, t: usize| {
        match kind {
            Kind::C => s.reg.retain_counters(|_, c| c.v.load(Ordering::SeqCst) != 0),
            Kind::G => s.reg.retain_gauges(|_, c| c.v.load(Ordering::SeqCst) != 0),
            Kind::H => s.reg.retain_histograms(|_, c| c.v.load(Ordering::SeqCst) != 0),
        }
        s.log.push((t, "sweep", 0));
    };
    Scenario {
        name: format!("{:?}: t0 goc(k1,+5) x2 | t1 retain(drop what is still 0), goc(k1',+5) | final get", kind),
        setup: Box::new(|| {
            let made = Arc::new(AtomicUsize::new(0));
            SV { reg: Registry::new(ValStorage(made.clone())), made, log: Log::new(), k3: find_k3() }
        }),
        bodies: vec![
            body(move |s: &SV| {
                add(s, 0, 0);
                add(s, 0, 0);
            }),
            body(move |s: &SV| {
                sweep(s, 1);
                add(s, 1, 1);
            }),
        ],
        check: Box::new(move |s, _| {
            let log = s.log.get();
            let mut adds: Vec<u64> = log.iter().filter(|e| e.1 == "add").map(|e| e.2).collect();
            adds.sort_unstable();
            let key = mk_key(0, &s.k3);
            let fin = match kind {
                Kind::C => s.reg.get_counter(&key).map(|c| c.v.load(Ordering::SeqCst)),
                Kind::G => s.reg.get_gauge(&key).map(|c| c.v.load(Ordering::SeqCst)),
                Kind::H => s.reg.get_histogram(&key).map(|c| c.v.load(Ordering::SeqCst)),
            };
            let made = s.made.load(Ordering::SeqCst);
            if adds != vec![5, 10, 15] || fin != Some(15) || made != 1 {
                return fail("update-applied-to-a-storage-that-is-not-the-live-one", format!("three get-or-create(key, +5) calls and one retain(value != 0): the calls saw {:?} (expected 5, 10, 15), the key finally holds {:?} (expected 15), {} storages were built (expected 1); log {:?}: an operation ran on a storage that was not (or no longer) the one the map holds for the key", adds, fin, made, log));
            }
            Verdict::Ok(format!("{:?}", log.iter().map(|e| (e.0, e.1)).collect::<Vec<_>>()))
        }),
        termination_promised: true,
    }
}

fn parts(ctx: &Ctx) -> Vec<PartSpec> {
    let mut v = Vec::new();
    let n = alphabet().len();
    if ctx.quick() {
        v.push(PartSpec::new("e3-d4-1shard", json!({"depth": 4})).cpus("0").budget(150.0));
        v.push(PartSpec::new("e3-d3-2shards", json!({"depth": 3})).cpus("0,1"));
        v.push(PartSpec::new("e3-d3-16shards", json!({"depth": 3})));
        v.push(PartSpec::new("e3-samename-d4-16shards", json!({"depth": 4, "samename": true})));
        v.push(PartSpec::new("e3-samename-d4-1shard", json!({"depth": 4, "samename": true})).cpus("0"));
        v.push(PartSpec::new("e3-custom-key-colliding-hashes-d4", json!({"custom": 4})));
        v.push(PartSpec::new("e3-many-keys-1shard", json!({"many": true})).cpus("0"));
        v.push(PartSpec::new("e3-many-keys-16shards", json!({"many": true})));
        for s in ["create-create-delete", "create-retain-clear", "two-kinds-two-keys", "shared-static-key", "histogram-gauge-race", "two-removers", "remover-vs-sweeps"] {
            v.push(PartSpec::new(&format!("e1-{}-pb2", s), json!({"e1": s, "pb": 2})).cpus("0"));
        }
        for k in ["C", "G", "H"] {
            v.push(PartSpec::new(&format!("e1-create-and-operate-vs-value-retain-{}-pb2", k), json!({"e1v": k, "pb": 2})).cpus("0"));
        }
        // with 16 shards a wrong hash also selects a wrong shard
        v.push(PartSpec::new("e1-shared-static-key-pb2-16shards", json!({"e1": "shared-static-key", "pb": 2})));
        v.push(PartSpec::new("e1-create-create-delete-pb1-16shards", json!({"e1": "create-create-delete", "pb": 1})));
    } else {
        for f in 0..n {
            v.push(PartSpec::new(&format!("e3-d5-1shard-first{}", f), json!({"depth": 5, "first": f})).cpus(&format!("{}", f % 16)).budget(1500.0));
        }
        v.push(PartSpec::new("e3-d4-2shards", json!({"depth": 4})).cpus("0,1").budget(1500.0));
        v.push(PartSpec::new("e3-d4-16shards", json!({"depth": 4})).budget(1500.0));
        v.push(PartSpec::new("e3-samename-d6-16shards", json!({"depth": 6, "samename": true})).budget(1500.0));
        v.push(PartSpec::new("e3-samename-d6-1shard", json!({"depth": 6, "samename": true})).cpus("0").budget(1500.0));
        for s in ["create-create-delete", "create-retain-clear", "two-kinds-two-keys", "shared-static-key", "histogram-gauge-race", "two-removers", "remover-vs-sweeps"] {
            v.push(PartSpec::new(&format!("e1-{}-pb3", s), json!({"e1": s, "pb": 3})).cpus("1").budget(1500.0));
        }
        for k in ["C", "G", "H"] {
            v.push(PartSpec::new(&format!("e1-create-and-operate-vs-value-retain-{}-pb4", k), json!({"e1v": k, "pb": 4})).cpus("1").budget(1500.0));
        }
        v.push(PartSpec::new("e1-create-create-delete-pb2-16shards", json!({"e1": "create-create-delete", "pb": 2})).budget(1500.0));
        v.push(PartSpec::new("e1-shared-static-key-pb3-16shards", json!({"e1": "shared-static-key", "pb": 3})).budget(1500.0));
    }
    v
}

fn run(ctx: &Ctx, spec: &PartSpec) -> PartResult {
    let mut res = PartResult::new(&spec.name, "");
    vseq::quiet_panics();
    if spec.arg["many"].as_bool() == Some(true) {
        many_keys_part(&mut res);
        return res;
    }
    if let Some(d) = spec.arg["custom"].as_u64() {
        custom_key_part(ctx, &mut res, d as usize);
        return res;
    }
    if let Some(k) = spec.arg["e1v"].as_str() {
        let scn = e1_value_scenario(match k {
            "C" => Kind::C,
            "G" => Kind::G,
            _ => Kind::H,
        });
        vsched::explore(&scn, &Cfg { max_bound: spec.arg["pb"].as_u64().unwrap_or(2) as usize, horizon: 20000 }, ctx, &mut res);
        return res;
    }
    if let Some(s) = spec.arg["e1"].as_str() {
        use Kind::*;
        let scn = match s {
            "create-create-delete" => e1_scenario("t0 goc(C,k1) x2 | t1 goc(C,k1'), get(C,k1) | t2 del(C,k1), goc(C,k1)", vec![vec![Op::Goc(C, 0), Op::Goc(C, 0)], vec![Op::Goc(C, 1), Op::Get(C, 0)], vec![Op::Del(C, 0), Op::Goc(C, 0)]]),
            "shared-static-key" => e1_scenario("t0 goc(C,&SHARED), get(C,k1) | t1 goc(C,&SHARED) x2 | t2 goc(C,k1 owned), goc(G,&SHARED)  (SHARED = one static key object whose hash is not memoised yet)", vec![vec![Op::GocShared(C), Op::Get(C, 0)], vec![Op::GocShared(C), Op::GocShared(C)], vec![Op::Goc(C, 0), Op::GocShared(G)]]),
            "histogram-gauge-race" => e1_scenario("t0 goc(H,k1), goc(G,k1) | t1 goc(H,k1'), goc(G,k1') | t2 goc(H,k1), get(G,k1)  (the three kinds have separate get-or-create code paths)", vec![vec![Op::Goc(H, 0), Op::Goc(G, 0)], vec![Op::Goc(H, 1), Op::Goc(G, 1)], vec![Op::Goc(H, 0), Op::Get(G, 0)]]),
            "two-removers" => e1_scenario("t0 goc(C,k1), del(C,k1) | t1 del(C,k1') x2 | t2 goc(C,k1), del(C,k1)  (removers of one key racing each other: exactly one may report the removal of each storage)", vec![vec![Op::Goc(C, 0), Op::Del(C, 0)], vec![Op::Del(C, 1), Op::Del(C, 1)], vec![Op::Goc(C, 0), Op::Del(C, 0)]]),
            "remover-vs-sweeps" => e1_scenario("t0 goc(G,k1), del(G,k1) | t1 goc(H,k1'), retain(G, drop all), del(H,k1) | t2 clear, del(G,k1'), del(H,k1')", vec![vec![Op::Goc(G, 0), Op::Del(G, 0)], vec![Op::Goc(H, 1), Op::Retain(G, Pred::DropAll), Op::Del(H, 0)], vec![Op::Clear, Op::Del(G, 1), Op::Del(H, 1)]]),
            "create-retain-clear" => e1_scenario("t0 goc(C,k1), goc(C,k3) | t1 retain(C,keep k1), goc(C,k1') | t2 clear, get(C,k1)", vec![vec![Op::Goc(C, 0), Op::Goc(C, 3)], vec![Op::Retain(C, Pred::KeepK1), Op::Goc(C, 1)], vec![Op::Clear, Op::Get(C, 0)]]),
            _ => e1_scenario("t0 goc(C,k1), goc(G,k1) | t1 goc(G,k1'), del(C,k1') | t2 goc(C,k2), visit(C)", vec![vec![Op::Goc(C, 0), Op::Goc(G, 0)], vec![Op::Goc(G, 0), Op::Del(C, 1)], vec![Op::Goc(C, 2), Op::Visit(C)]]),
        };
        vsched::explore(&scn, &Cfg { max_bound: spec.arg["pb"].as_u64().unwrap_or(2) as usize, horizon: 20000 }, ctx, &mut res);
    } else {
        e3(ctx, &mut res, spec.arg["depth"].as_u64().unwrap_or(3) as usize, spec.arg["first"].as_u64().map(|x| x as usize), spec.arg["samename"].as_bool().unwrap_or(false));
    }
    res
}

fn main() {
    driver::main(CheckDef {
        prop: "C06",
        level: "model_checking",
        rule: "E3: every sequence up to the stated depth over 34 operations (get_or_create — also with an op closure that panics while the shard write lock is held, caught — / get / delete / retain / clear / visit / get_*_handles over kinds x keys {k1, k1' = equal key built statically with permuted labels, clones of that static key taken before / after its hash was first computed, k2, k3 = same shard}) on a fresh real Registry with a construction-counting Storage, compared after every step with a map reference (results, storage identity, construction count, both listings); shard counts 1, 2, 16 via CPU affinity; the same for a caller's own key type in which two different keys have the same 64-bit hash; 120 keys of one kind in one shard (the table grows several times), all earlier keys looked up after every registration; E1: all SC interleavings (pb-bounded) of 3 threads x 2 ops, brute-force linearizability against the same reference; distinct = distinct reference states / outcomes; E1 create-and-operate: three get-or-create(key, +5) calls on a valued storage (every access a scheduling point) against retain(value != 0), per kind: the calls see 5, 10, 15, one storage is built, the key ends at 15",
        assumptions: &["E1: sequential consistency; lock release is not a scheduling point of its own (the next operation of the releasing thread is)", "keys with pairwise distinct label names"],
        parts,
        run,
    });
}
