//! C14 — shared strings and label slices own their memory correctly on every path (E3 + tracking allocator).
//! The repository's own `metrics/src/cow.rs` is compiled into this binary (path include: the type is not nameable
//! from outside the crate), so `Cow<str>` and `Cow<[E]>` for a drop/clone-counting element type run on the real source;
//! a second part drives the same code through the public `SharedString` / `Key` / `Label` API of the metrics crate.
#![allow(dead_code)]
#[path = "/repo/metrics/src/cow.rs"]
mod cow;
use cow::Cow;
use std::collections::hash_map::DefaultHasher;
use std::hash::{Hash, Hasher};
use std::sync::atomic::{AtomicI64, AtomicU64, Ordering};
use std::sync::{Arc, Condvar, Mutex};
use vcore::driver::{self, CheckDef, Ctx, PartResult, PartSpec};
use vcore::json;
use vcore::talloc;
use vcore::vseq;

#[global_allocator]
static ALLOC: talloc::Tracking = talloc::Tracking;

// ------------------------------------------------------------------ element type with a destructor
static LIVE: AtomicI64 = AtomicI64::new(0);
static DROPS: AtomicU64 = AtomicU64::new(0);
static CLONES: AtomicU64 = AtomicU64::new(0);
static CORRUPT: AtomicU64 = AtomicU64::new(0);
const MAGIC: u64 = 0xE1E1_E1E1_E1E1_E1E1;

#[derive(Debug)]
struct E {
    magic: u64,
    id: u32,
}
impl E {
    fn new(id: u32) -> E {
        LIVE.fetch_add(1, Ordering::SeqCst);
        E { magic: MAGIC, id }
    }
    fn check(&self) {
        if self.magic != MAGIC {
            CORRUPT.fetch_add(1, Ordering::SeqCst);
        }
    }
}
/// fault injection: -1 = off; k >= 0: the (k+1)-th element clone from now panics (once)
static FAULT_IN: AtomicI64 = AtomicI64::new(-1);
impl Clone for E {
    fn clone(&self) -> E {
        self.check();
        let k = FAULT_IN.load(Ordering::SeqCst);
        if k == 0 {
            FAULT_IN.store(-1, Ordering::SeqCst);
            panic!("injected: element clone fails");
        } else if k > 0 {
            FAULT_IN.store(k - 1, Ordering::SeqCst);
        }
        CLONES.fetch_add(1, Ordering::SeqCst);
        E::new(self.id)
    }
}
impl Drop for E {
    fn drop(&mut self) {
        self.check();
        LIVE.fetch_sub(1, Ordering::SeqCst);
        DROPS.fetch_add(1, Ordering::SeqCst);
        self.magic = 0;
    }
}
impl PartialEq for E {
    fn eq(&self, o: &E) -> bool {
        self.id == o.id
    }
}
impl Eq for E {}
impl PartialOrd for E {
    fn partial_cmp(&self, o: &E) -> Option<std::cmp::Ordering> {
        Some(self.cmp(o))
    }
}
impl Ord for E {
    fn cmp(&self, o: &E) -> std::cmp::Ordering {
        self.id.cmp(&o.id)
    }
}
impl Hash for E {
    fn hash<H: Hasher>(&self, h: &mut H) {
        self.id.hash(h)
    }
}

// ------------------------------------------------------------------ a pre-spawned worker thread (no allocation noise while armed)
struct Worker {
    slot: Mutex<(Option<Box<dyn FnOnce() + Send>>, bool)>,
    cv: Condvar,
}
fn worker() -> &'static Worker {
    static W: std::sync::OnceLock<&'static Worker> = std::sync::OnceLock::new();
    W.get_or_init(|| {
        let w: &'static Worker = Box::leak(Box::new(Worker { slot: Mutex::new((None, false)), cv: Condvar::new() }));
        std::thread::spawn(move || loop {
            let job = {
                let mut g = w.slot.lock().unwrap();
                while g.0.is_none() {
                    g = w.cv.wait(g).unwrap();
                }
                g.0.take().unwrap()
            };
            job();
            let mut g = w.slot.lock().unwrap();
            g.1 = true;
            w.cv.notify_all();
        });
        w
    })
}
fn on_other_thread(f: Box<dyn FnOnce() + Send>) {
    let w = worker();
    let mut g = w.slot.lock().unwrap();
    g.0 = Some(f);
    g.1 = false;
    w.cv.notify_all();
    while !g.1 {
        g = w.cv.wait(g).unwrap();
    }
}

// ------------------------------------------------------------------ domains
trait Dom: 'static {
    type T: cow::Cowable + ?Sized + Hash + Ord + Send + Sync + 'static;
    const NAME: &'static str;
    /// operations per pool slot: 5, or 7 when the element type can fail while it is cloned (fault-injected variants of
    /// into_owned and clone)
    const PER_SLOT: usize = 5;
    fn statik() -> &'static Self::T;
    fn owned(len: usize, cap: usize) -> <Self::T as ToOwned>::Owned;
    fn shared() -> Arc<Self::T>;
    fn content(t: &Self::T) -> Vec<u32>;
    fn owned_content(o: &<Self::T as ToOwned>::Owned) -> Vec<u32>;
    fn from_owned_conv(o: <Self::T as ToOwned>::Owned) -> Cow<'static, Self::T>;
    /// 0: `Default::default()`; 1: a borrowed proper prefix of `statik()` (same start address, shorter), for str
    /// through the `std::borrow::Cow::Borrowed` conversion
    fn extra(k: usize) -> Cow<'static, Self::T>;
}
struct StrDom;
impl Dom for StrDom {
    type T = str;
    const NAME: &'static str = "str";
    fn statik() -> &'static str {
        "sté"
    }
    fn owned(len: usize, cap: usize) -> String {
        let mut s = String::with_capacity(cap);
        s.push_str(&"owné"[..len.min(3)]);
        if cap == len {
            s.shrink_to_fit();
        }
        s
    }
    fn shared() -> Arc<str> {
        // non-ASCII up front: byte length and character count differ, and a value cut to the character count still ends
        // on a character boundary (the harness never has to touch an invalid str)
        Arc::from("éshared")
    }
    fn content(t: &str) -> Vec<u32> {
        t.bytes().map(|b| b as u32).collect()
    }
    fn owned_content(o: &String) -> Vec<u32> {
        o.bytes().map(|b| b as u32).collect()
    }
    fn from_owned_conv(o: String) -> Cow<'static, str> {
        // through the std Cow conversion
        Cow::from(std::borrow::Cow::Owned(o))
    }
    fn extra(k: usize) -> Cow<'static, str> {
        if k == 0 {
            Cow::default()
        } else {
            Cow::from(std::borrow::Cow::Borrowed(&Self::statik()[..1]))
        }
    }
}
struct SliceDom;
impl Dom for SliceDom {
    type T = [E];
    const NAME: &'static str = "[E]";
    const PER_SLOT: usize = 7;
    fn statik() -> &'static [E] {
        static S: std::sync::OnceLock<&'static [E]> = std::sync::OnceLock::new();
        S.get_or_init(|| Box::leak(vec![E { magic: MAGIC, id: 7 }, E { magic: MAGIC, id: 8 }].into_boxed_slice()))
    }
    fn owned(len: usize, cap: usize) -> Vec<E> {
        let mut v = Vec::with_capacity(cap);
        for i in 0..len {
            v.push(E::new(10 + i as u32));
        }
        if cap == len {
            v.shrink_to_fit();
        }
        v
    }
    fn shared() -> Arc<[E]> {
        Arc::from(vec![E::new(20), E::new(21)])
    }
    fn content(t: &[E]) -> Vec<u32> {
        t.iter().map(|e| {
            e.check();
            e.id
        }).collect()
    }
    fn owned_content(o: &Vec<E>) -> Vec<u32> {
        Self::content(o)
    }
    fn from_owned_conv(o: Vec<E>) -> Cow<'static, [E]> {
        Cow::from(o)
    }
    fn extra(k: usize) -> Cow<'static, [E]> {
        if k == 0 {
            Cow::default()
        } else {
            Cow::from(&Self::statik()[..1])
        }
    }
}

struct Slot<D: Dom> {
    cow: Cow<'static, D::T>,
    model: Vec<u32>,
    /// index into `outside` when the value shares an Arc
    arc: Option<usize>,
}

const N_CONSTRUCT: usize = 11;
const POOL: usize = 3;
// op encoding: 0..N_CONSTRUCT construct; then for slot i in 0..POOL: clone, check, into_owned, drop, thread_drop; then pair ops
fn n_ops<D: Dom>() -> usize {
    N_CONSTRUCT + POOL * D::PER_SLOT + 3 + 2
}

fn run_seq<D: Dom>(seq: &[usize]) -> Result<Option<usize>, (String, String, usize)> {
    // returns Ok(Some(i)) when op i was inapplicable (prune), Err on violation at step i
    let live0 = LIVE.load(Ordering::SeqCst);
    let corrupt0 = CORRUPT.load(Ordering::SeqCst);
    let base_blocks = talloc::live_blocks();
    // values that the sequence shares with the "outside world" live in this vector
    let mut outside: Vec<(Arc<D::T>, Option<std::sync::Weak<D::T>>)> = Vec::with_capacity(8);
    let mut arc_refs: Vec<usize> = Vec::with_capacity(8); // model: Cow values holding each outside arc
    let mut pool: Vec<Option<Slot<D>>> = Vec::with_capacity(POOL);
    for _ in 0..POOL {
        pool.push(None);
    }
    let mut result: Result<Option<usize>, (String, String, usize)> = Ok(None);
    'steps: for (step, op) in seq.iter().enumerate() {
        let op = *op;
        let fail = |sig: &str, msg: String| -> Result<Option<usize>, (String, String, usize)> { Err((sig.into(), msg, step)) };
        if op < N_CONSTRUCT {
            let free = match pool.iter().position(|s| s.is_none()) {
                Some(f) => f,
                None => {
                    result = Ok(Some(step));
                    break 'steps;
                }
            };
            let (cow, arc): (Cow<'static, D::T>, Option<usize>) = match op {
                0 => (Cow::from_borrowed(D::statik()), None),
                1 => (Cow::from(D::statik()), None),
                2 => (Cow::from_owned(D::owned(0, 0)), None),
                3 => (Cow::from_owned(D::owned(0, 8)), None),
                4 => (Cow::from_owned(D::owned(3, 3)), None),
                5 => (D::from_owned_conv(D::owned(3, 16)), None),
                6 => {
                    // shared, the only other reference is dropped right away
                    (Cow::from_shared(D::shared()), None)
                }
                9 => (D::extra(0), None),
                10 => (D::extra(1), None),
                7 => {
                    let a = D::shared();
                    outside.push((a.clone(), None));
                    arc_refs.push(1);
                    (Cow::from(a), Some(outside.len() - 1))
                }
                _ => {
                    let a = D::shared();
                    let w = Arc::downgrade(&a);
                    outside.push((a.clone(), Some(w)));
                    arc_refs.push(1);
                    (Cow::from_shared(a), Some(outside.len() - 1))
                }
            };
            let model = D::content(&cow);
            pool[free] = Some(Slot { cow, model, arc });
        } else if op < N_CONSTRUCT + POOL * D::PER_SLOT {
            let i = (op - N_CONSTRUCT) / D::PER_SLOT;
            let what = (op - N_CONSTRUCT) % D::PER_SLOT;
            if pool[i].is_none() {
                result = Ok(Some(step));
                break 'steps;
            }
            match what {
                0 => {
                    let free = match pool.iter().position(|s| s.is_none()) {
                        Some(f) => f,
                        None => {
                            result = Ok(Some(step));
                            break 'steps;
                        }
                    };
                    let s = pool[i].as_ref().unwrap();
                    let c = s.cow.clone();
                    if let Some(a) = s.arc {
                        arc_refs[a] += 1;
                    }
                    let ns = Slot { cow: c, model: s.model.clone(), arc: s.arc };
                    pool[free] = Some(ns);
                }
                1 => {
                    let s = pool[i].as_ref().unwrap();
                    let got = D::content(&s.cow);
                    if got != s.model {
                        result = fail("content-differs-from-what-it-was-built-from", format!("{} value reads back {:?}, built from {:?}", D::NAME, got, s.model));
                        break 'steps;
                    }
                    let via: &D::T = s.cow.as_ref();
                    if D::content(via) != s.model {
                        result = fail("content-differs-from-what-it-was-built-from", "as_ref differs".into());
                        break 'steps;
                    }
                }
                2 => {
                    let s = pool[i].take().unwrap();
                    if let Some(a) = s.arc {
                        arc_refs[a] -= 1;
                    }
                    let o = s.cow.into_owned();
                    let got = D::owned_content(&o);
                    if got != s.model {
                        result = fail("into-owned-content-wrong", format!("{} into_owned gives {:?}, expected {:?}", D::NAME, got, s.model));
                        break 'steps;
                    }
                    drop(o);
                }
                3 => {
                    let s = pool[i].take().unwrap();
                    if let Some(a) = s.arc {
                        arc_refs[a] -= 1;
                    }
                    drop(s.cow);
                }
                5 => {
                    // into_owned while the second element clone it makes (if it makes any) panics: whether it returns
                    // or unwinds, the value is consumed and its reference / elements are given back exactly once
                    let s = pool[i].take().unwrap();
                    if let Some(a) = s.arc {
                        arc_refs[a] -= 1;
                    }
                    let Slot { cow, model, .. } = s;
                    FAULT_IN.store(1, Ordering::SeqCst);
                    let r = std::panic::catch_unwind(std::panic::AssertUnwindSafe(|| cow.into_owned()));
                    FAULT_IN.store(-1, Ordering::SeqCst);
                    if let Ok(o) = r {
                        if D::owned_content(&o) != model {
                            result = fail("into-owned-content-wrong", format!("{} into_owned gives {:?}, expected {:?}", D::NAME, D::owned_content(&o), model));
                            break 'steps;
                        }
                        drop(o);
                    }
                }
                6 => {
                    // clone while the second element clone it makes (if any) panics: the original stays intact
                    let s = pool[i].as_ref().unwrap();
                    FAULT_IN.store(1, Ordering::SeqCst);
                    let r = std::panic::catch_unwind(std::panic::AssertUnwindSafe(|| s.cow.clone()));
                    FAULT_IN.store(-1, Ordering::SeqCst);
                    if let Ok(c) = r {
                        if D::content(&c) != s.model {
                            result = fail("content-differs-from-what-it-was-built-from", "clone differs".into());
                            break 'steps;
                        }
                        drop(c);
                    }
                }
                _ => {
                    let s = pool[i].take().unwrap();
                    if let Some(a) = s.arc {
                        arc_refs[a] -= 1;
                    }
                    let Slot { cow, model, .. } = s;
                    let ok = Arc::new(std::sync::atomic::AtomicBool::new(false));
                    let ok2 = ok.clone();
                    on_other_thread(Box::new(move || {
                        ok2.store(D::content(&cow) == model, Ordering::SeqCst);
                        drop(cow);
                    }));
                    if !ok.load(Ordering::SeqCst) {
                        result = fail("content-differs-from-what-it-was-built-from", "value read on another thread differs".into());
                        break 'steps;
                    }
                }
            }
        } else {
            let pi = op - N_CONSTRUCT - POOL * D::PER_SLOT;
            if pi >= 3 {
                // Clone::clone_from: slot a takes over the value of slot b (what Vec / Option::clone_from forward to);
                // whatever a held is released exactly as if a had been dropped
                let (a, b) = [(0, 1), (1, 0)][pi - 3];
                if pool[a].is_none() || pool[b].is_none() {
                    result = Ok(Some(step));
                    break 'steps;
                }
                let (src_model, src_arc) = {
                    let sb = pool[b].as_ref().unwrap();
                    (sb.model.clone(), sb.arc)
                };
                let src: Cow<'static, D::T> = pool[b].as_ref().unwrap().cow.clone();
                let sa = pool[a].as_mut().unwrap();
                if let Some(x) = sa.arc {
                    arc_refs[x] -= 1;
                }
                sa.cow.clone_from(&src);
                drop(src);
                sa.model = src_model;
                sa.arc = src_arc;
                if let Some(x) = src_arc {
                    arc_refs[x] += 1;
                }
            } else {
            // pair ops over (0,1), (0,2), (1,2): ==, cmp, hash against the model
            let (a, b) = [(0, 1), (0, 2), (1, 2)][pi];
            let (sa, sb) = match (pool[a].as_ref(), pool[b].as_ref()) {
                (Some(x), Some(y)) => (x, y),
                _ => {
                    result = Ok(Some(step));
                    break 'steps;
                }
            };
            let eq = sa.cow == sb.cow;
            let cmp = sa.cow.cmp(&sb.cow);
            let hash = |c: &Cow<'static, D::T>| {
                let mut h = DefaultHasher::new();
                c.hash(&mut h);
                h.finish()
            };
            if eq != (sa.model == sb.model) || cmp != sa.model.cmp(&sb.model) || ((sa.model == sb.model) && hash(&sa.cow) != hash(&sb.cow)) {
                result = fail("comparison-disagrees-with-content", format!("{}: {:?} vs {:?}: eq {} cmp {:?}", D::NAME, sa.model, sb.model, eq, cmp));
                break 'steps;
            }
            }
        }
        // invariants after every step
        for (ai, (arc, _)) in outside.iter().enumerate() {
            let sc = Arc::strong_count(arc);
            if sc != 1 + arc_refs[ai] {
                result = Err(("arc-reference-count-wrong".into(), format!("{}: Arc strong count is {} but {} value(s) hold it (+1 outside)", D::NAME, sc, arc_refs[ai]), step));
                break 'steps;
            }
        }
        if CORRUPT.load(Ordering::SeqCst) != corrupt0 {
            result = Err(("element-used-after-free".into(), "an element was read, cloned or dropped after its memory had been released".into(), step));
            break 'steps;
        }
        for s in pool.iter().flatten() {
            if D::content(&s.cow) != s.model {
                result = Err(("content-differs-from-what-it-was-built-from".into(), format!("{} value reads back {:?}, built from {:?}", D::NAME, D::content(&s.cow), s.model), step));
                break 'steps;
            }
        }
    }
    let last = seq.len().saturating_sub(1);
    // end of sequence: drop everything, then all memory and elements must be back
    for s in pool.iter_mut() {
        if let Some(sl) = s.take() {
            if let Some(a) = sl.arc {
                arc_refs[a] -= 1;
            }
            drop(sl);
        }
    }
    if result.is_ok() || matches!(result, Ok(Some(_))) {
        for (ai, (arc, weak)) in outside.iter().enumerate() {
            if Arc::strong_count(arc) != 1 {
                result = Err(("arc-reference-count-wrong".into(), format!("{}: after dropping every value the Arc still has {} strong references (1 expected)", D::NAME, Arc::strong_count(arc)), last));
            }
            if let Some(w) = weak {
                if w.upgrade().is_none() {
                    result = Err(("arc-reference-count-wrong".into(), "weak reference cannot be upgraded although the Arc is alive".into(), last));
                }
            }
            let _ = ai;
        }
    }
    drop(outside);
    drop(arc_refs);
    drop(pool);
    if result.is_ok() {
        if LIVE.load(Ordering::SeqCst) != live0 {
            result = Err(("element-leaked-or-dropped-twice".into(), format!("{} element instances outstanding after everything was dropped (negative = dropped twice)", LIVE.load(Ordering::SeqCst) - live0), last));
        } else if talloc::live_blocks() != base_blocks {
            result = Err(("allocation-leaked".into(), format!("{} allocation(s) still live after everything was dropped", talloc::live_blocks() as i64 - base_blocks as i64), last));
        }
    }
    result
}

fn cow_part<D: Dom>(ctx: &Ctx, res: &mut PartResult, depth: usize, first: Option<usize>) {
    res.engine = format!("E3 bounded exhaustive construct/clone/convert/drop sequences on Cow<{}> (real cow.rs) under a tracking allocator", D::NAME);
    vseq::quiet_panics();
    let _ = worker();
    let _ = D::statik();
    let mut states = vseq::States::new();
    let mut fails: Vec<(String, String, Vec<usize>)> = Vec::new();
    let mut transitions = 0u64;
    let replay_seq: Option<Vec<usize>> = ctx.replay.as_ref().and_then(|r| r["seq"].as_array().map(|a| a.iter().map(|x| x.as_u64().unwrap() as usize).collect()));
    let mut run = |tail: &[usize]| -> Option<usize> {
        let mut seq: Vec<usize> = first.into_iter().collect();
        seq.extend_from_slice(tail);
        let off = first.is_some() as usize;
        talloc::arm();
        let r = vseq::catch(|| run_seq::<D>(&seq));
        let rep = talloc::disarm();
        transitions += seq.len() as u64;
        let mut out = match r {
            Ok(Ok(p)) => {
                states.add(&(rep.allocs, rep.frees, p));
                p.map(|i| Ok(i)).unwrap_or(Err(None))
            }
            Ok(Err((sig, msg, step))) => Err(Some((sig, msg, step))),
            Err(p) => Err(Some(("cow-panic".to_string(), p, seq.len() - 1))),
        };
        if rep.double_free > 0 || rep.invalid_free > 0 || rep.size_mismatch > 0 {
            out = Err(Some(("double-or-invalid-free".to_string(), format!("allocator saw {} double free(s), {} invalid free(s), {} size mismatch(es)", rep.double_free, rep.invalid_free, rep.size_mismatch), seq.len() - 1)));
        }
        match out {
            Ok(i) => Some(i.saturating_sub(off)),
            Err(None) => None,
            Err(Some((sig, msg, step))) => {
                fails.push((sig, format!("{} ;; ops {:?}", msg, &seq[..=step.min(seq.len() - 1)]), seq[..=step.min(seq.len() - 1)].to_vec()));
                Some(step.saturating_sub(off))
            }
        }
    };
    if let Some(seq) = replay_seq {
        run(if first.is_some() { &seq[1..] } else { &seq[..] });
        res.executions = 1;
    } else {
        let d = if first.is_some() { depth - 1 } else { depth };
        let (n, complete) = vseq::for_each_seq(n_ops::<D>(), d, &mut run, &|| ctx.over_budget());
        res.executions = n;
        res.exhaustive = complete;
        if !complete {
            res.cap_hit = Some("budget (cpu time of the part)".into());
        }
    }
    res.transitions = transitions;
    res.states = states.len();
    res.distinct_outcomes = states.len();
    res.bound = json!({"depth": depth, "alphabet": n_ops::<D>(), "pool": POOL, "domain": D::NAME, "first_op_fixed": first});
    for (sig, msg, seq) in fails {
        res.violation(&sig, msg, json!({"seq": seq}));
    }
    res.sample(json!({"domain": D::NAME, "ops": "construct(shared + outside Arc), clone(0), into_owned(0), thread_drop(1)", "encoding": "0-10 construct variants (static, owned with/without spare capacity, std Cow conversions, shared Arc with/without outside references, Default, borrowed prefix of the static); then per slot: clone, check, into_owned, drop, drop-on-other-thread, and for [E] into_owned / clone while the second element clone panics; then pairwise ==/cmp/hash"}));
}

/// the same code through the metrics crate's public API: SharedString, Label, Key
fn public_api_part(ctx: &Ctx, res: &mut PartResult, depth: usize) {
    use metrics::{Key, Label, SharedString};
    res.engine = "E3 sequences through the public SharedString / Label / Key API under a tracking allocator".into();
    vseq::quiet_panics();
    static L: [Label; 2] = [Label::from_static_parts("sk", "sv"), Label::from_static_parts("sk2", "")];
    let mut states = vseq::States::new();
    let mut fails: Vec<(String, String, Vec<usize>)> = Vec::new();
    let mut transitions = 0u64;
    // ops: 0-4 construct key variants into the first free slot; per slot (2 slots): clone, read, with_extra_labels, into_parts, drop
    let n_ops = 5 + 2 * 5;
    let mut run = |seq: &[usize]| -> Option<usize> {
        talloc::arm();
        let base = talloc::live_blocks();
        let r = vseq::catch(|| -> Result<Option<usize>, (String, String, usize)> {
            let mut pool: Vec<Option<(Key, String)>> = vec![None, None, None];
            let desc = |k: &Key| format!("{}|{}", k.name(), k.labels().map(|l| format!("{}={}", l.key(), l.value())).collect::<Vec<_>>().join(","));
            for (step, op) in seq.iter().enumerate() {
                if *op < 5 {
                    let free = match pool.iter().position(|s| s.is_none()) {
                        Some(f) => f,
                        None => return Ok(Some(step)),
                    };
                    let (k, want) = match op {
                        0 => (Key::from_static_parts("st", &L), "st|sk=sv,sk2=".to_string()),
                        1 => (Key::from_parts(String::from("owned"), vec![Label::new(String::from("k"), String::from("v")), Label::new("s", SharedString::from_shared(Arc::from("éarcv")))]), "owned|k=v,s=éarcv".to_string()),
                        2 => (Key::from_name(SharedString::from_shared(Arc::from("éarcname"))), "éarcname|".to_string()),
                        3 => (Key::from_static_labels(String::with_capacity(32) + "cap", &L), "cap|sk=sv,sk2=".to_string()),
                        _ => (Key::from_parts("lit", Vec::<Label>::with_capacity(4)), "lit|".to_string()),
                    };
                    pool[free] = Some((k, want));
                } else {
                    let i = (op - 5) / 5;
                    let what = (op - 5) % 5;
                    if pool[i].is_none() {
                        return Ok(Some(step));
                    }
                    match what {
                        0 => {
                            let free = match pool.iter().position(|s| s.is_none()) {
                                Some(f) => f,
                                None => return Ok(Some(step)),
                            };
                            let c = pool[i].as_ref().map(|(k, w)| (k.clone(), w.clone()));
                            pool[free] = c;
                        }
                        1 => {
                            let (k, w) = pool[i].as_ref().unwrap();
                            if desc(k) != *w || k.get_hash() != k.clone().get_hash() {
                                return Err(("content-differs-from-what-it-was-built-from".into(), format!("key reads {:?}, expected {:?}", desc(k), w), step));
                            }
                        }
                        2 => {
                            let (k, w) = pool[i].take().unwrap();
                            let k2 = k.with_extra_labels(vec![Label::new("x", String::from("y"))]);
                            let w2 = if w.ends_with('|') { format!("{}x=y", w) } else { format!("{},x=y", w) };
                            if desc(&k2) != w2 || desc(&k) != w {
                                return Err(("content-differs-from-what-it-was-built-from".into(), format!("with_extra_labels gives {:?}, expected {:?}", desc(&k2), w2), step));
                            }
                            pool[i] = Some((k2, w2));
                        }
                        3 => {
                            let (k, w) = pool[i].take().unwrap();
                            let (n, ls) = k.into_parts();
                            let got = format!("{}|{}", n.as_str(), ls.iter().map(|l| format!("{}={}", l.key(), l.value())).collect::<Vec<_>>().join(","));
                            if got != w {
                                return Err(("into-owned-content-wrong".into(), format!("into_parts gives {:?}, expected {:?}", got, w), step));
                            }
                            for l in ls {
                                let (a, b) = l.into_parts();
                                let _ = (a.into_owned(), b.into_owned());
                            }
                        }
                        _ => {
                            let (k, _) = pool[i].take().unwrap();
                            drop(k);
                        }
                    }
                }
                for (k, w) in pool.iter().flatten() {
                    if desc(k) != *w {
                        return Err(("content-differs-from-what-it-was-built-from".into(), format!("key reads {:?}, expected {:?}", desc(k), w), step));
                    }
                }
            }
            drop(pool);
            Ok(None)
        });
        let leaked = talloc::live_blocks() as i64 - base as i64;
        let rep = talloc::disarm();
        transitions += seq.len() as u64;
        states.add(&(rep.allocs, rep.frees));
        let verdict: Result<Option<usize>, (String, String, usize)> = match r {
            Ok(x) => x,
            Err(p) => Err(("cow-panic".into(), p, seq.len() - 1)),
        };
        let verdict = match verdict {
            Ok(p) if rep.double_free + rep.invalid_free + rep.size_mismatch > 0 => {
                let _ = p;
                Err(("double-or-invalid-free".into(), format!("{} double / {} invalid frees", rep.double_free, rep.invalid_free), seq.len() - 1))
            }
            Ok(None) if leaked != 0 => Err(("allocation-leaked".into(), format!("{} allocation(s) still live after everything was dropped", leaked), seq.len() - 1)),
            v => v,
        };
        match verdict {
            Ok(p) => p,
            Err((sig, msg, step)) => {
                fails.push((sig, format!("{} ;; ops {:?}", msg, &seq[..=step]), seq[..=step].to_vec()));
                Some(step)
            }
        }
    };
    let replay_seq: Option<Vec<usize>> = ctx.replay.as_ref().and_then(|r| r["seq"].as_array().map(|a| a.iter().map(|x| x.as_u64().unwrap() as usize).collect()));
    if let Some(seq) = replay_seq {
        run(&seq);
        res.executions = 1;
    } else {
        let (n, complete) = vseq::for_each_seq(n_ops, depth, &mut run, &|| ctx.over_budget());
        res.executions = n;
        res.exhaustive = complete;
        if !complete {
            res.cap_hit = Some("budget (cpu time of the part)".into());
        }
    }
    res.transitions = transitions;
    res.states = states.len();
    res.distinct_outcomes = states.len();
    res.bound = json!({"depth": depth, "alphabet": n_ops});
    for (sig, msg, seq) in fails {
        res.violation(&sig, msg, json!({"seq": seq}));
    }
    res.sample(json!({"ops": "Key::from_parts(owned name, [owned label, Arc label]); clone; with_extra_labels; into_parts; drop"}));
}

fn parts(ctx: &Ctx) -> Vec<PartSpec> {
    let mut v = Vec::new();
    if ctx.quick() {
        for f in 0..N_CONSTRUCT {
            v.push(PartSpec::new(&format!("str-d5-first{}", f), json!({"dom": "str", "depth": 5, "first": f})).budget(150.0));
            v.push(PartSpec::new(&format!("slice-d5-first{}", f), json!({"dom": "slice", "depth": 5, "first": f})).budget(150.0));
        }
        v.push(PartSpec::new("public-api-d6", json!({"dom": "api", "depth": 6})).budget(150.0));
        v.push(PartSpec::new("zero-sized-elements", json!({"dom": "zst"})));
        v.push(PartSpec::new("auto-traits", json!({"dom": "auto"})));
        v.push(PartSpec::new("lifetime-probes", json!({"dom": "lifetimes"})));
    } else {
        for f in 0..N_CONSTRUCT {
            v.push(PartSpec::new(&format!("str-d7-first{}", f), json!({"dom": "str", "depth": 7, "first": f})).budget(3000.0));
            v.push(PartSpec::new(&format!("slice-d7-first{}", f), json!({"dom": "slice", "depth": 7, "first": f})).budget(3000.0));
        }
        v.push(PartSpec::new("public-api-d8", json!({"dom": "api", "depth": 8})).budget(3000.0));
        v.push(PartSpec::new("zero-sized-elements", json!({"dom": "zst"})));
        v.push(PartSpec::new("auto-traits", json!({"dom": "auto"})));
        v.push(PartSpec::new("lifetime-probes", json!({"dom": "lifetimes"})));
    }
    v
}

// ------------------------------------------------------------------ zero-sized elements
/// A zero-sized element type: a `Vec` of it reports capacity `usize::MAX`, the very value the packed representation
/// reserves for Arc-backed values. Whatever the library does with such an owned vector (the code rejects it with a
/// panic) must be memory safe. What "not memory safe" looks like is a dead process, so every case runs in a grand-child
/// process (this binary with C14_ZST_PROBE set): it may exit 0 (accepted and handled correctly: contents read back,
/// every element dropped exactly once) or panic (rejected), but must not die of a signal or report a wrong count.
#[derive(Clone, PartialEq, Eq, PartialOrd, Ord, Hash, Debug)]
struct Z;
static Z_DROPS: AtomicU64 = AtomicU64::new(0);
impl Drop for Z {
    fn drop(&mut self) {
        Z_DROPS.fetch_add(1, Ordering::SeqCst);
    }
}
fn zst_probe(arg: &str) -> ! {
    let mut it = arg.split(',').map(|x| x.parse::<usize>().unwrap());
    let (len, op, how) = (it.next().unwrap(), it.next().unwrap(), it.next().unwrap());
    std::panic::set_hook(Box::new(|_| {}));
    let v: Vec<Z> = (0..len).map(|_| Z).collect();
    let built = std::panic::catch_unwind(|| if how == 0 { Cow::<[Z]>::from_owned(v) } else { Cow::<[Z]>::from(v) });
    let c = match built {
        Err(_) => std::process::exit(0), // rejected: fine (the vector was consumed by the unwinding)
        Ok(c) => c,
    };
    let mut clones = 0u64;
    if c.len() != len {
        std::process::exit(3);
    }
    match op {
        0 => drop(c),
        1 => {
            let d = c.clone();
            clones += d.len() as u64 * 0; // a clone of an owned value clones the elements; counted through Z_DROPS below
            if d.len() != len {
                std::process::exit(3);
            }
            drop(d);
            drop(c);
            clones = len as u64;
        }
        _ => {
            let o = c.into_owned();
            if o.len() != len {
                std::process::exit(3);
            }
            drop(o);
        }
    }
    if Z_DROPS.load(Ordering::SeqCst) != len as u64 + clones {
        std::process::exit(4);
    }
    std::process::exit(0)
}
fn zst_part(res: &mut PartResult) {
    res.engine = "E3 owned vectors of a zero-sized element type x {drop, clone, into_owned} x {from_owned, From<Vec>}, each in its own process".into();
    let exe = std::env::current_exe().expect("current_exe");
    let mut states = vseq::States::new();
    for len in [0usize, 1, 3] {
        for op in 0..3usize {
            for how in 0..2usize {
                res.executions += 1;
                res.transitions += 2;
                let out = std::process::Command::new(&exe).env("C14_ZST_PROBE", format!("{},{},{}", len, op, how)).output();
                let what = format!("Vec<Z> (Z zero-sized) of length {} through {} then {}", len, ["Cow::from_owned", "Cow::from(Vec)"][how], ["drop", "clone + drop both", "into_owned"][op]);
                match out {
                    Err(e) => res.error = Some(format!("cannot run the probe: {}", e)),
                    Ok(o) => {
                        use std::os::unix::process::ExitStatusExt;
                        states.add(&(o.status.code(), o.status.signal()));
                        if let Some(sig) = o.status.signal() {
                            res.violation("memory-unsafe-on-zero-sized-elements", format!("{}: the process died of signal {} (an owned vector whose capacity is usize::MAX was taken for an Arc-backed value)", what, sig), json!({"zst": [len, op, how]}));
                        } else if o.status.code() == Some(3) {
                            res.violation("content-differs-from-what-it-was-built-from", format!("{}: wrong length read back", what), json!({"zst": [len, op, how]}));
                        } else if o.status.code() == Some(4) {
                            res.violation("element-leaked-or-dropped-twice", format!("{}: elements were not dropped exactly once", what), json!({"zst": [len, op, how]}));
                        } else if o.status.code() != Some(0) {
                            res.violation("cow-panic", format!("{}: probe ended with status {:?} (an uncaught panic outside construction)", what, o.status.code()), json!({"zst": [len, op, how]}));
                        }
                    }
                }
            }
        }
    }
    res.states = states.len();
    res.distinct_outcomes = states.len();
    res.sample(json!({"case": "Cow::<[Z]>::from_owned(vec![Z; 3]) then drop", "expected": "rejected with a panic, or handled correctly; never a dead process"}));
}

// ------------------------------------------------------------------ auto traits
/// "Values can be sent to and dropped on other threads" is decided by the compiler from the two `unsafe impl`s in
/// cow.rs. What they must NOT allow: an owned slice is a `Vec<E>`, so `Cow<[E]>` may be `Send` only if `E` is `Send`,
/// and `Sync` only if `E` is `Sync`. Decided at compile time, readable at run time (see C01's SendProbe), so that a
/// weakened bound is a verdict and not a build error.
struct AutoProbe<T: ?Sized>(std::marker::PhantomData<T>);
trait AutoDefault {
    const IS_SEND: bool = false;
    const IS_SYNC: bool = false;
}
impl<T: ?Sized> AutoDefault for AutoProbe<T> {}
struct SendProbe<T: ?Sized>(std::marker::PhantomData<T>);
struct SyncProbe<T: ?Sized>(std::marker::PhantomData<T>);
trait NotSend {
    const YES: bool = false;
}
impl<T: ?Sized> NotSend for SendProbe<T> {}
impl<T: ?Sized + Send> SendProbe<T> {
    const YES: bool = true;
}
trait NotSync {
    const YES: bool = false;
}
impl<T: ?Sized> NotSync for SyncProbe<T> {}
impl<T: ?Sized + Sync> SyncProbe<T> {
    const YES: bool = true;
}
/// Sync but not Send (like a lock guard)
#[derive(Clone)]
struct SyncOnly(std::marker::PhantomData<std::sync::MutexGuard<'static, ()>>);
/// Send but not Sync (like a Cell)
#[derive(Clone)]
struct SendOnly(std::cell::Cell<u8>);
fn auto_traits_part(res: &mut PartResult) {
    res.engine = "compile-time-decided auto traits of Cow for element types that are only Send / only Sync".into();
    res.executions = 4;
    res.transitions = 4;
    res.states = 1;
    res.distinct_outcomes = 1;
    // the probes themselves work
    assert!(!SendProbe::<SyncOnly>::YES && SyncProbe::<SyncOnly>::YES && SendProbe::<SendOnly>::YES && !SyncProbe::<SendOnly>::YES);
    if SendProbe::<Cow<'static, [SyncOnly]>>::YES {
        res.violation("cow-send-without-element-send", "Cow<[E]> is Send for an element type that is Sync but not Send: an owned value (a Vec<E>) can be moved to another thread and its elements dropped there".into(), json!({"auto": "send"}));
    }
    if SyncProbe::<Cow<'static, [SendOnly]>>::YES {
        res.violation("cow-sync-without-element-sync", "Cow<[E]> is Sync for an element type that is Send but not Sync: two threads can read the same elements through a shared reference".into(), json!({"auto": "sync"}));
    }
    if !SendProbe::<Cow<'static, str>>::YES || !SyncProbe::<Cow<'static, str>>::YES || !SendProbe::<Cow<'static, [E]>>::YES {
        res.violation("cow-not-send-or-sync", "Cow<str> / Cow<[E]> for Send + Sync contents must be Send and Sync (values are sent to and dropped on other threads)".into(), json!({"auto": "positive"}));
    }
    res.sample(json!({"checked": ["Cow<[SyncOnly]>: !Send", "Cow<[SendOnly]>: !Sync", "Cow<str>: Send + Sync", "Cow<[E]>: Send"]}));
}

/// The borrow a Cow carries is part of its type: a value built from a `&'a T` is a `Cow<'a, T>` and nothing longer.
/// This is a type-level contract, so it is probed the only way it can be: each program below takes a borrow of local
/// data through one public construction or accessor and tries to keep it for longer; the compiler must reject every
/// one of them with a lifetime error, and must accept the control of the same shape that stays within the borrow
/// (which shows the probe still speaks the current API). The programs are compiled against the repository's cow.rs.
fn lifetimes_part(ctx: &Ctx, res: &mut PartResult) {
    res.engine = "compile-time probes: programs that keep a borrow for longer than the data must be rejected (rustc, borrow checker), controls accepted".into();
    let dir = ctx.run_dir().join("c14-lifetime-probes");
    let _ = std::fs::remove_dir_all(&dir);
    std::fs::create_dir_all(&dir).unwrap();
    let header = "#![allow(dead_code, unused)]\n#[path = \"/repo/metrics/src/cow.rs\"]\nmod cow;\nuse cow::Cow;\nuse std::sync::Arc;\n";
    // (name, must_compile, body)
    let probes: Vec<(&str, bool, &str)> = vec![
        ("from_borrowed-escape", false, "pub fn f() -> Cow<'static, str> { let s = String::from(\"x\"); Cow::from_borrowed(s.as_str()) }"),
        ("from_borrowed-control", true, "pub fn f<'a>(s: &'a str) -> Cow<'a, str> { Cow::from_borrowed(s) }\npub fn g() -> Cow<'static, str> { Cow::from_borrowed(\"lit\") }"),
        ("from_borrowed-slice-escape", false, "pub fn f() -> Cow<'static, [u8]> { let v = vec![1u8, 2]; Cow::from_borrowed(&v[..]) }"),
        ("from_borrowed-used-after-drop", false, "pub fn f() -> usize { let c; { let s = String::from(\"x\"); c = Cow::from_borrowed(s.as_str()); } c.len() }"),
        ("from-ref-escape", false, "pub fn f() -> Cow<'static, str> { let s = String::from(\"x\"); Cow::from(s.as_str()) }"),
        ("from-ref-control", true, "pub fn f<'a>(s: &'a str) -> Cow<'a, str> { Cow::from(s) }"),
        ("from-ref-slice-escape", false, "pub fn f() -> Cow<'static, [u8]> { let v = vec![1u8]; Cow::from(&v[..]) }"),
        ("const_str-escape", false, "pub fn f() -> Cow<'static, str> { let s = String::from(\"x\"); Cow::const_str(s.as_str()) }"),
        ("const_str-control", true, "pub const C: Cow<'static, str> = Cow::const_str(\"lit\");\npub fn f<'a>(s: &'a str) -> Cow<'a, str> { Cow::const_str(s) }"),
        ("const_slice-escape", false, "pub fn f() -> Cow<'static, [u8]> { let v = vec![1u8]; Cow::const_slice(&v[..]) }"),
        ("const_slice-control", true, "pub fn f<'a>(s: &'a [u8]) -> Cow<'a, [u8]> { Cow::const_slice(s) }"),
        ("from-std-cow-escape", false, "pub fn f() -> Cow<'static, str> { let s = String::from(\"x\"); Cow::from(std::borrow::Cow::Borrowed(s.as_str())) }"),
        ("from-std-cow-control", true, "pub fn f<'a>(s: &'a str) -> Cow<'a, str> { Cow::from(std::borrow::Cow::Borrowed(s)) }"),
        ("lengthen-escape", false, "pub fn f<'a>(c: Cow<'a, str>) -> Cow<'static, str> { c }"),
        ("shorten-control", true, "pub fn f<'a>(c: Cow<'static, str>, _w: &'a u8) -> Cow<'a, str> { c }"),
        ("clone-lengthen-escape", false, "pub fn f<'a>(c: &Cow<'a, str>) -> Cow<'static, str> { c.clone() }"),
        ("clone-control", true, "pub fn f<'a>(c: &Cow<'a, str>) -> Cow<'a, str> { c.clone() }"),
        ("deref-escape", false, "pub fn f() -> &'static str { let c: Cow<'static, str> = Cow::from_owned(String::from(\"x\")); &*c }"),
        ("deref-control", true, "pub fn f<'c>(c: &'c Cow<'static, str>) -> &'c str { &**c }"),
        ("as_ref-escape", false, "pub fn f() -> &'static str { let c: Cow<'static, str> = Cow::from_shared(Arc::from(\"x\")); let r: &str = c.as_ref(); r }"),
        ("as_ref-borrowed-through-value-escape", false, "pub fn f<'a>(c: Cow<'a, str>) -> &'a str { let r: &str = c.as_ref(); r }"),
        ("into_owned-control", true, "pub fn f() -> String { let s = String::from(\"x\"); let c = Cow::from_borrowed(s.as_str()); c.into_owned() }"),
        ("to-std-cow-control", true, "pub fn f<'a>(c: Cow<'a, str>) -> String { c.into_owned() }"),
    ];
    let mut outcomes = std::collections::BTreeSet::new();
    for (name, must_compile, body) in &probes {
        res.executions += 1;
        res.transitions += 1;
        let file = dir.join(format!("{}.rs", name));
        std::fs::write(&file, format!("{}{}\n", header, body)).unwrap();
        let out = std::process::Command::new("rustc")
            .current_dir("/repo/")
            .args(["--edition", "2021", "--crate-type", "lib", "--emit=metadata", "--error-format=short", "-A", "warnings", "-o"])
            .arg(dir.join(format!("{}.rmeta", name)))
            .arg(&file)
            .output();
        let out = match out {
            Ok(o) => o,
            Err(e) => {
                res.notes.push(format!("rustc could not be started: {}", e));
                res.exhaustive = false;
                return;
            }
        };
        let err = String::from_utf8_lossy(&out.stderr).to_string();
        let lifetime_error = ["E0515", "E0597", "E0521", "E0716", "E0505", "E0499", "E0502", "E0506", "E0310", "E0621", "lifetime may not live long enough", "does not live long enough"].iter().any(|m| err.contains(m));
        let other_error = ["E0432", "E0433", "E0425", "E0599", "E0308", "E0277", "E0282", "E0283", "E0061", "E0412"].iter().any(|m| err.contains(m));
        outcomes.insert((out.status.success(), lifetime_error));
        let cfg = json!({"lifetime_probe": name});
        if *must_compile {
            if !out.status.success() {
                if lifetime_error && !other_error {
                    res.violation("borrow-within-its-lifetime-rejected", format!("control program {:?} keeps a borrow only for as long as the data lives and must compile: {}\n{}", name, body, err.chars().take(600).collect::<String>()), cfg);
                } else {
                    res.notes.push(format!("control probe {:?} no longer compiles for a reason other than lifetimes (API changed?): {}", name, err.chars().take(400).collect::<String>()));
                    res.exhaustive = false;
                }
            }
        } else if out.status.success() {
            res.violation("cow-outlives-the-data-it-borrows", format!("this program compiles, and after it a Cow (or a reference obtained from one) refers to data that is gone: {}", body), cfg);
        } else if !lifetime_error || other_error {
            res.notes.push(format!("escape probe {:?} is rejected, but not (only) by a lifetime error: {}", name, err.chars().take(400).collect::<String>()));
            res.exhaustive = false;
        }
    }
    let _ = std::fs::remove_dir_all(&dir);
    res.states = probes.len() as u64;
    res.distinct_outcomes = outcomes.len() as u64;
    res.bound = json!({"programs": probes.len(), "must_be_rejected": probes.iter().filter(|p| !p.1).count(), "controls": probes.iter().filter(|p| p.1).count()});
    res.sample(json!({"rejected": "pub fn f() -> Cow<'static, str> { let s = String::from(\"x\"); Cow::from_borrowed(s.as_str()) }", "accepted": "pub fn f<'a>(s: &'a str) -> Cow<'a, str> { Cow::from_borrowed(s) }"}));
}

fn run(ctx: &Ctx, spec: &PartSpec) -> PartResult {
    let mut res = PartResult::new(&spec.name, "");
    let depth = spec.arg["depth"].as_u64().unwrap_or(5) as usize;
    let first = spec.arg["first"].as_u64().map(|x| x as usize);
    match spec.arg["dom"].as_str().unwrap_or("") {
        "str" => cow_part::<StrDom>(ctx, &mut res, depth, first),
        "slice" => cow_part::<SliceDom>(ctx, &mut res, depth, first),
        "zst" => zst_part(&mut res),
        "auto" => auto_traits_part(&mut res),
        "lifetimes" => lifetimes_part(ctx, &mut res),
        _ => public_api_part(ctx, &mut res, depth),
    }
    res
}

fn main() {
    if let Ok(a) = std::env::var("C14_ZST_PROBE") {
        zst_probe(&a);
    }
    driver::main(CheckDef {
        prop: "C14",
        level: "model_checking",
        rule: "every sequence of the stated depth (first operation = each of the 11 constructions) over: construct {borrowed, From<&T>, Default, a borrowed proper prefix of the static (same address, shorter; for str through std Cow::Borrowed), owned with (len,cap) in (0,0),(0,8),(3,3),(3,16) incl. through the std Cow / Vec conversions, shared Arc alone, shared Arc with an outside strong reference, with an outside strong + weak reference}, and per pool slot (3 slots) clone, read back (deref, as_ref), into_owned, drop, move-to-another-thread-read-and-drop, and for [E] into_owned and clone while the second element clone they make panics (fault injected, caught), plus pairwise ==/cmp/hash and Clone::clone_from between two slots; for Cow<str> and for Cow<[E]> with a drop-, clone- and corruption-detecting element type, on the repository's cow.rs compiled into the harness; after every step contents equal the model and Arc strong counts equal the model; at the end every element instance is dropped exactly once and the tracking allocator (no block reuse, poison on free, recorded double/invalid frees) is back to its baseline; plus sequences through the public SharedString/Label/Key API; plus owned vectors of a zero-sized element type (capacity usize::MAX, the value reserved for Arc-backed values) x {drop, clone, into_owned}, each in its own process: rejected by a panic or handled correctly, never a dead process; distinct = distinct (allocations, frees, prune point) profiles; plus compile-time probes against the repository's cow.rs: 13 programs that keep a borrow for longer than the data (through from_borrowed, From<&T>, const_str, const_slice, std Cow, clone, deref, as_ref, lengthening the lifetime) must each be rejected by the compiler with a lifetime error, 10 controls of the same shape must compile",
        assumptions: &["cow.rs is self-contained, so compiling the same source file into the harness exercises the code the metrics crate compiles", "Send/Sync: only the two implications an owned slice needs (Cow<[E]>: Send => E: Send, Sync => E: Sync) are probed; full soundness of the bounds is a type-level claim outside this technique", "From<Cow<T>> for std::borrow::Cow<T> exists only for sized T and cannot be instantiated for str or slices"],
        parts,
        run,
    });
}
