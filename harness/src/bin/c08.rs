//! C08 — Prometheus output is well-formed exposition text for any input strings (E3).
use metrics::{Key, KeyName, Label, Level, Metadata, Recorder, SharedString, Unit};
use metrics_exporter_prometheus::{Matcher, PrometheusBuilder};
use vcore::driver::{self, CheckDef, Ctx, PartResult, PartSpec};
use vcore::json;
use vcore::promtext;
use vcore::vseq;

static META: Metadata<'static> = Metadata::new("t", Level::INFO, None);

const UNITS: [Option<Unit>; 18] = [
    None,
    Some(Unit::Count),
    Some(Unit::Percent),
    Some(Unit::Seconds),
    Some(Unit::Milliseconds),
    Some(Unit::Microseconds),
    Some(Unit::Nanoseconds),
    Some(Unit::Tebibytes),
    Some(Unit::Gibibytes),
    Some(Unit::Mebibytes),
    Some(Unit::Kibibytes),
    Some(Unit::Bytes),
    Some(Unit::TerabitsPerSecond),
    Some(Unit::GigabitsPerSecond),
    Some(Unit::MegabitsPerSecond),
    Some(Unit::KilobitsPerSecond),
    Some(Unit::BitsPerSecond),
    Some(Unit::CountPerSecond),
];

#[derive(Clone, Copy, Debug, PartialEq)]
enum Kind {
    Counter,
    Gauge,
    Summary,
    /// histogram through global buckets
    Histogram,
    /// histogram through a per-metric bucket override: Full / Prefix / Suffix matcher spelled with the metric's own name
    HistFull,
    HistPrefix,
    HistSuffix,
}

#[derive(Clone, Debug)]
struct Case {
    name: String,
    label_key: String,
    label_val: String,
    label2_val: Option<String>,
    desc: Option<String>,
    unit: Option<Unit>,
    suffix: bool,
    kind: Kind,
    /// a global label configured on the builder (name, value)
    global: Option<(String, String)>,
}

/// what a label name becomes (written from the exposition grammar: [a-zA-Z_][a-zA-Z0-9_]*, anything else -> '_')
fn label_name_after_sanitising(s: &str) -> String {
    s.chars().enumerate().map(|(i, c)| if c.is_ascii_alphabetic() || c == '_' || (i > 0 && c.is_ascii_digit()) { c } else { '_' }).collect()
}

fn expected_samples(kind: Kind) -> usize {
    match kind {
        Kind::Counter | Kind::Gauge => 1,
        Kind::Summary => 7 + 2,   // default quantiles 0, 0.5, 0.9, 0.95, 0.99, 0.999, 1 + sum + count
        _ => 2 + 1 + 2, // buckets 1, 5 + +Inf + sum + count
    }
}

/// Renders one case on a fresh recorder and judges the text. Err((signature, message)).
fn judge(c: &Case) -> Result<String, (String, String)> {
    let mut b = PrometheusBuilder::new().set_enable_unit_suffix(c.suffix);
    match c.kind {
        Kind::Histogram => b = b.set_buckets(&[1.0, 5.0]).unwrap(),
        Kind::HistFull => b = b.set_buckets_for_metric(Matcher::Full(c.name.clone()), &[1.0, 5.0]).unwrap(),
        Kind::HistPrefix => b = b.set_buckets_for_metric(Matcher::Prefix(c.name.clone()), &[1.0, 5.0]).unwrap(),
        Kind::HistSuffix => b = b.set_buckets_for_metric(Matcher::Suffix(c.name.clone()), &[1.0, 5.0]).unwrap(),
        _ => {}
    }
    if let Some((gk, gv)) = &c.global {
        b = b.add_global_label(gk.clone(), gv.clone());
    }
    let rec = b.build_recorder();
    let mut labels = vec![Label::new(c.label_key.clone(), c.label_val.clone())];
    if let Some(v2) = &c.label2_val {
        labels.push(Label::new("zz", v2.clone()));
    }
    let key = Key::from_parts(c.name.clone(), labels);
    let kn: KeyName = c.name.clone().into();
    if let Some(d) = &c.desc {
        let d: SharedString = d.clone().into();
        match c.kind {
            Kind::Counter => rec.describe_counter(kn, c.unit, d),
            Kind::Gauge => rec.describe_gauge(kn, c.unit, d),
            _ => rec.describe_histogram(kn, c.unit, d),
        }
    }
    match c.kind {
        Kind::Counter => rec.register_counter(&key, &META).increment(3),
        Kind::Gauge => rec.register_gauge(&key, &META).set(2.5),
        _ => rec.register_histogram(&key, &META).record(2.0),
    }
    // a benign bystander family that injected text must not be able to disturb
    rec.describe_gauge("zz_other".into(), None, "bystander".into());
    rec.register_gauge(&Key::from_parts("zz_other", vec![Label::new("l", "v")]), &META).set(7.0);
    let text = rec.handle().render();
    let fams = promtext::parse(&text).map_err(|e| {
        let sig = if e.contains("does not belong to the preceding family") { "sample-name-not-family-name-plus-allowed-suffix" } else if e.contains("invalid metric name") || e.contains("invalid label name") { "name-violates-grammar" } else { "malformed-exposition-line" };
        (sig.to_string(), format!("{} ;; text {:?}", e, text))
    })?;
    if fams.len() != 2 {
        return Err(("family-count-changed-by-input".into(), format!("{} families instead of 2 ;; text {:?}", fams.len(), text)));
    }
    let by = fams.iter().find(|f| f.name == "zz_other").ok_or_else(|| ("bystander-family-disturbed".to_string(), format!("text {:?}", text)))?;
    // a global label is added to every series unless the key has a label of the same (sanitised) name
    let gname = c.global.as_ref().map(|g| label_name_after_sanitising(&g.0));
    let extra_by = gname.as_ref().map(|g| (g != "l") as usize).unwrap_or(0);
    if by.samples.len() != 1 || by.samples[0].value_f64() != 7.0 || !by.samples[0].labels.contains(&("l".to_string(), "v".to_string())) || by.samples[0].labels.len() != 1 + extra_by || by.help.as_deref() != Some("bystander") || by.ty != "gauge" {
        return Err(("bystander-family-disturbed".into(), format!("bystander family is {:?} ;; text {:?}", by, text)));
    }
    let f = fams.iter().find(|f| f.name != "zz_other").unwrap();
    let want_ty = match c.kind {
        Kind::Counter => "counter",
        Kind::Gauge => "gauge",
        Kind::Summary => "summary",
        _ => "histogram",
    };
    if f.ty != want_ty {
        return Err(("family-type-wrong".into(), format!("type {} expected {} ;; text {:?}", f.ty, want_ty, text)));
    }
    if f.samples.len() != expected_samples(c.kind) {
        return Err(("sample-count-changed-by-input".into(), format!("{} samples instead of {} ;; text {:?}", f.samples.len(), expected_samples(c.kind), text)));
    }
    let own: Vec<String> = std::iter::once(label_name_after_sanitising(&c.label_key)).chain(c.label2_val.iter().map(|_| "zz".to_string())).collect();
    let nlabels = 1 + c.label2_val.is_some() as usize + gname.as_ref().map(|g| !own.contains(g) as usize).unwrap_or(0);
    if c.desc.is_some() != f.help.is_some() {
        return Err(("help-line-missing-or-forged".into(), format!("help {:?} for description {:?}", f.help, c.desc)));
    }
    if !promtext::duplicate_series(&fams).is_empty() {
        return Err(("duplicate-series".into(), format!("text {:?}", text)));
    }
    Ok(format!("{}|{}|{:?}", f.name, f.ty, f.samples.iter().map(|s| s.name.clone()).collect::<std::collections::BTreeSet<_>>()))
}

fn base(kind: Kind) -> Case {
    Case { name: "m".into(), label_key: "k".into(), label_val: "v".into(), label2_val: None, desc: Some("help".into()), unit: None, suffix: false, kind, global: None }
}

const SIGMA: [&str; 18] = ["a", "n", "Z", "0", "_", ":", "\"", "\\", "\n", "\r", "{", "}", ",", "=", "#", " ", "é", "\0"];
// the ordinary character is `n`, the one letter that means something after a backslash
const CLASSES: [&str; 4] = ["\n", "\"", "\\", "n"];
const KINDS: [Kind; 4] = [Kind::Counter, Kind::Gauge, Kind::Summary, Kind::Histogram];

fn sweep(ctx: &Ctx, res: &mut PartResult, which: &str) {
    res.engine = "E3 exhaustive strings per role through render() and a strict exposition parser".into();
    vseq::quiet_panics();
    let thorough = !ctx.quick();
    let mut states = vseq::States::new();
    let mut cases: Vec<Case> = Vec::new();
    let short = vseq::strings(&SIGMA, if thorough { 4 } else { 3 });
    let classy = vseq::strings(&CLASSES, if thorough { 9 } else { 7 });
    match which {
        "name" => {
            for s in short.iter().filter(|s| !s.is_empty()) {
                for k in KINDS {
                    cases.push(Case { name: s.clone(), ..base(k) });
                }
            }
        }
        "label_key" => {
            for s in short.iter().filter(|s| !s.is_empty()) {
                for k in [Kind::Counter, Kind::Histogram] {
                    cases.push(Case { label_key: s.clone(), label2_val: Some("w".into()), ..base(k) });
                }
            }
        }
        "label_val" => {
            for s in short.iter().chain(classy.iter()) {
                for k in [Kind::Gauge, Kind::Summary] {
                    cases.push(Case { label_val: s.clone(), label2_val: Some("w".into()), ..base(k) });
                }
            }
        }
        "global_val" => {
            for s in short.iter().chain(classy.iter()) {
                for k in [Kind::Counter, Kind::Summary, Kind::Histogram] {
                    cases.push(Case { global: Some(("gk".into(), s.clone())), ..base(k) });
                }
            }
        }
        "global_key" => {
            for s in short.iter().filter(|s| !s.is_empty()) {
                for k in [Kind::Gauge, Kind::Histogram] {
                    cases.push(Case { global: Some((s.clone(), "g\"v\\".into())), label2_val: Some("w".into()), ..base(k) });
                }
            }
        }
        "desc" => {
            for s in short.iter().chain(classy.iter()) {
                for k in [Kind::Counter, Kind::Histogram] {
                    cases.push(Case { desc: Some(s.clone()), ..base(k) });
                }
            }
        }
        "long" => {
            // long strings in every role: a run of one symbol up to and across the sizes at which buffers, caps or
            // chunked processing could come into play, followed by a short tail of the symbols that need escaping
            let mut lens: Vec<usize> = Vec::new();
            for c in [64usize, 128, 256, 512, 1024, 4096] {
                for d in 0..7 {
                    lens.push(c - 3 + d);
                }
            }
            if thorough {
                for c in [2048usize, 8192, 16384, 65536] {
                    for d in 0..5 {
                        lens.push(c - 2 + d);
                    }
                }
            }
            for pad in ["a", "\"", "\\", "\n", "é"] {
                for n in &lens {
                    for tail in ["", "\"", "\\", "\n", "\\n", "x\"y"] {
                        let v = format!("{}{}", pad.repeat(*n), tail);
                        cases.push(Case { label_val: v.clone(), label2_val: Some("w".into()), ..base(Kind::Gauge) });
                        cases.push(Case { global: Some(("gk".into(), v.clone())), ..base(Kind::Histogram) });
                        cases.push(Case { desc: Some(v.clone()), ..base(Kind::Counter) });
                        if tail.is_empty() || thorough {
                            cases.push(Case { name: v.clone(), ..base(Kind::Summary) });
                            cases.push(Case { label_key: v.clone(), label2_val: Some("w".into()), ..base(Kind::Counter) });
                        }
                    }
                }
            }
        }
        "pairs" => {
            let two = vseq::strings(&SIGMA, 2);
            let cl = vseq::strings(&CLASSES, if thorough { 4 } else { 3 });
            for a in &cl {
                for b in &cl {
                    cases.push(Case { label_val: a.clone(), label2_val: Some(b.clone()), ..base(Kind::Gauge) });
                }
            }
            for a in two.iter().filter(|s| !s.is_empty()) {
                for b in &cl {
                    cases.push(Case { name: a.clone(), desc: Some(b.clone()), ..base(Kind::Summary) });
                }
            }
        }
        _ => {
            // units x suffix x kinds, with benign and with awkward names
            for u in UNITS {
                for sfx in [false, true] {
                    for k in [Kind::Counter, Kind::Gauge, Kind::Summary, Kind::Histogram, Kind::HistFull, Kind::HistPrefix, Kind::HistSuffix] {
                        for name in ["m", "a:b", "9x", "é", "m_bucket"] {
                            for d in [true, false] {
                                let mut c = Case { name: name.into(), unit: u, suffix: sfx, ..base(k) };
                                if !d {
                                    // a unit can only be given through describe_*: without a description there is none
                                    c.desc = None;
                                    c.unit = None;
                                }
                                cases.push(c);
                            }
                        }
                    }
                }
            }
        }
    }
    if let Some(rp) = &ctx.replay {
        let i = rp["index"].as_u64().unwrap() as usize;
        cases = vec![cases[i].clone()];
    }
    for (i, c) in cases.iter().enumerate() {
        if i % 512 == 0 && ctx.over_budget() {
            res.cap_hit = Some("budget (cpu time of the part)".into());
            res.exhaustive = false;
            break;
        }
        res.executions += 1;
        res.transitions += 1;
        match vseq::catch(|| judge(c)) {
            Err(p) => res.violation("render-panic", format!("{:?}: {}", c, p), json!({"index": i})),
            Ok(Err((sig, msg))) => {
                let sig = if c.suffix && c.unit.is_some() && sig == "sample-name-not-family-name-plus-allowed-suffix" { "unit-suffix-family-mismatch".to_string() } else { sig };
                res.violation(&sig, format!("{:?}: {}", c, msg.chars().take(700).collect::<String>()), json!({"index": i}))
            }
            Ok(Ok(o)) => {
                states.add(&o);
            }
        }
    }
    res.states = states.len();
    res.distinct_outcomes = states.len();
    res.bound = json!({"role": which, "cases": cases.len(), "alphabet": SIGMA, "max_len": if thorough { 4 } else { 3 }, "class_strings_max_len": if thorough { 9 } else { 7 }});
    if let Some(c) = cases.get(cases.len() / 3) {
        res.sample(json!({"role": which, "case": format!("{:?}", c)}));
    }
}

/// Two metrics whose names differ exactly by the unit's suffix (`x` and `x_seconds`), both described with that unit, on
/// one recorder, with unit suffixes on and off, for every unit and the three kinds: the rendering is well-formed (one
/// TYPE line per family, samples under their own family) and holds two separate families for the two metrics.
fn unit_pairs(res: &mut PartResult) {
    res.engine = "E3 pairs of names that differ by the unit suffix x units x kinds x suffix option through render() and the strict parser".into();
    let mut states = vseq::States::new();
    for u in UNITS.iter().flatten() {
        let sfxs: Vec<String> = if *u == Unit::Percent { vec!["ratio".into(), u.as_str().to_string()] } else { vec![u.as_str().to_string()] };
        for sfx in sfxs {
            for enable in [true, false] {
                for kind in [Kind::Counter, Kind::Gauge, Kind::Summary, Kind::Histogram] {
                    res.executions += 1;
                    res.transitions += 1;
                    let mut b = PrometheusBuilder::new().set_enable_unit_suffix(enable);
                    if matches!(kind, Kind::Histogram) {
                        b = b.set_buckets(&[1.0, 5.0]).unwrap();
                    }
                    let rec = b.build_recorder();
                    let names = ["x".to_string(), format!("x_{}", sfx)];
                    for (i, n) in names.iter().enumerate() {
                        let kn: KeyName = n.clone().into();
                        let key = Key::from_name(n.clone());
                        match kind {
                            Kind::Counter => {
                                rec.describe_counter(kn, Some(*u), "d".into());
                                rec.register_counter(&key, &META).increment(3 + i as u64);
                            }
                            Kind::Gauge => {
                                rec.describe_gauge(kn, Some(*u), "d".into());
                                rec.register_gauge(&key, &META).set(2.5 + i as f64);
                            }
                            _ => {
                                rec.describe_histogram(kn, Some(*u), "d".into());
                                rec.register_histogram(&key, &META).record(2.0 + i as f64);
                            }
                        }
                    }
                    let text = rec.handle().render();
                    let cfg = json!({"unit_pair": [u.as_str(), sfx, enable, format!("{:?}", kind)]});
                    match promtext::parse(&text) {
                        Err(e) => res.violation("malformed-exposition-line", format!("metrics {:?} ({:?}), both described with unit {:?}, unit suffixes {}: {} ;; text {:?}", names, kind, u, if enable { "on" } else { "off" }, e, text.chars().take(500).collect::<String>()), cfg),
                        Ok(fams) => {
                            states.add(&(fams.len(), enable));
                            let mut fnames: Vec<&str> = fams.iter().map(|f| f.name.as_str()).collect();
                            fnames.sort();
                            fnames.dedup();
                            if fams.len() != 2 || fnames.len() != 2 {
                                res.violation("unit-suffix-family-mismatch", format!("metrics {:?} ({:?}), both described with unit {:?}, unit suffixes {}: the rendering holds the families {:?} (expected two separate ones)", names, kind, u, if enable { "on" } else { "off" }, fams.iter().map(|f| f.name.clone()).collect::<Vec<_>>()), cfg);
                            }
                        }
                    }
                }
            }
        }
    }
    res.states = states.len();
    res.distinct_outcomes = states.len();
    res.sample(json!({"names": ["x", "x_seconds"], "unit": "seconds", "suffixes": "on", "expected": "two families, one TYPE line each"}));
}

fn parts(ctx: &Ctx) -> Vec<PartSpec> {
    ["name", "label_key", "label_val", "global_val", "global_key", "desc", "pairs", "units", "long", "unitpairs"].iter().map(|w| PartSpec::new(&format!("e3-{}", w), json!({"which": w})).budget(if ctx.quick() { 150.0 } else { 2400.0 })).collect()
}

fn run(ctx: &Ctx, spec: &PartSpec) -> PartResult {
    let mut res = PartResult::new(&spec.name, "");
    if spec.arg["which"].as_str() == Some("unitpairs") {
        unit_pairs(&mut res);
        return res;
    }
    sweep(ctx, &mut res, spec.arg["which"].as_str().unwrap_or("name"));
    res
}

fn main() {
    driver::main(CheckDef {
        prop: "C08",
        level: "model_checking",
        rule: "every string of length <= 3 (thorough 4) over an 18-character nasty alphabet {a n Z 0 _ : \" \\ LF CR { } , = # space é NUL} in each role (metric name, label key, label value, global label name, global label value, description; names/keys non-empty), every string of length <= 7 (9) over the escaper's four character classes {LF \" \\ n} for label values and descriptions, pairs of roles, and all 17 Unit values x unit-suffix on/off x awkward names; each for counter/gauge/summary/histogram on a fresh recorder with a bystander family; render() output must parse under a strict grammar (line classes, name grammars, escapes, value forms, one TYPE before samples, allowed suffixes) and come back with exactly the registered families, samples and label counts; distinct = distinct (family name, type, sample-name set); role `long`: runs of one symbol (a, quote, backslash, LF, é) of length c-3..c+3 for c in {64,128,256,512,1024,4096} (thorough: up to 65536) followed by a tail of symbols that need escaping, as label value, global label value, description, name and label key; pairs of metrics whose names differ exactly by the unit's suffix, both described with that unit, x every unit x 4 kinds x unit suffixes on/off: well-formed, two separate families",
        assumptions: &["the C07 precondition: sanitised names distinct, label names not le/quantile (the alphabets cannot produce a collision)"],
        parts,
        run,
    });
}
