//! C02 — the global recorder is installed at most once and seen whole by everyone (E2 loom + one process test).
use metrics::{Counter, Gauge, Histogram, Key, KeyName, Metadata, Recorder, SharedString, Unit};
use std::sync::atomic::{AtomicUsize, Ordering};
use std::sync::Arc;
use vcore::driver::{self, CheckDef, Ctx, PartResult, PartSpec};
use vcore::json;

struct D {
    id: usize,
    magic: u64,
    hits: Arc<Vec<AtomicUsize>>,
    drops: Arc<Vec<AtomicUsize>>,
}
impl Drop for D {
    fn drop(&mut self) {
        self.drops[self.id].fetch_add(1, Ordering::SeqCst);
    }
}
impl Recorder for D {
    fn describe_counter(&self, _: KeyName, _: Option<Unit>, _: SharedString) {
        assert_eq!(self.magic, 0xabc0 + self.id as u64);
        self.hits[self.id].fetch_add(1, Ordering::SeqCst);
    }
    fn describe_gauge(&self, _: KeyName, _: Option<Unit>, _: SharedString) {
        self.hits[self.id].fetch_add(1, Ordering::SeqCst);
    }
    fn describe_histogram(&self, _: KeyName, _: Option<Unit>, _: SharedString) {
        self.hits[self.id].fetch_add(1, Ordering::SeqCst);
    }
    fn register_counter(&self, k: &Key, _: &Metadata<'_>) -> Counter {
        self.hits[self.id].fetch_add(1, Ordering::SeqCst);
        if k.name() == "nest" {
            // a recorder that emits a metric of its own while it handles a call (a self-instrumenting exporter): that
            // emission comes from a thread without a local recorder too
            metrics::describe_gauge!("inner", "emitted from inside the installed recorder");
        }
        Counter::noop()
    }
    fn register_gauge(&self, _: &Key, _: &Metadata<'_>) -> Gauge {
        self.hits[self.id].fetch_add(1, Ordering::SeqCst);
        Gauge::noop()
    }
    fn register_histogram(&self, _: &Key, _: &Metadata<'_>) -> Histogram {
        self.hits[self.id].fetch_add(1, Ordering::SeqCst);
        Histogram::noop()
    }
}

/// One history on the real process-global cell (a process can install only once, so this is one case per run).
fn process_part(res: &mut PartResult, racers: usize) {
    res.engine = "E3 single history on the real process-global recorder".into();
    let hits: Arc<Vec<AtomicUsize>> = Arc::new((0..racers).map(|_| AtomicUsize::new(0)).collect());
    let drops: Arc<Vec<AtomicUsize>> = Arc::new((0..racers).map(|_| AtomicUsize::new(0)).collect());
    // emissions before any install go nowhere
    metrics::counter!("pre").increment(1);
    metrics::describe_counter!("pre", "x");
    // Bystander threads that are in different states when the installation happens; afterwards, outside any local scope,
    // each of them emits once and must reach the installed recorder ("every later emission on any thread without a local
    // recorder"). 0: emitted outside any scope before (looked the empty cell up); 1: inside with_local_recorder during the
    // installation; 2: holds a set_default_local_recorder guard across it; 3: entered and left a local scope before it;
    // 4: did nothing before; 5: left a local scope by a (caught) panic before it; 6: does so after it.
    const BYSTANDERS: usize = 7;
    let local_hits: Arc<Vec<AtomicUsize>> = Arc::new((0..1).map(|_| AtomicUsize::new(0)).collect());
    let local_drops: Arc<Vec<AtomicUsize>> = Arc::new((0..1).map(|_| AtomicUsize::new(0)).collect());
    let ready = Arc::new(std::sync::Barrier::new(BYSTANDERS + 1));
    let installed = Arc::new(std::sync::Barrier::new(BYSTANDERS + 1));
    let by: Vec<_> = (0..BYSTANDERS)
        .map(|k| {
            let (ready, installed, lh, ld) = (ready.clone(), installed.clone(), local_hits.clone(), local_drops.clone());
            std::thread::spawn(move || {
                let local: &'static D = Box::leak(Box::new(D { id: 0, magic: 0xabc0, hits: lh, drops: ld }));
                match k {
                    0 => {
                        metrics::counter!("by_pre").increment(1);
                        ready.wait();
                        installed.wait();
                    }
                    1 => metrics::with_local_recorder(local, || {
                        metrics::counter!("by_local").increment(1);
                        ready.wait();
                        installed.wait();
                        metrics::counter!("by_local").increment(1);
                    }),
                    2 => {
                        let g = metrics::set_default_local_recorder(local);
                        ready.wait();
                        installed.wait();
                        metrics::counter!("by_local").increment(1);
                        drop(g);
                    }
                    3 => {
                        metrics::with_local_recorder(local, || metrics::counter!("by_local").increment(1));
                        ready.wait();
                        installed.wait();
                    }
                    5 => {
                        let _ = std::panic::catch_unwind(std::panic::AssertUnwindSafe(|| {
                            metrics::with_local_recorder(local, || {
                                metrics::counter!("by_local").increment(1);
                                std::panic::resume_unwind(Box::new("scope left by a panic"));
                            })
                        }));
                        ready.wait();
                        installed.wait();
                    }
                    6 => {
                        ready.wait();
                        installed.wait();
                        let _ = std::panic::catch_unwind(std::panic::AssertUnwindSafe(|| {
                            let _g = metrics::set_default_local_recorder(local);
                            metrics::counter!("by_local").increment(1);
                            std::panic::resume_unwind(Box::new("guard dropped by a panic"));
                        }));
                    }
                    _ => {
                        ready.wait();
                        installed.wait();
                    }
                }
                metrics::describe_counter!("by_post", "x");
            })
        })
        .collect();
    ready.wait();
    let barrier = Arc::new(std::sync::Barrier::new(racers));
    let hs: Vec<_> = (0..racers)
        .map(|i| {
            let (hits, drops, barrier) = (hits.clone(), drops.clone(), barrier.clone());
            std::thread::spawn(move || {
                let d = D { id: i, magic: 0xabc0 + i as u64, hits, drops: drops.clone() };
                barrier.wait();
                match metrics::set_global_recorder(d) {
                    Ok(()) => Ok(()),
                    Err(e) => {
                        let back = e.into_inner();
                        let intact = back.id == i && back.magic == 0xabc0 + i as u64 && drops[i].load(Ordering::SeqCst) == 0;
                        drop(back);
                        Err(intact && drops[i].load(Ordering::SeqCst) == 1)
                    }
                }
            })
        })
        .collect();
    let outs: Vec<Result<(), bool>> = hs.into_iter().map(|h| h.join().unwrap()).collect();
    let pre_hits: usize = hits.iter().map(|h| h.load(Ordering::SeqCst)).sum();
    installed.wait();
    for h in by {
        h.join().unwrap();
    }
    let by_hits: usize = hits.iter().map(|h| h.load(Ordering::SeqCst)).sum::<usize>() - pre_hits;
    res.executions = 1;
    res.transitions = racers as u64 + 4 + 2 * BYSTANDERS as u64;
    res.states = 1;
    res.distinct_outcomes = 1;
    let winners: Vec<usize> = outs.iter().enumerate().filter(|(_, o)| o.is_ok()).map(|(i, _)| i).collect();
    let replay = json!({"racers": racers});
    if winners.len() != 1 {
        res.violation("install-not-exactly-once", format!("{} of {} racing set_global_recorder calls succeeded", winners.len(), racers), replay);
        return;
    }
    if outs.iter().any(|o| *o == Err(false)) {
        res.violation("rejected-recorder-not-intact", "a losing set_global_recorder did not hand its recorder back intact (or dropped/leaked it)".into(), replay);
        return;
    }
    let w = winners[0];
    if pre_hits != 0 {
        res.violation("emission-before-install-had-effect", "an emission made before any installation reached a recorder".into(), replay);
        return;
    }
    if by_hits != BYSTANDERS || hits[w].load(Ordering::SeqCst) != BYSTANDERS {
        res.violation("emission-lost-after-install", format!("{} of {} threads that were busy with local scopes / earlier emissions during the installation reached the installed recorder with the emission they made afterwards outside any scope", hits[w].load(Ordering::SeqCst), BYSTANDERS), replay);
        return;
    }
    if local_hits[0].load(Ordering::SeqCst) != 6 {
        res.violation("local-scope-emission-misrouted", format!("{} of 6 emissions made inside local scopes reached the local recorder", local_hits[0].load(Ordering::SeqCst)), replay);
        return;
    }
    let t = std::thread::spawn(|| {
        metrics::describe_counter!("post", "x");
        metrics::counter!("post").increment(1);
    });
    metrics::describe_gauge!("post_g", "y");
    t.join().unwrap();
    // a later installation attempt fails as well
    let late = D { id: 0, magic: 0xabc0, hits: hits.clone(), drops: Arc::new(vec![AtomicUsize::new(0)]) };
    if metrics::set_global_recorder(late).is_ok() {
        res.violation("install-not-exactly-once", "a second, later set_global_recorder succeeded".into(), replay);
        return;
    }
    metrics::describe_histogram!("post_h", "z");
    // an emission made from inside one of the installed recorder's own callbacks reaches it as well
    let before_nest = hits[w].load(Ordering::SeqCst);
    metrics::counter!("nest").increment(1);
    if hits[w].load(Ordering::SeqCst) != before_nest + 2 {
        res.violation("emission-lost-after-install", format!("an emission made by the installed recorder itself while it handled a call: {} of 2 calls (the outer one and the nested one) reached it", hits[w].load(Ordering::SeqCst) - before_nest), replay);
        return;
    }
    hits[w].fetch_sub(2, Ordering::SeqCst);
    for (i, h) in hits.iter().enumerate() {
        let n = h.load(Ordering::SeqCst);
        if i == w && n != 4 + BYSTANDERS {
            res.violation("emission-lost-after-install", format!("winner saw {} of {} emissions", n, 4 + BYSTANDERS), replay);
            return;
        }
        if i != w && n != 0 {
            res.violation("emission-reached-losing-recorder", format!("loser {} saw {} emissions", i, n), replay);
            return;
        }
    }
    if drops[w].load(Ordering::SeqCst) != 0 {
        res.violation("installed-recorder-dropped", "the installed recorder was dropped".into(), replay);
    }
    res.sample(json!({"racers": racers, "winner": w}));
}

/// The recorder's TYPE is an input too: the crate's own `NoopRecorder` (installed to switch metrics off for good), a
/// boxed recorder, a plain one. For an ordered pair of kinds: the first installation succeeds, the second fails and hands
/// its recorder back (undropped), a third one as well, and every emission afterwards reaches the first recorder (or
/// nobody, if that is the no-op recorder) and never a later one. One pair per process.
fn kinds_part(res: &mut PartResult, first: usize, second: usize) {
    res.engine = "process history on the real global cell: recorder kinds x installation order".into();
    res.executions = 1;
    res.states = 1;
    res.distinct_outcomes = 1;
    let hits: Arc<Vec<AtomicUsize>> = Arc::new((0..3).map(|_| AtomicUsize::new(0)).collect());
    let drops: Arc<Vec<AtomicUsize>> = Arc::new((0..3).map(|_| AtomicUsize::new(0)).collect());
    let names = ["a plain recorder", "metrics::NoopRecorder", "a Box<dyn Recorder>"];
    // returns Ok(()) / Err(()) and, for the doubles, checks the rejected recorder came back intact and undropped
    let install = |kind: usize, id: usize, res: &mut PartResult| -> bool {
        let mk = || D { id, magic: 0xabc0 + id as u64, hits: hits.clone(), drops: drops.clone() };
        match kind {
            0 => match metrics::set_global_recorder(mk()) {
                Ok(()) => true,
                Err(e) => {
                    let back = e.into_inner();
                    if back.magic != 0xabc0 + id as u64 || drops[id].load(Ordering::SeqCst) != 0 {
                        res.violation("rejected-recorder-not-intact", format!("installation #{} ({}) was rejected but its recorder did not come back intact and undropped", id, names[kind]), json!({"kinds": [first, second]}));
                    }
                    false
                }
            },
            1 => metrics::set_global_recorder(metrics::NoopRecorder).is_ok(),
            _ => {
                let b: Box<dyn Recorder + Send + Sync> = Box::new(mk());
                match metrics::set_global_recorder(b) {
                    Ok(()) => true,
                    Err(e) => {
                        drop(e);
                        false
                    }
                }
            }
        }
    };
    let cfg = json!({"kinds": [first, second]});
    let r0 = install(first, 0, res);
    metrics::describe_counter!("after_first", "x");
    let r1 = install(second, 1, res);
    metrics::describe_counter!("after_second", "x");
    let r2 = install(0, 2, res);
    metrics::describe_counter!("after_third", "x");
    let t = {
        std::thread::spawn(|| metrics::describe_counter!("other_thread", "x")).join()
    };
    let _ = t;
    res.transitions = 7;
    let h: Vec<usize> = hits.iter().map(|x| x.load(Ordering::SeqCst)).collect();
    if !r0 || r1 || r2 {
        res.violation("install-not-exactly-once", format!("installing {} first, then {}, then a plain recorder: the three installations reported {:?} (expected the first to succeed and the others to be rejected)", names[first], names[second], [r0, r1, r2]), cfg.clone());
    }
    let want0 = if first == 1 { 0 } else { 4 };
    if h[0] != want0 || h[1] != 0 || h[2] != 0 {
        let sig = if h[1] != 0 || h[2] != 0 { "emission-reached-losing-recorder" } else { "emission-lost-after-install" };
        res.violation(sig, format!("installing {} first, then {}, then a plain recorder, with one emission after each and one on another thread: the recorders saw {:?} emissions (expected [{}, 0, 0])", names[first], names[second], h, want0), cfg.clone());
    }
    res.sample(json!({"first": names[first], "second": names[second], "expected": "Ok, Err, Err; emissions only ever reach the first"}));
}

fn parts(ctx: &Ctx) -> Vec<PartSpec> {
    let mut v = vec![PartSpec::new("process-2", json!({"racers": 2})), PartSpec::new("process-4", json!({"racers": 4}))];
    for (a, b) in [(1, 0), (0, 1), (1, 1), (2, 1), (1, 2), (2, 0)] {
        v.push(PartSpec::new(&format!("process-kinds-{}-then-{}", ["plain", "noop", "boxed"][a], ["plain", "noop", "boxed"][b]), json!({"kinds": [a, b]})));
    }
    let l = |s: &str, pb: Option<u64>| PartSpec::new(&format!("loom-{}-pb{}", s, pb.map(|p| p.to_string()).unwrap_or("inf".into())), json!({"loom": s, "pb": pb}));
    if ctx.quick() {
        v.extend([l("cell_2i1r", Some(3)), l("cell_1i2r_handoff", Some(3)), l("cell_3i1r", Some(2)), l("cell_2i2r", Some(2))]);
    } else {
        v.extend([l("cell_2i1r", None).budget(600.0), l("cell_1i2r_handoff", None).budget(900.0), l("cell_2i2r", Some(3)).budget(900.0), l("cell_2i2r_handoff", Some(3)).budget(900.0), l("cell_3i1r", Some(3)).budget(900.0)]);
    }
    v
}

fn run(ctx: &Ctx, spec: &PartSpec) -> PartResult {
    let mut res = PartResult::new(&spec.name, "E2");
    if let Some(s) = spec.arg["loom"].as_str() {
        vcore::loompart::run_with_budget(s, spec.arg["pb"].as_u64(), ctx.budget_s, &mut res);
    } else if let Some(k) = spec.arg["kinds"].as_array() {
        kinds_part(&mut res, k[0].as_u64().unwrap() as usize, k[1].as_u64().unwrap() as usize);
    } else {
        process_part(&mut res, spec.arg["racers"].as_u64().unwrap_or(2) as usize);
    }
    res
}

fn main() {
    driver::main(CheckDef {
        prop: "C02",
        level: "model_checking",
        rule: "loom explores every execution (C11 memory model incl. acquire/release and UnsafeCell access ordering) of N installers racing set() with readers doing try_load()+dispatch on a fresh RecorderOnceCell compiled from /repo/metrics/src/recorder/cell.rs, up to the stated preemption bound (none = unbounded); plus one history per run on the real process-global cell (2 / 4 racing installers; seven bystander threads that emitted before, sit inside with_local_recorder, hold a local-recorder guard, have left a local scope (normally or by a caught panic, before or after), or did nothing when the installation happens, and afterwards emit outside any scope: all must reach the installed recorder; an emission made by the installed recorder itself from inside a callback reaches it too); distinct = distinct (winner, reader observation) outcomes; per ordered pair of recorder kinds from {plain, the crate's NoopRecorder, Box<dyn Recorder>} one process: first installation succeeds, second and third are rejected and hand their recorder back, emissions only ever reach the first",
        assumptions: &["loom's model of the C11 memory model", "the path-included cell.rs is the file the metrics crate compiles (same source file, loom types substituted by the cfg(metrics_verif_loom) import twin)", "set_global_recorder/with_recorder wrap the cell without further synchronisation (checked by the process-level part)"],
        parts,
        run,
    });
}
