//! C02 — the global recorder is installed at most once and seen whole by everyone (E2 loom + one process test).
use metrics::{Counter, Gauge, Histogram, Key, KeyName, Metadata, Recorder, SharedString, Unit};
use std::sync::atomic::{AtomicUsize, Ordering};
use std::sync::Arc;
use vcore::driver::{self, CheckDef, Ctx, PartResult, PartSpec};
use vcore::json;

struct D {
    id: usize,
    magic: u64,
    hits: Arc<Vec<AtomicUsize>>,
    drops: Arc<Vec<AtomicUsize>>,
}
impl Drop for D {
    fn drop(&mut self) {
        self.drops[self.id].fetch_add(1, Ordering::SeqCst);
    }
}
impl Recorder for D {
    fn describe_counter(&self, _: KeyName, _: Option<Unit>, _: SharedString) {
        assert_eq!(self.magic, 0xabc0 + self.id as u64);
        self.hits[self.id].fetch_add(1, Ordering::SeqCst);
    }
    fn describe_gauge(&self, _: KeyName, _: Option<Unit>, _: SharedString) {
        self.hits[self.id].fetch_add(1, Ordering::SeqCst);
    }
    fn describe_histogram(&self, _: KeyName, _: Option<Unit>, _: SharedString) {
        self.hits[self.id].fetch_add(1, Ordering::SeqCst);
    }
    fn register_counter(&self, _: &Key, _: &Metadata<'_>) -> Counter {
        self.hits[self.id].fetch_add(1, Ordering::SeqCst);
        Counter::noop()
    }
    fn register_gauge(&self, _: &Key, _: &Metadata<'_>) -> Gauge {
        self.hits[self.id].fetch_add(1, Ordering::SeqCst);
        Gauge::noop()
    }
    fn register_histogram(&self, _: &Key, _: &Metadata<'_>) -> Histogram {
        self.hits[self.id].fetch_add(1, Ordering::SeqCst);
        Histogram::noop()
    }
}

/// One history on the real process-global cell (a process can install only once, so this is one case per run).
fn process_part(res: &mut PartResult, racers: usize) {
    res.engine = "E3 single history on the real process-global recorder".into();
    let hits: Arc<Vec<AtomicUsize>> = Arc::new((0..racers).map(|_| AtomicUsize::new(0)).collect());
    let drops: Arc<Vec<AtomicUsize>> = Arc::new((0..racers).map(|_| AtomicUsize::new(0)).collect());
    // emissions before any install go nowhere
    metrics::counter!("pre").increment(1);
    metrics::describe_counter!("pre", "x");
    let barrier = Arc::new(std::sync::Barrier::new(racers));
    let hs: Vec<_> = (0..racers)
        .map(|i| {
            let (hits, drops, barrier) = (hits.clone(), drops.clone(), barrier.clone());
            std::thread::spawn(move || {
                let d = D { id: i, magic: 0xabc0 + i as u64, hits, drops: drops.clone() };
                barrier.wait();
                match metrics::set_global_recorder(d) {
                    Ok(()) => Ok(()),
                    Err(e) => {
                        let back = e.into_inner();
                        let intact = back.id == i && back.magic == 0xabc0 + i as u64 && drops[i].load(Ordering::SeqCst) == 0;
                        drop(back);
                        Err(intact && drops[i].load(Ordering::SeqCst) == 1)
                    }
                }
            })
        })
        .collect();
    let outs: Vec<Result<(), bool>> = hs.into_iter().map(|h| h.join().unwrap()).collect();
    res.executions = 1;
    res.transitions = racers as u64 + 4;
    res.states = 1;
    res.distinct_outcomes = 1;
    let winners: Vec<usize> = outs.iter().enumerate().filter(|(_, o)| o.is_ok()).map(|(i, _)| i).collect();
    let replay = json!({"racers": racers});
    if winners.len() != 1 {
        res.violation("install-not-exactly-once", format!("{} of {} racing set_global_recorder calls succeeded", winners.len(), racers), replay);
        return;
    }
    if outs.iter().any(|o| *o == Err(false)) {
        res.violation("rejected-recorder-not-intact", "a losing set_global_recorder did not hand its recorder back intact (or dropped/leaked it)".into(), replay);
        return;
    }
    let w = winners[0];
    if hits.iter().map(|h| h.load(Ordering::SeqCst)).sum::<usize>() != 0 {
        res.violation("emission-before-install-had-effect", "an emission made before any installation reached a recorder".into(), replay);
        return;
    }
    let t = std::thread::spawn(|| {
        metrics::describe_counter!("post", "x");
        metrics::counter!("post").increment(1);
    });
    metrics::describe_gauge!("post_g", "y");
    t.join().unwrap();
    // a later installation attempt fails as well
    let late = D { id: 0, magic: 0xabc0, hits: hits.clone(), drops: Arc::new(vec![AtomicUsize::new(0)]) };
    if metrics::set_global_recorder(late).is_ok() {
        res.violation("install-not-exactly-once", "a second, later set_global_recorder succeeded".into(), replay);
        return;
    }
    metrics::describe_histogram!("post_h", "z");
    for (i, h) in hits.iter().enumerate() {
        let n = h.load(Ordering::SeqCst);
        if i == w && n != 4 {
            res.violation("emission-lost-after-install", format!("winner saw {} of 4 emissions", n), replay);
            return;
        }
        if i != w && n != 0 {
            res.violation("emission-reached-losing-recorder", format!("loser {} saw {} emissions", i, n), replay);
            return;
        }
    }
    if drops[w].load(Ordering::SeqCst) != 0 {
        res.violation("installed-recorder-dropped", "the installed recorder was dropped".into(), replay);
    }
    res.sample(json!({"racers": racers, "winner": w}));
}

fn parts(ctx: &Ctx) -> Vec<PartSpec> {
    let mut v = vec![PartSpec::new("process-2", json!({"racers": 2})), PartSpec::new("process-4", json!({"racers": 4}))];
    let l = |s: &str, pb: Option<u64>| PartSpec::new(&format!("loom-{}-pb{}", s, pb.map(|p| p.to_string()).unwrap_or("inf".into())), json!({"loom": s, "pb": pb}));
    if ctx.quick() {
        v.extend([l("cell_2i1r", Some(3)), l("cell_1i2r_handoff", Some(3)), l("cell_3i1r", Some(2)), l("cell_2i2r", Some(2))]);
    } else {
        v.extend([l("cell_2i1r", None).budget(600.0), l("cell_1i2r_handoff", None).budget(900.0), l("cell_2i2r", Some(3)).budget(900.0), l("cell_2i2r_handoff", Some(3)).budget(900.0), l("cell_3i1r", Some(3)).budget(900.0)]);
    }
    v
}

fn run(ctx: &Ctx, spec: &PartSpec) -> PartResult {
    let mut res = PartResult::new(&spec.name, "E2");
    if let Some(s) = spec.arg["loom"].as_str() {
        vcore::loompart::run_with_budget(s, spec.arg["pb"].as_u64(), ctx.budget_s, &mut res);
    } else {
        process_part(&mut res, spec.arg["racers"].as_u64().unwrap_or(2) as usize);
    }
    res
}

fn main() {
    driver::main(CheckDef {
        prop: "C02",
        level: "model_checking",
        rule: "loom explores every execution (C11 memory model incl. acquire/release and UnsafeCell access ordering) of N installers racing set() with readers doing try_load()+dispatch on a fresh RecorderOnceCell compiled from /repo/metrics/src/recorder/cell.rs, up to the stated preemption bound (none = unbounded); plus one history per run on the real process-global cell; distinct = distinct (winner, reader observation) outcomes",
        assumptions: &["loom's model of the C11 memory model", "the path-included cell.rs is the file the metrics crate compiles (same source file, loom types substituted by the cfg(metrics_verif_loom) import twin)", "set_global_recorder/with_recorder wrap the cell without further synchronisation (checked by the process-level part)"],
        parts,
        run,
    });
}
