//! C05 — the lock-free bucket never loses, duplicates or invents a sample (E1).
use metrics_util::storage::AtomicBucket;
use std::sync::atomic::{AtomicUsize, Ordering};
use vcore::driver::{self, CheckDef, Ctx, PartResult, PartSpec};
use vcore::json;
use vcore::vsched::{self, body, fail, Body, Cfg, Log, Scenario, Verdict};

#[derive(Clone, Debug)]
enum Ev {
    PushCall(u64),
    PushRet(u64),
    ClearCall(usize),
    ClearRet(usize, Vec<Vec<u64>>),
    SnapCall(usize),
    SnapRet(usize, Vec<Vec<u64>>, bool),
    EmptyCall(usize),
    EmptyRet(usize, bool),
}

struct S {
    b: AtomicBucket<u64>,
    log: Log<Ev>,
    ids: AtomicUsize,
    prefill: Vec<u64>,
}

fn push(s: &S, v: u64) {
    s.log.push(Ev::PushCall(v));
    s.b.push(v);
    s.log.push(Ev::PushRet(v));
}
fn clear(s: &S) {
    let id = s.ids.fetch_add(1, Ordering::SeqCst);
    s.log.push(Ev::ClearCall(id));
    let mut out = Vec::new();
    s.b.clear_with(|xs| out.push(xs.to_vec()));
    s.log.push(Ev::ClearRet(id, out));
}
fn snap_with(s: &S) {
    let id = s.ids.fetch_add(1, Ordering::SeqCst);
    s.log.push(Ev::SnapCall(id));
    let mut out = Vec::new();
    s.b.data_with(|xs| out.push(xs.to_vec()));
    s.log.push(Ev::SnapRet(id, out, true));
}
fn snap_data(s: &S) {
    let id = s.ids.fetch_add(1, Ordering::SeqCst);
    s.log.push(Ev::SnapCall(id));
    let out = s.b.data();
    s.log.push(Ev::SnapRet(id, vec![out], false));
}
fn empty(s: &S) {
    let id = s.ids.fetch_add(1, Ordering::SeqCst);
    s.log.push(Ev::EmptyCall(id));
    let e = s.b.is_empty();
    s.log.push(Ev::EmptyRet(id, e));
}

/// The oracle of C05 over the totally ordered call/return log (plus sequential epilogue, already in the log).
fn oracle(s: &S) -> Verdict {
    let log = s.log.get();
    let mut push_call = std::collections::BTreeMap::new();
    let mut push_ret = std::collections::BTreeMap::new();
    for v in &s.prefill {
        push_call.insert(*v, 0usize);
        push_ret.insert(*v, 0usize);
    }
    // indices shifted by one so that prefilled values (index 0) precede everything
    let mut clears: Vec<(usize, usize, Vec<Vec<u64>>)> = Vec::new(); // (call, ret, slices)
    let mut snaps: Vec<(usize, usize, Vec<Vec<u64>>)> = Vec::new();
    let mut ordered: Vec<Vec<u64>> = Vec::new();
    let mut empties: Vec<(usize, usize, bool)> = Vec::new();
    let mut open: std::collections::BTreeMap<usize, usize> = std::collections::BTreeMap::new();
    for (i0, e) in log.iter().enumerate() {
        let i = i0 + 1;
        match e {
            Ev::PushCall(v) => {
                push_call.insert(*v, i);
            }
            Ev::PushRet(v) => {
                push_ret.insert(*v, i);
            }
            Ev::ClearCall(id) | Ev::SnapCall(id) | Ev::EmptyCall(id) => {
                open.insert(*id, i);
            }
            Ev::ClearRet(id, d) => {
                ordered.extend(d.iter().cloned());
                clears.push((open[id], i, d.clone()))
            }
            Ev::SnapRet(id, d, per_block) => {
                if *per_block {
                    ordered.extend(d.iter().cloned());
                }
                snaps.push((open[id], i, d.clone()))
            }
            Ev::EmptyRet(id, b) => empties.push((open[id], i, *b)),
        }
    }
    // 1. conservation: every pushed value delivered to exactly one clear (the epilogue ends with a clear)
    let mut delivered: std::collections::BTreeMap<u64, Vec<usize>> = std::collections::BTreeMap::new(); // value -> clear indices
    for (ci, (_, _, slices)) in clears.iter().enumerate() {
        for sl in slices {
            for v in sl {
                delivered.entry(*v).or_default().push(ci);
            }
        }
    }
    for (v, cs) in &delivered {
        if !push_call.contains_key(v) {
            return fail("fabricated-or-unwritten-value", format!("clear delivered value {} that was never pushed (0 = slot observed before it was written)", v));
        }
        if cs.len() > 1 {
            return fail("duplicated-value", format!("value {} delivered to {} clears", v, cs.len()));
        }
    }
    let lost: Vec<u64> = push_call.keys().filter(|v| !delivered.contains_key(v)).cloned().collect();
    if !lost.is_empty() {
        let shown: Vec<u64> = lost.iter().take(6).cloned().collect();
        return fail("lost-value", format!("{} pushed value(s) never delivered to any clear and absent from the final contents: {:?}", lost.len(), shown));
    }
    // order inside a slice: real-time ordered pushes keep their order
    let check_order = |sl: &Vec<u64>| -> Option<String> {
        for a in 0..sl.len() {
            for b in (a + 1)..sl.len() {
                let (va, vb) = (sl[a], sl[b]);
                if let (Some(ra), Some(cb)) = (push_ret.get(&vb), push_call.get(&va)) {
                    // vb completed before va was even started, yet appears after it
                    if ra < cb {
                        return Some(format!("value {} (pushed strictly earlier) appears after {} in one block slice {:?}", vb, va, sl));
                    }
                }
            }
        }
        None
    };
    for sl in &ordered {
        if let Some(m) = check_order(sl) {
            return fail("block-order", m);
        }
    }
    // 2. snapshots
    for (c, r, slices) in &snaps {
        let mut seen = std::collections::BTreeSet::new();
        for v in slices.iter().flatten() {
            if !push_call.contains_key(v) {
                return fail("fabricated-or-unwritten-value", format!("snapshot shows value {} that was never pushed", v));
            }
            if push_call[v] > *r {
                return fail("fabricated-or-unwritten-value", format!("snapshot shows value {} whose push started after the snapshot ended", v));
            }
            if !seen.insert(*v) {
                return fail("duplicated-value", format!("snapshot shows value {} twice", v));
            }
            // taken by a clear that had completed before the snapshot began
            let ci = delivered[v][0];
            if clears[ci].1 < *c {
                return fail("snapshot-shows-cleared-value", format!("snapshot shows value {} already handed to a clear that returned before the snapshot began", v));
            }
        }
        for (v, pr) in &push_ret {
            if pr < c {
                let ci = delivered[v][0];
                let taken_possibly = clears[ci].0 < *r;
                if !taken_possibly && !seen.contains(v) {
                    return fail("snapshot-misses-completed-push", format!("push of {} completed before the snapshot began and no clear that started before the snapshot ended took it, yet the snapshot {:?} lacks it", v, slices));
                }
            }
        }
    }
    // 3. is_empty
    for (c, r, ans) in &empties {
        if *ans {
            for (v, pr) in &push_ret {
                if pr < c {
                    let ci = delivered[v][0];
                    if !(clears[ci].0 < *r) {
                        return fail("is-empty-misses-completed-push", format!("is_empty() returned true although the push of {} completed before it began and no clear had started", v));
                    }
                }
            }
        }
    }
    let shape: Vec<String> = clears.iter().map(|c| format!("{:?}", c.2)).collect();
    let snapshape: Vec<String> = snaps.iter().map(|c| format!("{:?}", c.2)).collect();
    let em: Vec<bool> = empties.iter().map(|e| e.2).collect();
    Verdict::Ok(format!("clears={} snaps={} empty={:?}", shape.join("/"), snapshape.join("/"), em))
}

fn epilogue_and_oracle(s: &S) -> Verdict {
    // sequential epilogue: snapshot, is_empty, final clear, is_empty
    snap_data(s);
    empty(s);
    clear(s);
    let e = s.b.is_empty();
    if !e {
        return fail("not-empty-after-clear", "is_empty() is false right after a sequential clear".into());
    }
    oracle(s)
}

fn mk(name: &str, prefill: usize, bodies: Vec<Body<S>>) -> Scenario<S> {
    Scenario {
        name: name.into(),
        setup: Box::new(move || {
            let s = S { b: AtomicBucket::new(), log: Log::new(), ids: AtomicUsize::new(0), prefill: (0..prefill).map(|i| 1000 + i as u64).collect() };
            for v in &s.prefill {
                s.b.push(*v);
            }
            s
        }),
        bodies,
        check: Box::new(|s, _| epilogue_and_oracle(s)),
        termination_promised: true,
    }
}

// ---- S4: payload with a destructor. Plain data only (no pointers), so that a destructor run on memory that never
// held a pushed value (all zeroes, or stale) is counted instead of crashing the harness.
const D_MAGIC: u64 = 0xD0D0_5EED_D0D0_5EED;
const D_MAX: usize = 8 + 80;
static D_DROPS: [AtomicUsize; D_MAX] = [const { AtomicUsize::new(0) }; D_MAX];
static D_FABRICATED: AtomicUsize = AtomicUsize::new(0);
struct D {
    id: u64,
    magic: u64,
}
impl D {
    fn new(id: u64) -> D {
        D { id, magic: D_MAGIC }
    }
    fn intact(&self) -> bool {
        self.magic == D_MAGIC
    }
}
impl Drop for D {
    fn drop(&mut self) {
        if self.magic != D_MAGIC || self.id as usize >= D_MAX {
            D_FABRICATED.fetch_add(1, Ordering::SeqCst);
        } else {
            D_DROPS[self.id as usize].fetch_add(1, Ordering::SeqCst);
        }
        // whoever still looks at this value afterwards sees that it is gone
        self.magic = 0;
    }
}
struct S4 {
    b: AtomicBucket<D>,
    delivered: Log<(u64, usize)>, // (id, drop count at delivery)
}

/// S6: a clearing read whose callback FAILS (panics, caught by the caller) on its second block, next to a snapshot read
/// in progress (66 values = two blocks; the reader's callback yields between blocks). Whatever the clear does with the
/// blocks it had already visited when its callback failed, a read in progress keeps seeing live values: no value it is
/// handed has been destroyed, none is fabricated, no destructor runs twice.
static S6_BAD_READS: AtomicUsize = AtomicUsize::new(0);
fn s6_scenario() -> Scenario<S4> {
    let n = 8 + 66;
    let reader: Body<S4> = body(|s: &S4| {
        s.b.data_with(|xs| {
            for d in xs {
                if d.magic != D_MAGIC || (d.id as usize) < D_MAX && D_DROPS[d.id as usize].load(Ordering::SeqCst) != 0 {
                    S6_BAD_READS.fetch_add(1, Ordering::SeqCst);
                }
            }
            vsched::point("reader_between_blocks");
            for d in xs {
                if d.magic != D_MAGIC {
                    S6_BAD_READS.fetch_add(1, Ordering::SeqCst);
                }
            }
        });
    });
    let clearer: Body<S4> = body(|s: &S4| {
        let mut calls = 0;
        let _ = std::panic::catch_unwind(std::panic::AssertUnwindSafe(|| {
            s.b.clear_with(|xs| {
                calls += 1;
                for d in xs {
                    s.delivered.push((d.id, D_DROPS[(d.id as usize).min(D_MAX - 1)].load(Ordering::SeqCst)));
                }
                if calls == 2 {
                    std::panic::resume_unwind(Box::new("the clear callback fails on its second block"));
                }
            })
        }));
    });
    Scenario {
        name: "S6-failing-clear-callback-vs-reader-prefill66".into(),
        setup: Box::new(move || {
            for d in D_DROPS.iter() {
                d.store(0, Ordering::SeqCst);
            }
            D_FABRICATED.store(0, Ordering::SeqCst);
            S6_BAD_READS.store(0, Ordering::SeqCst);
            let s = S4 { b: AtomicBucket::new(), delivered: Log::new() };
            for i in 0..66 {
                s.b.push(D::new(8 + i as u64));
            }
            s
        }),
        bodies: vec![reader, clearer],
        check: Box::new(move |s, _| {
            let bad = S6_BAD_READS.load(Ordering::SeqCst);
            if bad != 0 {
                return fail("value-read-after-its-destructor-ran", format!("a snapshot read in progress was handed {} value(s) that had already been destroyed (their block released while the read's guard was pinned)", bad));
            }
            for (id, dc) in &s.delivered.get() {
                if *dc != 0 {
                    return fail("destructor-before-delivery", format!("value {} was destroyed before it was delivered", id));
                }
            }
            for _ in 0..64 {
                crossbeam_epoch::pin().flush();
            }
            if D_FABRICATED.load(Ordering::SeqCst) != 0 {
                return fail("destructor-run-on-value-never-pushed", format!("{} destructor run(s) on slots that never held a pushed value", D_FABRICATED.load(Ordering::SeqCst)));
            }
            for (i, d) in D_DROPS.iter().enumerate().take(n) {
                if d.load(Ordering::SeqCst) > 1 {
                    return fail("destructor-twice", format!("destructor of value {} ran {} times", i, d.load(Ordering::SeqCst)));
                }
            }
            Verdict::Ok(format!("delivered={}", s.delivered.get().len()))
        }),
        termination_promised: true,
    }
}

fn s4_scenario(prefill: usize) -> Scenario<S4> {
    let n = 8 + prefill;
    let pusher = |ids: [u64; 2]| -> Body<S4> {
        body(move |s: &S4| {
            for id in ids {
                s.b.push(D::new(id));
            }
        })
    };
    let clearer: Body<S4> = body(|s: &S4| {
        for _ in 0..2 {
            s.b.clear_with(|xs| {
                for d in xs {
                    s.delivered.push((d.id, D_DROPS[(d.id as usize).min(D_MAX - 1)].load(Ordering::SeqCst)));
                }
            });
        }
    });
    Scenario {
        name: format!("S4-dtor-prefill{}", prefill),
        setup: Box::new(move || {
            for d in D_DROPS.iter() {
                d.store(0, Ordering::SeqCst);
            }
            D_FABRICATED.store(0, Ordering::SeqCst);
            let s = S4 { b: AtomicBucket::new(), delivered: Log::new() };
            for i in 0..prefill {
                s.b.push(D::new(8 + i as u64));
            }
            s
        }),
        bodies: vec![pusher([0, 1]), pusher([2, 3]), clearer],
        check: Box::new(move |s, _| {
            s.b.clear_with(|xs| {
                for d in xs {
                    s.delivered.push((d.id, D_DROPS[(d.id as usize).min(D_MAX - 1)].load(Ordering::SeqCst)));
                }
            });
            let del = s.delivered.get();
            let mut seen = std::collections::BTreeSet::new();
            for (id, dc) in &del {
                if *dc != 0 {
                    return fail("destructor-before-delivery", format!("value {} was destroyed before it was delivered", id));
                }
                if !seen.insert(*id) {
                    return fail("duplicated-value", format!("value {} delivered twice", id));
                }
            }
            for id in (0..4u64).chain((0..prefill as u64).map(|i| 8 + i)) {
                if !seen.contains(&id) {
                    return fail("lost-value", format!("value {} never delivered", id));
                }
            }
            // every model thread has finished: run what the clears deferred, then look at the destructors
            for _ in 0..64 {
                crossbeam_epoch::pin().flush();
            }
            let fab = D_FABRICATED.load(Ordering::SeqCst);
            if fab != 0 {
                return fail("destructor-run-on-value-never-pushed", format!("{} destructor run(s) on slots that never held a pushed value (unwritten or stale memory treated as a value)", fab));
            }
            for (i, d) in D_DROPS.iter().enumerate().take(n) {
                if d.load(Ordering::SeqCst) > 1 {
                    return fail("destructor-twice", format!("destructor of value {} ran {} times", i, d.load(Ordering::SeqCst)));
                }
            }
            Verdict::Ok(format!("delivered={}", del.len()))
        }),
        termination_promised: true,
    }
}

/// S7: a snapshot reader that is slow inside its callback, a clearer that clears and then drives the epoch collector
/// (as any other user of the collector in the process would), a pusher. What the reader was handed stays intact for as
/// long as the callback runs: no value of the slice is destroyed under it (destructor count 0, magic intact), before and
/// after the reader has been preempted inside the callback.
fn s7_scenario() -> Scenario<S4> {
    Scenario {
        name: "S7-slow-snapshot-reader-vs-clear-and-collector".into(),
        setup: Box::new(|| {
            for d in D_DROPS.iter() {
                d.store(0, Ordering::SeqCst);
            }
            D_FABRICATED.store(0, Ordering::SeqCst);
            let s = S4 { b: AtomicBucket::new(), delivered: Log::new() };
            for i in 0..3 {
                s.b.push(D::new(8 + i as u64));
            }
            s
        }),
        bodies: vec![
            body(|s: &S4| {
                s.b.data_with(|xs| {
                    let look = |when: u64| {
                        for d in xs {
                            let dc = D_DROPS[(d.id as usize).min(D_MAX - 1)].load(Ordering::SeqCst);
                            if dc != 0 || !d.intact() {
                                s.delivered.push((1000 + when, d.id.min(999) as usize));
                            }
                        }
                    };
                    look(0);
                    vsched::point("reader_in_callback");
                    look(1);
                });
            }),
            body(|s: &S4| {
                s.b.clear_with(|_| {});
                for _ in 0..300 {
                    crossbeam_epoch::pin().flush();
                }
            }),
            body(|s: &S4| s.b.push(D::new(0))),
        ],
        check: Box::new(|s, _| {
            let bad: Vec<(u64, usize)> = s.delivered.get().into_iter().filter(|(t, _)| *t >= 1000).collect();
            if let Some((t, id)) = bad.first() {
                return fail("value-destroyed-under-snapshot-reader", format!("a snapshot reader was inside its data_with callback ({} it was preempted there) while another thread cleared the bucket and the epoch collector ran: value {} of the slice it had been handed was destroyed under it ({} such observations)", if *t == 1000 { "before" } else { "after" }, id, bad.len()));
            }
            s.b.clear_with(|_| {});
            for _ in 0..64 {
                crossbeam_epoch::pin().flush();
            }
            Verdict::Ok(format!("{}", D_DROPS.iter().take(12).filter(|d| d.load(Ordering::SeqCst) == 1).count()))
        }),
        termination_promised: true,
    }
}

fn scenario(name: &str) -> Option<Scenario<S>> {
    let p2 = |a: u64, b: u64| -> Body<S> {
        body(move |s: &S| {
            push(s, a);
            push(s, b);
        })
    };
    let p1 = |a: u64| -> Body<S> { body(move |s: &S| push(s, a)) };
    let clearer2: Body<S> = body(|s: &S| {
        clear(s);
        clear(s);
    });
    let clearer1: Body<S> = body(|s: &S| clear(s));
    let reader: Body<S> = body(|s: &S| {
        snap_with(s);
        empty(s);
        snap_data(s);
    });
    let reader_e: Body<S> = body(|s: &S| {
        empty(s);
        snap_with(s);
    });
    Some(match name {
        "S1" => mk("S1-2pushers-clearer", 0, vec![p2(1, 2), p2(3, 4), clearer2]),
        "S2" => mk("S2-pusher-reader-clearer", 0, vec![p2(1, 2), reader, clearer1]),
        "S2b" => mk("S2b-2pushers-reader", 0, vec![p2(1, 2), p1(3), reader_e]),
        "S3" => mk("S3-handover-2pushers-clearer", 63, vec![p2(1, 2), p2(3, 4), clearer2]),
        "S3b" => mk("S3b-handover-pusher-reader-clearer", 63, vec![p2(1, 2), reader, clearer1]),
        "S3c" => mk("S3c-handover-2pushers-reader", 63, vec![p2(1, 2), p1(3), reader_e]),
        "S3d" => mk("S3d-handover62-2pushers-clearer", 62, vec![p2(1, 2), p2(3, 4), clearer1]),
        // two clearing readers at once (a scrape and the periodic upkeep; two snapshotters)
        "S5" => mk("S5-pusher-2clearers", 1, vec![p2(1, 2), body(|s: &S| clear(s)), body(|s: &S| clear(s))]),
        "S5h" => mk("S5h-handover-pusher-2clearers", 63, vec![p2(1, 2), body(|s: &S| clear(s)), body(|s: &S| clear(s))]),
        // the head block is exactly full when the two clearers meet (no pusher in the way), and with one more push
        "S5f" => mk("S5f-full-block-2clearers", 64, vec![body(|s: &S| clear(s)), body(|s: &S| clear(s))]),
        "S5g" => mk("S5g-full-block-pusher-2clearers", 64, vec![p1(1), body(|s: &S| clear(s)), body(|s: &S| clear(s))]),
        _ => return None,
    })
}

// ------------------------------------------------------------------ long chains (sequential; each case in its own process)
/// Chains of many blocks: N x 64 + 5 values with a destructor are pushed, ONE clear_with takes them all (each handed over
/// exactly once), then the epoch collector is driven. Every value's destructor runs at most once (and the process
/// survives: a block released twice is a double free). What "released twice" looks like is a dead process, so every N
/// runs in a grand-child process (this binary with C05_CHAIN_PROBE set) that reports a second destructor run the moment
/// it happens.
struct ChainVal {
    id: u32,
}
static CHAIN_DROPS: [std::sync::atomic::AtomicU8; 8192] = {
    #[allow(clippy::declare_interior_mutable_const)]
    const Z: std::sync::atomic::AtomicU8 = std::sync::atomic::AtomicU8::new(0);
    [Z; 8192]
};
impl Drop for ChainVal {
    fn drop(&mut self) {
        let n = CHAIN_DROPS.get(self.id as usize).map(|c| c.fetch_add(1, Ordering::SeqCst) + 1).unwrap_or(99);
        if n != 1 {
            use std::io::Write;
            println!("DOUBLE id={} times={}", self.id, n);
            let _ = std::io::stdout().flush();
        }
    }
}
fn chain_probe(arg: &str) -> ! {
    use std::io::Write;
    let blocks: usize = arg.parse().unwrap();
    let n = blocks * 64 + 5;
    let b: AtomicBucket<ChainVal> = AtomicBucket::new();
    for round in 0..2 {
        let base = round * n;
        for i in 0..n {
            b.push(ChainVal { id: (base + i) as u32 });
        }
        let mut seen = vec![0u8; n];
        b.clear_with(|vals| {
            for v in vals {
                if let Some(x) = seen.get_mut(v.id as usize - base) {
                    *x += 1;
                }
            }
        });
        if seen.iter().any(|x| *x != 1) {
            println!("HANDOVER round={} missing={} twice={}", round, seen.iter().filter(|x| **x == 0).count(), seen.iter().filter(|x| **x > 1).count());
        }
        for _ in 0..256 {
            crossbeam_epoch::pin().flush();
        }
    }
    drop(b);
    for _ in 0..256 {
        crossbeam_epoch::pin().flush();
    }
    let dropped = (0..2 * n).filter(|i| CHAIN_DROPS[*i].load(Ordering::SeqCst) == 1).count();
    println!("DONE values={} dropped_once={}", 2 * n, dropped);
    let _ = std::io::stdout().flush();
    std::process::exit(0)
}
fn long_chain_part(res: &mut PartResult) {
    res.engine = "E3 chain lengths x (push all, one clear_with, drive the epoch collector), each in its own process".into();
    let exe = std::env::current_exe().unwrap();
    let mut states = std::collections::BTreeSet::new();
    for blocks in [1usize, 2, 30, 31, 32, 33, 40, 63] {
        res.executions += 1;
        res.transitions += (2 * (blocks * 64 + 5) + 2) as u64;
        let out = std::process::Command::new(&exe).env("C05_CHAIN_PROBE", blocks.to_string()).output();
        let cfg = json!({"chain_blocks": blocks});
        match out {
            Err(e) => res.error = Some(format!("cannot run the probe: {}", e)),
            Ok(o) => {
                use std::os::unix::process::ExitStatusExt;
                let txt = String::from_utf8_lossy(&o.stdout).to_string();
                states.insert((o.status.code(), o.status.signal(), txt.contains("DOUBLE")));
                let doubles: Vec<&str> = txt.lines().filter(|l| l.starts_with("DOUBLE")).collect();
                if let Some(l) = txt.lines().find(|l| l.starts_with("HANDOVER")) {
                    res.violation("lost-value", format!("a chain of {} blocks cleared by one clear_with: {}", blocks, l), cfg.clone());
                }
                if !doubles.is_empty() {
                    res.violation("value-dropped-twice", format!("{} values with a destructor in a chain of {} blocks, one clear_with, then the epoch collector driven: {} destructor runs beyond the first (e.g. {:?}){}", blocks * 64 + 5, blocks, doubles.len(), doubles[0], o.status.signal().map(|s| format!("; the process then died of signal {}", s)).unwrap_or_default()), cfg.clone());
                } else if let Some(sig) = o.status.signal() {
                    res.violation("memory-unsafe-reclamation", format!("a chain of {} blocks cleared by one clear_with, then the epoch collector driven: the process died of signal {}", blocks, sig), cfg.clone());
                } else if o.status.code() != Some(0) || !txt.contains("DONE") {
                    res.violation("panic", format!("chain of {} blocks: probe ended with status {:?}: {}", blocks, o.status.code(), String::from_utf8_lossy(&o.stderr).chars().take(300).collect::<String>()), cfg.clone());
                }
            }
        }
    }
    res.states = states.len() as u64;
    res.distinct_outcomes = states.len() as u64;
    res.sample(json!({"blocks": 40, "values": 2565, "expected": "each handed to the one clear exactly once; no destructor runs twice; the process survives reclamation"}));
}

fn parts(ctx: &Ctx) -> Vec<PartSpec> {
    let mut v = Vec::new();
    v.push(PartSpec::new("e3-long-chains-one-clear", json!({"chain": true})).budget(120.0));
    if ctx.quick() {
        for s in ["S1", "S2", "S2b", "S3", "S3b", "S3c", "S4", "S4h", "S5", "S5h", "S5f", "S5g", "S6", "S7"] {
            v.push(PartSpec::new(&format!("{}-pb2", s), json!({"scn": s, "pb": 2})).budget(120.0));
        }
        for s in ["S1", "S2", "S3b"] {
            v.push(PartSpec::new(&format!("{}-impatient-waits-pb1", s), json!({"scn": s, "pb": 1, "impatient": 24})).budget(120.0));
        }
        // E2: C11 memory model (incl. the epoch reclamation's own atomics), 2 threads at bound 1, 3 threads at bound 0
        for (s, pb) in [("push_clear", 1), ("push_snap", 1), ("handover_clear", 1), ("full_push_clear", 1), ("handover_push_push", 1), ("push_clear_snap", 0), ("push_clear_clear", 0), ("full_clear_clear", 1), ("push_push_clear", 0), ("handover_push_push_clear", 0)] {
            v.push(PartSpec::new(&format!("loom-{}-pb{}", s, pb), json!({"loom": s, "pb": pb})).budget(160.0));
        }
    } else {
        for (s, pb, b) in [("push_clear", 2, 900.0), ("push_snap", 2, 1500.0), ("handover_clear", 2, 1500.0), ("full_push_clear", 2, 1500.0), ("handover_push_push", 2, 1500.0), ("handover_snap", 1, 900.0), ("push_clear_snap", 1, 1500.0), ("push_clear_clear", 1, 1500.0), ("full_clear_clear", 2, 900.0), ("push_push_clear", 1, 1500.0), ("handover_push_push_clear", 1, 1500.0)] {
            v.push(PartSpec::new(&format!("loom-{}-pb{}", s, pb), json!({"loom": s, "pb": pb})).budget(b));
        }
        for s in ["S1", "S2", "S2b", "S3", "S3b", "S3c", "S3d", "S4", "S4h", "S5", "S5h", "S5f", "S5g", "S6", "S7"] {
            v.push(PartSpec::new(&format!("{}-pb3", s), json!({"scn": s, "pb": 3})).budget(900.0));
        }
        for s in ["S1", "S3", "S2"] {
            v.push(PartSpec::new(&format!("{}-pb4", s), json!({"scn": s, "pb": 4})).budget(1500.0));
        }
        for s in ["S1", "S2", "S2b", "S3", "S3b", "S5"] {
            v.push(PartSpec::new(&format!("{}-impatient-waits-pb2", s), json!({"scn": s, "pb": 2, "impatient": 24})).budget(1500.0));
        }
    }
    v
}

fn run(ctx: &Ctx, spec: &PartSpec) -> PartResult {
    let mut res = PartResult::new(&spec.name, "E1");
    if let Some(s) = spec.arg["loom"].as_str() {
        vcore::loompart::run_bucket_with_budget(s, spec.arg["pb"].as_u64(), ctx.budget_s, &mut res);
        return res;
    }
    if spec.arg["chain"].as_bool() == Some(true) {
        long_chain_part(&mut res);
        return res;
    }
    let scn = spec.arg["scn"].as_str().unwrap_or("S1").to_string();
    let pb = spec.arg["pb"].as_u64().unwrap_or(2) as usize;
    // impatient waits: a waiting reader's first 24 retries return at once (a spinning thread keeps running whether or
    // not the writer it waits for does), so a wait that gives up after a bounded number of retries reaches its bound
    if let Some(k) = spec.arg["impatient"].as_u64() {
        vsched::IMPATIENT.store(k as u32, std::sync::atomic::Ordering::Relaxed);
    }
    let cfg = Cfg { max_bound: pb, horizon: 20000 };
    match scn.as_str() {
        "S4" => vsched::explore(&s4_scenario(0), &cfg, ctx, &mut res),
        "S4h" => vsched::explore(&s4_scenario(63), &cfg, ctx, &mut res),
        "S6" => vsched::explore(&s6_scenario(), &cfg, ctx, &mut res),
        "S7" => vsched::explore(&s7_scenario(), &cfg, ctx, &mut res),
        other => match scenario(other) {
            Some(s) => vsched::explore(&s, &cfg, ctx, &mut res),
            None => res.error = Some(format!("unknown scenario {}", other)),
        },
    }
    res
}

fn main() {
    if let Ok(a) = std::env::var("C05_CHAIN_PROBE") {
        chain_probe(&a);
    }
    driver::main(CheckDef {
        prop: "C05",
        level: "model_checking",
        rule: "E2: loom 0.7.2 explores every C11 execution (which store each load reads, preemption-bounded) of the repository's own bucket.rs with crossbeam-epoch / crossbeam-utils compiled in their loom mode, every slot access tracked: pusher(2) || clearer, pusher(2) || snapshot reader + is_empty, two pushers || clearer, pusher || clearer || snapshot / second clearer, each also with 63 / 64 pre-filled slots (block hand-over inside the window); oracle: multiset conservation over all clears + final drain, per-block push order, snapshots show no fabricated / duplicated value and every completed push, and loom's own report of slot accesses not ordered by happens-before; E1: every interleaving (at atomic-operation granularity, sequentially consistent) of 3 real threads over the real AtomicBucket with at most pb preemptions; scenarios: 2 pushers x 2 pushes || clearer, pusher || reader(data_with,is_empty,data) || clearer, pusher || two clearers, each also with 63/62 pre-filled slots so the racing pushes straddle the block hand-over, and with a destructor-carrying payload; a slow snapshot reader against a clearer that then drives the epoch collector (nothing the reader was handed is destroyed under it); E3 long chains: 1..63 blocks of destructor-carrying values pushed, one clear_with (each value handed over once), the epoch collector driven, twice, each length in its own process: no destructor runs twice, the process survives; distinct = distinct (clear deliveries, snapshots, is_empty answers) outcome",
        assumptions: &["E1: sequential consistency; E2: loom's C11 model (no SeqCst-fence weakening beyond what loom implements), Block::new built field by field instead of zeroed (loom atomics cannot be zero-initialised)", "scheduling points = every facade atomic / epoch-pointer operation + the slot write; other code between two points runs atomically", "BLOCK_SIZE = 64"],
        parts,
        run,
    });
}
