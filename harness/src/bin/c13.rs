//! C13 — layers deliver exactly the transformed operations to exactly the right recorders (E3).
use metrics::{Counter, CounterFn, Gauge, GaugeFn, Histogram, HistogramFn, Key, KeyName, Label, Level, Metadata, Recorder, SharedString, Unit};
use metrics_util::layers::{FanoutBuilder, FilterLayer, Layer, PrefixLayer, RouterBuilder, Stack};
use metrics_util::MetricKindMask;
use std::sync::{Arc, Mutex};
use vcore::driver::{self, CheckDef, Ctx, PartResult, PartSpec};
use vcore::json;
use vcore::vseq;

static META: Metadata<'static> = Metadata::new("tgt", Level::WARN, Some("modp"));
type Log = Arc<Mutex<Vec<String>>>;

struct LogRec {
    id: usize,
    log: Log,
}
struct LogHandle {
    id: usize,
    name: String,
    log: Log,
}
impl CounterFn for LogHandle {
    fn increment(&self, v: u64) {
        self.log.lock().unwrap().push(format!("{}|inc|{}|{}", self.id, self.name, v));
    }
    fn absolute(&self, v: u64) {
        self.log.lock().unwrap().push(format!("{}|abs|{}|{}", self.id, self.name, v));
    }
}
impl GaugeFn for LogHandle {
    fn increment(&self, v: f64) {
        self.log.lock().unwrap().push(format!("{}|ginc|{}|{}", self.id, self.name, v));
    }
    fn decrement(&self, v: f64) {
        self.log.lock().unwrap().push(format!("{}|gdec|{}|{}", self.id, self.name, v));
    }
    fn set(&self, v: f64) {
        self.log.lock().unwrap().push(format!("{}|gset|{}|{}", self.id, self.name, v));
    }
}
impl HistogramFn for LogHandle {
    fn record(&self, v: f64) {
        self.log.lock().unwrap().push(format!("{}|rec|{}|{}", self.id, self.name, v));
    }
}
fn keystr(k: &Key) -> String {
    format!("{}{{{}}}", k.name(), k.labels().map(|l| format!("{}={}", l.key(), l.value())).collect::<Vec<_>>().join(","))
}
fn metastr(m: &Metadata<'_>) -> String {
    format!("{}/{:?}/{:?}", m.target(), m.level(), m.module_path())
}
impl LogRec {
    fn d(&self, what: &str, n: KeyName, u: Option<Unit>, d: SharedString) {
        self.log.lock().unwrap().push(format!("{}|describe_{}|{}|{:?}|{}", self.id, what, n.as_str(), u.map(|u| u.as_str()), d));
    }
    fn r(&self, what: &str, k: &Key, m: &Metadata<'_>) -> Arc<LogHandle> {
        self.log.lock().unwrap().push(format!("{}|register_{}|{}|{}", self.id, what, keystr(k), metastr(m)));
        Arc::new(LogHandle { id: self.id, name: k.name().to_string(), log: self.log.clone() })
    }
}
impl Recorder for LogRec {
    fn describe_counter(&self, n: KeyName, u: Option<Unit>, d: SharedString) {
        self.d("counter", n, u, d)
    }
    fn describe_gauge(&self, n: KeyName, u: Option<Unit>, d: SharedString) {
        self.d("gauge", n, u, d)
    }
    fn describe_histogram(&self, n: KeyName, u: Option<Unit>, d: SharedString) {
        self.d("histogram", n, u, d)
    }
    fn register_counter(&self, k: &Key, m: &Metadata<'_>) -> Counter {
        Counter::from_arc(self.r("counter", k, m))
    }
    fn register_gauge(&self, k: &Key, m: &Metadata<'_>) -> Gauge {
        Gauge::from_arc(self.r("gauge", k, m))
    }
    fn register_histogram(&self, k: &Key, m: &Metadata<'_>) -> Histogram {
        Histogram::from_arc(self.r("histogram", k, m))
    }
}

const KINDS: [&str; 3] = ["counter", "gauge", "histogram"];

/// Drives all six recorder operations (and every handle operation) for `name` through `rec`;
/// returns what the logging doubles saw.
fn drive(rec: &dyn Recorder, log: &Log, name: &str, kind: usize) -> Vec<String> {
    log.lock().unwrap().clear();
    let key = Key::from_parts(name.to_string(), vec![Label::new("l", "v")]);
    let kn: KeyName = name.to_string().into();
    match kind {
        0 => {
            rec.describe_counter(kn, Some(Unit::Bytes), "dc".into());
            let h = rec.register_counter(&key, &META);
            h.increment(3);
            h.absolute(9);
        }
        1 => {
            rec.describe_gauge(kn, None, "dg".into());
            let h = rec.register_gauge(&key, &META);
            h.increment(1.5);
            h.decrement(0.5);
            h.set(4.0);
        }
        _ => {
            rec.describe_histogram(kn, Some(Unit::Seconds), "dh".into());
            let h = rec.register_histogram(&key, &META);
            h.record(2.5);
            h.record_many(1.0, 2);
            // the boundary counts of the batched entry point: nothing, and exactly one
            h.record_many(7.0, 0);
            h.record_many(8.0, 1);
        }
    }
    log.lock().unwrap().clone()
}
/// What one recorder `id` must see when the (already transformed) `name` reaches it.
fn expect(id: usize, name: &str, kind: usize) -> Vec<String> {
    let k = format!("{}{{l=v}}", name);
    let m = "tgt/Level(3)/Some(\"modp\")";
    let m = if false { m.to_string() } else { metastr(&META) };
    match kind {
        0 => vec![format!("{}|describe_counter|{}|Some(\"bytes\")|dc", id, name), format!("{}|register_counter|{}|{}", id, k, m), format!("{}|inc|{}|3", id, name), format!("{}|abs|{}|9", id, name)],
        1 => vec![format!("{}|describe_gauge|{}|None|dg", id, name), format!("{}|register_gauge|{}|{}", id, k, m), format!("{}|ginc|{}|1.5", id, name), format!("{}|gdec|{}|0.5", id, name), format!("{}|gset|{}|4", id, name)],
        _ => vec![format!("{}|describe_histogram|{}|Some(\"seconds\")|dh", id, name), format!("{}|register_histogram|{}|{}", id, k, m), format!("{}|rec|{}|2.5", id, name), format!("{}|rec|{}|1", id, name), format!("{}|rec|{}|1", id, name), format!("{}|rec|{}|8", id, name)],
    }
}

fn names() -> Vec<String> {
    let mut n = vseq::strings(&["a", "b", ".", "A"], 4);
    // names that share a byte-prefix / nibble-prefix with the route patterns without being covered by the longer ones
    n.extend(["é".to_string(), "aé".to_string(), "p.a".to_string(), "c".to_string(), "ac".to_string(), "abd".to_string(), "bb".to_string(), "abcd".to_string(), "q".to_string(), "`".to_string(), "a`".to_string()]);
    n
}

fn prefix_part(res: &mut PartResult, states: &mut vseq::States) {
    // the prefix is used as written: one that ends in the separator, is the separator, or contains blanks is no exception
    for prefix in ["", "p", "a.b", "é", "p.", ".", "p..", " p ", ".p"] {
        let log: Log = Default::default();
        let rec = PrefixLayer::new(prefix).layer(LogRec { id: 0, log: log.clone() });
        for name in names() {
            for kind in 0..3 {
                res.executions += 1;
                res.transitions += 1;
                let got = drive(&rec, &log, &name, kind);
                let want = expect(0, &format!("{}.{}", prefix, name), kind);
                states.add(&got);
                if got != want {
                    res.violation("prefix-layer-wrong-name-or-content", format!("prefix {:?} name {:?} {}: inner saw {:?}, expected {:?}", prefix, name, KINDS[kind], got, want), json!({"part": "prefix", "prefix": prefix, "name": name, "kind": kind}));
                }
            }
        }
    }
}

fn contains_ci(name: &str, pat: &str, ci: bool) -> bool {
    if ci {
        name.to_ascii_lowercase().contains(&pat.to_ascii_lowercase())
    } else {
        name.contains(pat)
    }
}

fn filter_part(res: &mut PartResult, states: &mut vseq::States) {
    let pats = ["", "a", "ab", "B", "é"];
    // pattern lists: none, one, and every ORDERED pair (incl. a pattern twice); each list is handed over in three ways:
    // all at once (from_patterns), one by one (add_pattern on an empty layer), the first at once and the rest added
    let mut sets: Vec<(Vec<&str>, u8)> = vec![(vec![], 0), (vec![], 1)];
    for i in 0..pats.len() {
        for how in 0..2u8 {
            sets.push((vec![pats[i]], how));
        }
        for j in 0..pats.len() {
            for how in 0..3u8 {
                sets.push((vec![pats[i], pats[j]], how));
            }
        }
    }
    for (set, how) in &sets {
        for ci in [false, true] {
            for dfa in [false, true] {
                let log: Log = Default::default();
                let mut fl = match how {
                    0 => FilterLayer::from_patterns(set.iter()),
                    1 => {
                        let mut f = FilterLayer::default();
                        for p in set {
                            f.add_pattern(*p);
                        }
                        f
                    }
                    _ => {
                        let mut f = FilterLayer::from_patterns(set[..1].iter());
                        for p in &set[1..] {
                            f.add_pattern(*p);
                        }
                        f
                    }
                };
                fl.case_insensitive(ci).use_dfa(dfa);
                let rec = match vseq::catch(|| fl.layer(LogRec { id: 0, log: log.clone() })) {
                    Ok(r) => r,
                    Err(e) => {
                        res.violation("filter-layer-panic", format!("building a filter for {:?} (handed over {}) ci={} dfa={} panicked: {}", set, ["at once", "one by one", "first at once, rest added"][*how as usize], ci, dfa, e), json!({"part": "filter"}));
                        continue;
                    }
                };
                // the same layer object used again after its options were changed (a layer is a reusable factory:
                // `layer(&self)`): the second filter follows the new options, the first one keeps the old ones
                let log2: Log = Default::default();
                fl.case_insensitive(!ci).use_dfa(!dfa);
                let rec2 = match vseq::catch(|| fl.layer(LogRec { id: 0, log: log2.clone() })) {
                    Ok(r) => r,
                    Err(e) => {
                        res.violation("filter-layer-panic", format!("building a second filter from the layer for {:?} panicked: {}", set, e), json!({"part": "filter"}));
                        continue;
                    }
                };
                for name in names() {
                    for kind in 0..3 {
                        res.executions += 1;
                        res.transitions += 1;
                        let got2 = drive(&rec2, &log2, &name, kind);
                        let filtered2 = set.iter().any(|p| contains_ci(&name, p, !ci));
                        let want2 = if filtered2 { vec![] } else { expect(0, &name, kind) };
                        if got2 != want2 {
                            res.violation(if filtered2 { "filter-layer-let-matching-name-through" } else { "filter-layer-dropped-or-changed-non-matching-name" }, format!("patterns {:?}: second filter made from the same layer after case_insensitive({}) (first one was made with {}): name {:?} {}: inner saw {:?}, expected {:?}", set, !ci, ci, name, KINDS[kind], got2, want2), json!({"part": "filter", "name": name}));
                        }
                        let got = drive(&rec, &log, &name, kind);
                        let filtered = set.iter().any(|p| contains_ci(&name, p, ci));
                        let want = if filtered { vec![] } else { expect(0, &name, kind) };
                        states.add(&(filtered, got.len()));
                        if got != want {
                            res.violation(if filtered { "filter-layer-let-matching-name-through" } else { "filter-layer-dropped-or-changed-non-matching-name" }, format!("patterns {:?} (handed over {}) ci={} dfa={} name {:?} {}: inner saw {:?}, expected {:?}", set, ["at once", "one by one", "first at once, rest added"][*how as usize], ci, dfa, name, KINDS[kind], got, want), json!({"part": "filter", "name": name}));
                        }
                    }
                }
            }
        }
    }
}

fn router_part(ctx: &Ctx, res: &mut PartResult, states: &mut vseq::States, max_routes: usize, first: Option<usize>) {
    let pats = ["", "a", "ab", "abc", "b", "ba"];
    let masks = [(MetricKindMask::COUNTER, 0b001u8), (MetricKindMask::GAUGE, 0b010), (MetricKindMask::HISTOGRAM, 0b100), (MetricKindMask::ALL, 0b111)];
    let choices: Vec<(usize, usize)> = (0..pats.len()).flat_map(|p| (0..masks.len()).map(move |m| (p, m))).collect();
    // thorough tier: one part per first route (part 0 also takes the empty table)
    let (mut tables, mut layer, rounds): (Vec<Vec<(usize, usize)>>, Vec<Vec<(usize, usize)>>, usize) = match first {
        None => (vec![vec![]], vec![vec![]], max_routes),
        Some(f) => (if f == 0 { vec![vec![], vec![choices[f]]] } else { vec![vec![choices[f]]] }, vec![vec![choices[f]]], max_routes - 1),
    };
    for _ in 0..rounds {
        let mut next = Vec::new();
        for t in &layer {
            for c in &choices {
                let mut n = t.clone();
                n.push(*c);
                next.push(n);
            }
        }
        tables.extend(next.iter().cloned());
        layer = next;
    }
    let short_names: Vec<String> = names().into_iter().filter(|n| n.chars().count() <= 3 || n.starts_with("ab")).collect();
    // (radix_trie branches on nibbles: "c", "q", "`" share the high nibble of "a"/"b" and leave the trie below a value-less branch node)
    for (ti, table) in tables.iter().enumerate() {
        if ti % 64 == 0 && ctx.over_budget() {
            res.cap_hit = Some("budget (cpu time of the part)".into());
            res.exhaustive = false;
            break;
        }
        let log: Log = Default::default();
        let built = vseq::catch(|| {
            let mut b = RouterBuilder::from_recorder(LogRec { id: 0, log: log.clone() });
            for (ri, (p, m)) in table.iter().enumerate() {
                b.add_route(masks[*m].0, pats[*p], LogRec { id: ri + 1, log: log.clone() });
            }
            b.build()
        });
        let rec = match built {
            Ok(r) => r,
            Err(e) => {
                res.violation("router-panic", format!("building route table {:?} panicked: {}", table.iter().map(|(p, m)| (pats[*p], masks[*m].1)).collect::<Vec<_>>(), e), json!({"part": "router", "table": ti}));
                continue;
            }
        };
        for name in &short_names {
            for kind in 0..3 {
                res.executions += 1;
                res.transitions += 1;
                let got = match vseq::catch(|| drive(&rec, &log, name, kind)) {
                    Ok(g) => g,
                    Err(e) => {
                        res.violation("router-panic", format!("routing {:?} panicked: {}", name, e), json!({"part": "router", "table": ti, "name": name}));
                        continue;
                    }
                };
                // reference: longest pattern that is a prefix of the name among routes for this kind; duplicates: either owner
                let kbit = 1u8 << kind;
                let best = table.iter().filter(|(p, m)| masks[*m].1 & kbit != 0 && name.starts_with(pats[*p])).map(|(p, _)| pats[*p].len()).max();
                let owners: Vec<usize> = match best {
                    None => vec![0],
                    Some(l) => table.iter().enumerate().filter(|(_, (p, m))| masks[*m].1 & kbit != 0 && name.starts_with(pats[*p]) && pats[*p].len() == l).map(|(ri, _)| ri + 1).collect(),
                };
                states.add(&(owners.clone(), kind));
                if !owners.iter().any(|o| got == expect(*o, name, kind)) {
                    res.violation("router-wrong-target", format!("routes {:?} name {:?} {}: recorders saw {:?}; expected exactly recorder {:?} (0 = default) to see the unchanged operations", table.iter().map(|(p, m)| (pats[*p], masks[*m].1)).collect::<Vec<_>>(), name, KINDS[kind], got, owners), json!({"part": "router", "table": ti, "name": name, "kind": kind}));
                }
            }
        }
    }
    res.bound = json!({"route_tables": tables.len(), "names": short_names.len()});
}

fn fanout_part(res: &mut PartResult, states: &mut vseq::States) {
    for width in 0..=3usize {
        let log: Log = Default::default();
        let mut b = FanoutBuilder::default();
        for i in 0..width {
            b = b.add_recorder(LogRec { id: i, log: log.clone() });
        }
        let rec = b.build();
        for name in names().into_iter().take(90) {
            for kind in 0..3 {
                res.executions += 1;
                res.transitions += 1;
                let mut got = drive(&rec, &log, &name, kind);
                let mut want: Vec<String> = (0..width).flat_map(|i| expect(i, &name, kind)).collect();
                // every inner recorder must see every operation exactly once, in operation order per recorder
                for i in 0..width {
                    let mine: Vec<&String> = got.iter().filter(|l| l.starts_with(&format!("{}|", i))).collect();
                    let w = expect(i, &name, kind);
                    if mine.len() != w.len() || mine.iter().zip(w.iter()).any(|(a, b)| *a != b) {
                        res.violation("fanout-recorder-missed-or-repeated-operation", format!("width {} name {:?} {}: recorder {} saw {:?}, expected {:?}", width, name, KINDS[kind], i, mine, w), json!({"part": "fanout", "width": width, "name": name}));
                    }
                }
                got.sort();
                want.sort();
                states.add(&(width, got.len()));
                if got != want {
                    res.violation("fanout-recorder-missed-or-repeated-operation", format!("width {} name {:?} {}: saw {:?}, expected {:?}", width, name, KINDS[kind], got, want), json!({"part": "fanout", "width": width, "name": name}));
                }
            }
        }
    }
}

#[derive(Clone, Copy, Debug)]
enum L {
    P,  // prefix "p"
    Q,  // prefix "q.r"
    Fa, // filter ["a"]
    Fp, // filter ["p."] (only matches what an inner... outer prefix produced)
}
fn stack_part(res: &mut PartResult, states: &mut vseq::States) {
    let ls = [L::P, L::Q, L::Fa, L::Fp];
    let mut stacks: Vec<Vec<L>> = Vec::new();
    for a in ls {
        stacks.push(vec![a]);
        for b in ls {
            stacks.push(vec![a, b]);
            for c in ls {
                stacks.push(vec![a, b, c]);
            }
        }
    }
    let short: Vec<String> = names().into_iter().filter(|n| n.chars().count() <= 3).collect();
    for st in &stacks {
        let log: Log = Default::default();
        // layers are pushed in order; each push wraps the existing stack
        let mut rec: Box<dyn Recorder + Sync> = Box::new(LogRec { id: 0, log: log.clone() });
        for l in st {
            rec = match l {
                L::P => Box::new(Stack::new(rec).push(PrefixLayer::new("p"))),
                L::Q => Box::new(Stack::new(rec).push(PrefixLayer::new("q.r"))),
                L::Fa => Box::new(Stack::new(rec).push(FilterLayer::from_patterns(["a"]))),
                L::Fp => Box::new(Stack::new(rec).push(FilterLayer::from_patterns(["p."]))),
            };
        }
        for name in &short {
            for kind in 0..3 {
                res.executions += 1;
                res.transitions += st.len() as u64;
                let got = drive(rec.as_ref(), &log, name, kind);
                // reference: the operation enters the layer pushed last and travels towards the one pushed first
                let mut cur: Option<String> = Some(name.clone());
                for l in st.iter().rev() {
                    cur = match (l, cur) {
                        (_, None) => None,
                        (L::P, Some(n)) => Some(format!("p.{}", n)),
                        (L::Q, Some(n)) => Some(format!("q.r.{}", n)),
                        (L::Fa, Some(n)) => if n.contains('a') { None } else { Some(n) },
                        (L::Fp, Some(n)) => if n.contains("p.") { None } else { Some(n) },
                    };
                }
                let want = match &cur {
                    Some(n) => expect(0, n, kind),
                    None => vec![],
                };
                states.add(&(format!("{:?}", st), cur.is_some()));
                if got != want {
                    res.violation("stack-is-not-composition-in-push-order", format!("layers pushed {:?}, name {:?} {}: inner saw {:?}, expected {:?}", st, name, KINDS[kind], got, want), json!({"part": "stack", "stack": format!("{:?}", st), "name": name}));
                }
            }
        }
    }
}

fn parts(ctx: &Ctx) -> Vec<PartSpec> {
    let b = if ctx.quick() { 150.0 } else { 2400.0 };
    let mut v = vec![PartSpec::new("prefix", json!({"p": "prefix"})), PartSpec::new("filter", json!({"p": "filter"})), PartSpec::new("fanout", json!({"p": "fanout"})), PartSpec::new("stack", json!({"p": "stack"}))];
    if ctx.quick() {
        v.push(PartSpec::new("router", json!({"p": "router", "n": 3})).budget(b));
    } else {
        // route tables of up to 5 routes (24^5 + ... tables), one part per first route
        for f in 0..24 {
            v.push(PartSpec::new(&format!("router-5routes-first{}", f), json!({"p": "router", "n": 5, "first": f})).budget(b));
        }
    }
    v
}

fn run(ctx: &Ctx, spec: &PartSpec) -> PartResult {
    let mut res = PartResult::new(&spec.name, "E3 exhaustive names x layer configurations over logging doubles");
    vseq::quiet_panics();
    let mut states = vseq::States::new();
    match spec.arg["p"].as_str().unwrap_or("") {
        "prefix" => prefix_part(&mut res, &mut states),
        "filter" => filter_part(&mut res, &mut states),
        "router" => router_part(ctx, &mut res, &mut states, spec.arg["n"].as_u64().unwrap_or(2) as usize, spec.arg["first"].as_u64().map(|x| x as usize)),
        "fanout" => fanout_part(&mut res, &mut states),
        _ => stack_part(&mut res, &mut states),
    }
    res.states = states.len();
    res.distinct_outcomes = states.len();
    res.sample(json!({"part": spec.name, "name": "ab.A", "ops": "describe + register + every handle operation, per kind"}));
    res
}

fn main() {
    driver::main(CheckDef {
        prop: "C13",
        level: "model_checking",
        rule: "names = all strings of length <= 4 over {a,b,.,A} plus {\"\", é, aé, p.a}; for each name and kind the describe, register and every handle operation is driven through: the prefix layer (9 prefixes incl. ones ending in / consisting of the separator), the filter layer (all ordered pattern lists of <= 2 over {\"\",a,ab,B,é}, handed over at once, one by one through add_pattern, or mixed, x case-insensitive x DFA, each layer object used a second time after its options were flipped), the router (all ordered route tables of <= 3 (thorough 5) routes over 6 patterns x 4 kind masks, incl. duplicates and overlaps), the fanout (width 0-3) and all stacks of <= 3 layers from {Prefix p, Prefix q.r, Filter a, Filter p.} in every order; logging doubles record exactly what reached which recorder, compared with a reference written from the docs; distinct = distinct (owner / filtered / log shape) outcomes",
        assumptions: &["ASCII case folding for case-insensitive filters (as aho-corasick documents)", "with duplicated routes either owner is accepted, but exactly one"],
        parts,
        run,
    });
}
