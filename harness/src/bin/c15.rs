//! C15 — histogram buckets and summary windows mean what Prometheus says they mean (E3).
use metrics::{Key, Level, Metadata, Recorder};
use metrics_exporter_prometheus::{Distribution, Matcher, PrometheusBuilder};
use metrics_util::storage::Histogram;
use metrics_util::Quantile;
use quanta::Clock;
use std::num::NonZeroU32;
use std::sync::Arc;
use std::time::Duration;
use vcore::driver::{self, CheckDef, Ctx, PartResult, PartSpec};
use vcore::json;
use vcore::promtext;
use vcore::vseq;

static META: Metadata<'static> = Metadata::new("t", Level::INFO, None);

fn subsets_ascending(vals: &[f64], max: usize) -> Vec<Vec<f64>> {
    let n = vals.len();
    let mut out = Vec::new();
    for mask in 1u32..(1 << n) {
        if mask.count_ones() as usize <= max {
            out.push((0..n).filter(|i| mask & (1 << i) != 0).map(|i| vals[i]).collect());
        }
    }
    out
}
fn compositions(n: usize) -> Vec<Vec<usize>> {
    // all ways to cut a sequence of n samples into consecutive non-empty batches
    if n == 0 {
        return vec![vec![]];
    }
    let mut out = Vec::new();
    for mask in 0u32..(1 << (n - 1)) {
        let mut parts = Vec::new();
        let mut cur = 1;
        for i in 0..n - 1 {
            if mask & (1 << i) != 0 {
                parts.push(cur);
                cur = 1;
            } else {
                cur += 1;
            }
        }
        parts.push(cur);
        out.push(parts);
    }
    out
}

const SAMPLES: [f64; 10] = [-2.0, -1.0, 0.0, 0.5, 1.0, 2.5, 3.0, f64::NAN, f64::INFINITY, f64::NEG_INFINITY];
const BOUNDS: [f64; 5] = [-1.0, 0.0, 1.0, 2.5, f64::INFINITY];

fn hist_direct(ctx: &Ctx, res: &mut PartResult, maxlen: usize) {
    res.engine = "E3 exhaustive bound lists x sample sequences x batchings on the real storage Histogram".into();
    let mut states = vseq::States::new();
    let mut bound_lists = subsets_ascending(&BOUNDS, 3);
    // beyond the small lists: repeated bounds (ascending, not strictly), a long list (12 bounds: whatever search a
    // histogram uses has to get past a handful of elements), a list of infinities only
    bound_lists.push(vec![1.0, 1.0, 2.5]);
    bound_lists.push(vec![-2.0, -1.0, -0.5, 0.0, 0.25, 0.5, 1.0, 2.0, 2.5, 3.0, 100.0, f64::INFINITY]);
    bound_lists.push(vec![f64::NEG_INFINITY, f64::INFINITY]);
    let comps: Vec<Vec<Vec<usize>>> = (0..=maxlen).map(compositions).collect();
    let replay = ctx.replay.clone();
    for (bi, bounds) in bound_lists.iter().enumerate() {
        for len in 0..=maxlen {
            let mut idx = vec![0usize; len];
            loop {
                if ctx.over_budget() {
                    res.cap_hit = Some("budget (cpu time of the part)".into());
                    res.exhaustive = false;
                    break;
                }
                let samples: Vec<f64> = idx.iter().map(|i| SAMPLES[*i]).collect();
                let skip = replay.as_ref().map(|r| r["bounds"] != json!(bi) || r["samples"] != json!(idx)).unwrap_or(false);
                if !skip {
                    let want: Vec<u64> = bounds.iter().map(|b| samples.iter().filter(|s| **s <= *b).count() as u64).collect();
                    let mut first: Option<(Vec<(u64, u64)>, u64)> = None;
                    for comp in &comps[len] {
                        res.executions += 1;
                        let mut h = Histogram::new(bounds).unwrap();
                        let mut pos = 0;
                        let mut prev: Vec<u64> = vec![0; bounds.len()];
                        for part in comp {
                            res.transitions += 1;
                            if *part == 1 {
                                h.record(samples[pos]);
                            } else {
                                h.record_many(&samples[pos..pos + part]);
                            }
                            pos += part;
                            // counts never decrease over time and never decrease from one bound to the next
                            let now: Vec<u64> = h.buckets().iter().map(|b| b.1).collect();
                            if now.iter().zip(prev.iter()).any(|(a, b)| a < b) {
                                res.violation("bucket-count-decreased-over-time", format!("bounds {:?} samples {:?} batching {:?}: {:?} -> {:?}", bounds, samples, comp, prev, now), json!({"bounds": bi, "samples": idx}));
                            }
                            if now.windows(2).any(|w| w[0] > w[1]) || now.last().map(|l| *l > h.count()).unwrap_or(false) {
                                res.violation("bucket-counts-not-cumulative", format!("bounds {:?} samples {:?} batching {:?}: buckets {:?} total {}", bounds, samples, comp, now, h.count()), json!({"bounds": bi, "samples": idx}));
                            }
                            prev = now;
                        }
                        let got: Vec<u64> = h.buckets().iter().map(|b| b.1).collect();
                        if got != want || h.count() != samples.len() as u64 {
                            res.violation("bucket-count-is-not-number-of-samples-le-bound", format!("bounds {:?} samples {:?} batching {:?}: buckets {:?} (count {}), expected {:?} (count {})", bounds, samples, comp, got, h.count(), want, samples.len()), json!({"bounds": bi, "samples": idx}));
                        }
                        let want_sum: f64 = samples.iter().sum();
                        if !(h.sum() == want_sum || (h.sum().is_nan() && want_sum.is_nan())) {
                            res.violation("histogram-sum-is-not-sum-of-samples", format!("bounds {:?} samples {:?} batching {:?}: sum {} expected {}", bounds, samples, comp, h.sum(), want_sum), json!({"bounds": bi, "samples": idx}));
                        }
                        let shape = (got.iter().map(|x| (*x, 0)).collect::<Vec<_>>(), h.count());
                        match &first {
                            None => first = Some(shape),
                            Some(f) if *f != shape => res.violation("batching-changes-result", format!("bounds {:?} samples {:?}: batching {:?} gives {:?}, singly gives {:?}", bounds, samples, comp, shape, f), json!({"bounds": bi, "samples": idx})),
                            _ => {}
                        }
                    }
                    states.add(&(bi, want));
                }
                // next sample sequence
                let mut p = len;
                loop {
                    if p == 0 {
                        break;
                    }
                    p -= 1;
                    idx[p] += 1;
                    if idx[p] < SAMPLES.len() {
                        break;
                    }
                    idx[p] = 0;
                    if p == 0 {
                        p = usize::MAX;
                        break;
                    }
                }
                if len == 0 || p == usize::MAX || idx.iter().all(|x| *x == 0) {
                    break;
                }
            }
        }
    }
    res.states = states.len();
    res.distinct_outcomes = states.len();
    res.bound = json!({"bound_lists": bound_lists.len(), "max_samples": maxlen, "sample_alphabet": SAMPLES.len()});
    res.sample(json!({"bounds": [0.0, 2.5], "samples": [0.5, 2.5, "NaN", 3.0], "batching": [1, 2, 1]}));
}

/// through the exporter: batches are separated by render() calls (each render drains what was recorded)
fn hist_render(ctx: &Ctx, res: &mut PartResult, maxlen: usize) {
    res.engine = "E3 bound lists x sample sequences x render points through the real Prometheus exporter".into();
    let mut states = vseq::States::new();
    let vals = [-2.0, 0.0, 0.5, 2.5, 3.0, f64::INFINITY];
    for bounds in subsets_ascending(&[-1.0, 0.0, 1.0, 2.5], 3) {
        for len in 1..=maxlen {
            let mut run = |seq: &[usize]| -> Option<usize> {
                let samples: Vec<f64> = seq.iter().map(|i| vals[*i]).collect();
                for comp in compositions(len) {
                    res.executions += 1;
                    let rec = PrometheusBuilder::new().set_buckets(&bounds).unwrap().build_recorder();
                    let h = rec.register_histogram(&Key::from_name("h"), &META);
                    let mut pos = 0;
                    let mut prev: Option<Vec<u64>> = None;
                    for part in &comp {
                        for s in &samples[pos..pos + part] {
                            h.record(*s);
                        }
                        pos += part;
                        res.transitions += 1;
                        let text = rec.handle().render();
                        let fams = match promtext::parse(&text) {
                            Ok(f) => f,
                            Err(e) => {
                                res.violation("malformed-exposition", format!("{} in {:?}", e, text), json!({}));
                                return Some(0);
                            }
                        };
                        let f = &fams[0];
                        let so_far = &samples[..pos];
                        let mut got: Vec<(f64, u64)> = f.samples.iter().filter(|s| s.name == "h_bucket").map(|s| (promtext::parse_value(s.label("le").unwrap()).unwrap(), s.value.parse::<u64>().unwrap_or(u64::MAX))).collect();
                        got.sort_by(|a, b| a.0.partial_cmp(&b.0).unwrap());
                        let mut want: Vec<(f64, u64)> = bounds.iter().map(|b| (*b, so_far.iter().filter(|s| **s <= *b).count() as u64)).collect();
                        want.push((f64::INFINITY, so_far.len() as u64));
                        let cnt: u64 = f.samples.iter().find(|s| s.name == "h_count").and_then(|s| s.value.parse().ok()).unwrap_or(u64::MAX);
                        if got != want || cnt != so_far.len() as u64 {
                            res.violation("bucket-count-is-not-number-of-samples-le-bound", format!("bounds {:?}, samples so far {:?} (render points {:?}): rendered buckets {:?} count {}, expected {:?}", bounds, so_far, comp, got, cnt, want), json!({}));
                            return Some(0);
                        }
                        let counts: Vec<u64> = got.iter().map(|g| g.1).collect();
                        if let Some(p) = &prev {
                            if counts.iter().zip(p.iter()).any(|(a, b)| a < b) {
                                res.violation("bucket-count-decreased-over-time", format!("{:?} -> {:?}", p, counts), json!({}));
                            }
                        }
                        states.add(&counts);
                        prev = Some(counts);
                    }
                }
                None
            };
            let (_, complete) = vseq::for_each_seq(vals.len(), len, &mut run, &|| ctx.over_budget());
            if !complete {
                res.cap_hit = Some("budget (cpu time of the part)".into());
                res.exhaustive = false;
            }
        }
    }
    res.states = states.len();
    res.distinct_outcomes = states.len();
    res.bound = json!({"max_samples": maxlen, "bound_lists": 14});
    res.sample(json!({"bounds": [0.0, 2.5], "samples": [0.5, 3.0], "render_after": [1, 2]}));
}

// ------------------------------------------------------------------ matchers
fn san(s: &str, initial: bool) -> String {
    s.chars().enumerate().map(|(i, c)| if (c.is_ascii_alphabetic() || c == '_' || c == ':') || (c.is_ascii_digit() && !(i == 0 && initial)) { c } else { '_' }).collect()
}

fn matchers_part(ctx: &Ctx, res: &mut PartResult, max_set: usize) {
    res.engine = "E3 all override sets x names through the real builder + render".into();
    let pats = ["a", "ab", "b", "a.b", "1a", "é"];
    let mut all: Vec<(Matcher, usize, u8)> = Vec::new(); // matcher, id, class rank (0 full, 1 prefix, 2 suffix)
    for p in pats {
        all.push((Matcher::Full(p.into()), all.len(), 0));
        all.push((Matcher::Prefix(p.into()), all.len(), 1));
        all.push((Matcher::Suffix(p.into()), all.len(), 2));
    }
    let mut names: Vec<String> = vseq::strings(&["a", "b", ".", "1"], 3).into_iter().filter(|s| !s.is_empty()).collect();
    // names with a non-ASCII character at the start, the end and inside
    names.extend(["é", "aé", "éa", "bé", "aéb", "a.é"].iter().map(|s| s.to_string()));
    let mut sets: Vec<Vec<usize>> = vec![vec![]];
    for a in 0..all.len() {
        sets.push(vec![a]);
        for b in a + 1..all.len() {
            if max_set >= 2 {
                sets.push(vec![a, b]);
            }
            for c in b + 1..all.len() {
                if max_set >= 3 {
                    sets.push(vec![a, b, c]);
                }
            }
        }
    }
    let mut states = vseq::States::new();
    for set in &sets {
        for global in [false, true] {
            if ctx.over_budget() {
                res.cap_hit = Some("budget (cpu time of the part)".into());
                res.exhaustive = false;
                break;
            }
            for (name, unit_suffix) in names.iter().flat_map(|n| [(n, false), (n, true)]) {
                if let Some(rp) = &ctx.replay {
                    if rp["set"] != json!(set) || rp["global"] != json!(global) || rp["name"] != json!(name) || rp["unit_suffix"].as_bool().unwrap_or(false) != unit_suffix {
                        continue;
                    }
                }
                res.executions += 1;
                res.transitions += 1;
                // with unit suffixes on and a unit given the family is exposed as <name>_seconds; which buckets apply
                // (and hence histogram vs summary) is still decided by the name the user wrote
                let mut b = PrometheusBuilder::new().set_enable_unit_suffix(unit_suffix);
                for mi in set {
                    // the bucket list identifies the matcher: le = 1000 + id
                    b = b.set_buckets_for_metric(all[*mi].0.clone(), &[1000.0 + all[*mi].1 as f64]).unwrap();
                }
                if global {
                    b = b.set_buckets(&[999.0]).unwrap();
                }
                let rec = b.build_recorder();
                if unit_suffix {
                    rec.describe_histogram(name.clone().into(), Some(metrics::Unit::Seconds), "d".into());
                }
                rec.register_histogram(&Key::from_name(name.clone()), &META).record(1.0);
                let text = rec.handle().render();
                let fams = match promtext::parse(&text) {
                    Ok(f) => f,
                    Err(e) => {
                        res.violation("malformed-exposition", format!("{} in {:?}", e, text), json!({"set": set, "global": global, "name": name, "unit_suffix": unit_suffix}));
                        continue;
                    }
                };
                let f = &fams[0];
                let got: Option<f64> = if f.ty == "histogram" { f.samples.iter().filter(|s| s.name.ends_with("_bucket")).filter_map(|s| promtext::parse_value(s.label("le").unwrap())).find(|v| v.is_finite()) } else { None };
                // reference on the names as the user wrote them; where raw and sanitised matching disagree for another
                // reason than the position-dependent treatment of digits, the case is left unjudged
                let sname = san(name, true);
                let mut must: Vec<(u8, f64)> = Vec::new();
                let mut may: Vec<(u8, f64)> = Vec::new();
                for mi in set {
                    let (m, id, rank) = &all[*mi];
                    let raw = m.matches(name);
                    let loose = match m {
                        Matcher::Full(p) => san(p, true) == sname,
                        Matcher::Prefix(p) => sname.starts_with(&san(p, true)),
                        Matcher::Suffix(p) => sname.ends_with(&san(p, false)) || sname == san(p, true),
                    };
                    if raw {
                        must.push((*rank, 1000.0 + *id as f64));
                    } else if loose {
                        may.push((*rank, 1000.0 + *id as f64));
                    }
                }
                states.add(&(f.ty.clone(), got.map(|g| g as u64)));
                let describe = || format!("overrides {:?}{}{} name {:?}: rendered as {} with bucket {:?}", set.iter().map(|i| format!("{:?}", all[*i].0)).collect::<Vec<_>>(), if global { " + global buckets" } else { "" }, if unit_suffix { " + unit suffix (seconds)" } else { "" }, name, f.ty, got);
                let replay = json!({"set": set, "global": global, "name": name, "unit_suffix": unit_suffix});
                if !may.is_empty() {
                    continue; // unjudged (sanitisation makes a raw non-match a match)
                }
                if must.is_empty() {
                    let want = if global { Some(999.0) } else { None };
                    if got != want {
                        let sig = if got.is_some() && want.is_none() { "histogram-although-no-buckets-apply" } else { "summary-although-buckets-apply" };
                        res.violation(sig, format!("{} ;; expected {:?}", describe(), want), replay);
                    }
                } else {
                    let best = must.iter().map(|m| m.0).min().unwrap();
                    let allowed: Vec<f64> = must.iter().filter(|m| m.0 == best).map(|m| m.1).collect();
                    match got {
                        None => {
                            let digit_suffix = set.iter().any(|i| matches!(&all[*i].0, Matcher::Suffix(p) if p.starts_with(|c: char| c.is_ascii_digit())));
                            res.violation(if digit_suffix && !global { "suffix-matcher-with-leading-digit-never-applies" } else { "summary-although-buckets-apply" }, format!("{} ;; a matching override exists: {:?}", describe(), allowed), replay)
                        }
                        Some(g) if !allowed.contains(&g) => {
                            let digit_suffix = set.iter().any(|i| matches!(&all[*i].0, Matcher::Suffix(p) if p.starts_with(|c: char| c.is_ascii_digit()))) && best == 2;
                            res.violation(if digit_suffix { "suffix-matcher-with-leading-digit-never-applies" } else { "wrong-bucket-override-chosen" }, format!("{} ;; expected the buckets of one of {:?} (full > prefix > suffix > global)", describe(), allowed), replay)
                        }
                        _ => {}
                    }
                }
            }
        }
    }
    res.states = states.len();
    res.distinct_outcomes = states.len();
    res.bound = json!({"override_sets": sets.len(), "names": names.len(), "max_set_size": max_set});
    res.sample(json!({"overrides": ["Prefix(a)", "Suffix(b)"], "global": true, "name": "a.b"}));
}

// ------------------------------------------------------------------ rolling summary
fn summary_part(ctx: &Ctx, res: &mut PartResult, maxlen: usize) {
    res.engine = "E3 all non-decreasing sample timelines x snapshot times on the real RollingSummary under a mock clock".into();
    let mut states = vseq::States::new();
    let values = [-2.5, 0.0, 1.0, 3.5, 1e6, 7.25, -100.0];
    let alpha = 0.0001f64;
    // bucket durations in milliseconds, whole and fractional numbers of seconds
    for (count, d) in [(3u32, 20_000u64), (1, 10_000), (2, 7_000), (2, 1_500), (4, 250), (3, 2_500)] {
        let w = count as u64 * d;
        // incl. gaps whose length is k + 1/2 (and more) bucket durations, and snapshot times just inside / outside 2W
        let mut times: Vec<u64> = vec![0, 1, d / 2, d - 1, d, d + 1, d + d / 2 + 1, w - d, w - 1, w, w + 1, w + d - 1, 2 * w - 1, 2 * w];
        times.sort();
        times.dedup();
        for base in [0u64, 10 * w] {
            for len in 0..=maxlen {
                // non-decreasing index sequences
                let mut idx = vec![0usize; len];
                'seqs: loop {
                    if ctx.over_budget() {
                        res.cap_hit = Some("budget (cpu time of the part)".into());
                        res.exhaustive = false;
                        break;
                    }
                    for snap_i in idx.last().cloned().unwrap_or(0)..times.len() {
                        res.executions += 1;
                        let (clock, mock) = Clock::mock();
                        let mut dist = Distribution::new_summary(Arc::new(vec![Quantile::new(0.0), Quantile::new(0.5), Quantile::new(1.0)]), Duration::from_millis(d), NonZeroU32::new(count).unwrap());
                        let mut cur = 0u64;
                        let mut samples: Vec<(u64, f64)> = Vec::new();
                        for (p, ti) in idx.iter().enumerate() {
                            let t = base + times[*ti];
                            mock.increment(Duration::from_millis(t - cur));
                            cur = t;
                            dist.record_samples(&[(values[p], clock.now())]);
                            samples.push((t, values[p]));
                            res.transitions += 1;
                        }
                        let now = base + times[snap_i];
                        mock.increment(Duration::from_millis(now - cur));
                        let (snap, total, sum) = match &dist {
                            Distribution::Summary(rs, _, sum) => (rs.snapshot(clock.now()), rs.count(), *sum),
                            _ => unreachable!(),
                        };
                        let replay = json!({"count": count, "d": d, "base": base, "idx": idx, "snap": snap_i});
                        let describe = || format!("buckets {}x{}ms (window {}ms), samples (t ms,value) {:?}, snapshot at t={}ms", count, d, w, samples, now);
                        if total != samples.len() || sum != samples.iter().map(|s| s.1).sum::<f64>() {
                            res.violation("summary-sum-or-count-does-not-cover-all-samples", format!("{}: count {} sum {}", describe(), total, sum), replay.clone());
                        }
                        let recent: Vec<f64> = samples.iter().filter(|s| s.0 + w > now).map(|s| s.1).collect();
                        let recent2: Vec<f64> = samples.iter().filter(|s| s.0 + (w - d) > now).map(|s| s.1).collect();
                        let qs: Vec<Option<f64>> = [0.0, 0.5, 1.0].iter().map(|q| snap.quantile(*q)).collect();
                        states.add(&format!("{:?}", qs));
                        if snap.is_empty() {
                            if !recent2.is_empty() {
                                res.violation("summary-window-empty-although-recent-samples-exist", format!("{}: snapshot is empty although samples newer than now-(W-d) exist: {:?}", describe(), recent2), replay.clone());
                            }
                            if qs.iter().any(|q| q.is_some()) {
                                res.violation("summary-quantile-outside-window-range", format!("{}: empty snapshot reports quantiles {:?}", describe(), qs), replay.clone());
                            }
                        } else {
                            if recent.is_empty() {
                                res.violation("summary-reflects-samples-older-than-window", format!("{}: snapshot holds {} samples although none is newer than now-W", describe(), snap.count()), replay.clone());
                            } else {
                                let lo = recent.iter().cloned().fold(f64::INFINITY, f64::min);
                                let hi = recent.iter().cloned().fold(f64::NEG_INFINITY, f64::max);
                                for q in qs.iter().flatten() {
                                    let tol = |x: f64| x.abs() * alpha * 2.0 + 1e-9;
                                    if *q < lo - tol(lo) || *q > hi + tol(hi) {
                                        res.violation("summary-quantile-outside-window-range", format!("{}: quantile value {} outside [{}, {}] of the samples within the window", describe(), q, lo, hi), replay.clone());
                                    }
                                }
                            }
                        }
                    }
                    // next non-decreasing sequence
                    let mut p = len;
                    loop {
                        if p == 0 {
                            break 'seqs;
                        }
                        p -= 1;
                        if idx[p] + 1 < times.len() {
                            idx[p] += 1;
                            for k in p + 1..len {
                                idx[k] = idx[p];
                            }
                            break;
                        }
                    }
                    if len == 0 {
                        break;
                    }
                }
            }
        }
    }
    res.states = states.len();
    res.distinct_outcomes = states.len();
    res.bound = json!({"max_samples": maxlen, "bucket_configs": "3x20s, 1x10s, 2x7s, 2x1.5s, 4x250ms, 3x2.5s; times in ms", "bases": [0, "10W"]});
    res.sample(json!({"buckets": "3x20s", "samples_t_ms": [0, 19000, 41000], "snapshot_t_ms": 61000}));
}

/// The configured quantiles are values like any other configuration value: lists containing NaN, the infinities, values
/// below 0 and above 1 (documented as clamped to [0, 1]) next to ordinary ones. Whatever the list, every quantile line of
/// the rendered summary is labelled with a number in [0, 1] and carries a value between the smallest and the largest
/// sample of the window (up to the sketch's error); _sum and _count cover all samples.
fn quantile_lists(res: &mut PartResult) {
    res.engine = "E3 quantile configurations x sample sets through PrometheusBuilder::set_quantiles + render()".into();
    let mut states = vseq::States::new();
    let lists: Vec<Vec<f64>> = vec![
        vec![0.0, 0.5, 1.0],
        vec![0.5, f64::NAN],
        vec![f64::NAN],
        vec![-1.0, 2.0],
        vec![f64::INFINITY, f64::NEG_INFINITY, 0.25],
        vec![0.999, 0.9999, 1e-9],
        vec![-0.0, 1.0],
    ];
    let sample_sets: Vec<Vec<f64>> = vec![vec![40.0, 41.0, 42.0, 43.0, 44.0], vec![7.5], vec![-3.0, 1000.0]];
    let alpha = 0.0001f64;
    for list in &lists {
        for samples in &sample_sets {
            res.executions += 1;
            res.transitions += samples.len() as u64 + 1;
            let cfg = json!({"quantiles": format!("{:?}", list), "samples": samples});
            let b = match PrometheusBuilder::new().set_quantiles(list) {
                Ok(b) => b,
                Err(e) => {
                    // a list the builder refuses is not a configuration; only the empty list is documented as refused
                    res.violation("summary-quantiles-not-as-configured", format!("set_quantiles({:?}) refused: {}", list, e), cfg);
                    continue;
                }
            };
            let rec = b.build_recorder();
            let h = rec.register_histogram(&Key::from_name("s"), &META);
            for v in samples {
                h.record(*v);
            }
            let text = rec.handle().render();
            let fams = match promtext::parse(&text) {
                Ok(f) => f,
                Err(e) => {
                    res.violation("malformed-exposition", format!("quantiles {:?}: {} in {:?}", list, e, text), cfg);
                    continue;
                }
            };
            let f = match fams.iter().find(|f| f.name == "s") {
                Some(f) => f,
                None => {
                    res.violation("summary-sum-or-count-does-not-cover-all-samples", format!("quantiles {:?}: family missing in {:?}", list, text), cfg);
                    continue;
                }
            };
            let lo = samples.iter().cloned().fold(f64::INFINITY, f64::min);
            let hi = samples.iter().cloned().fold(f64::NEG_INFINITY, f64::max);
            let tol = |x: f64| x.abs() * alpha * 2.0 + 1e-9;
            let mut n_lines = 0;
            for x in f.samples.iter().filter(|x| x.name == "s") {
                n_lines += 1;
                let q = x.label("quantile").and_then(promtext::parse_value);
                let v = x.value_f64();
                match q {
                    Some(q) if (0.0..=1.0).contains(&q) => {
                        if !(v >= lo - tol(lo) && v <= hi + tol(hi)) {
                            res.violation("summary-quantile-outside-window-range", format!("quantiles configured {:?}, samples {:?}: the line for quantile {} carries {}, outside [{}, {}]", list, samples, q, v, lo, hi), cfg.clone());
                        }
                    }
                    other => res.violation("summary-quantiles-not-as-configured", format!("quantiles configured {:?} (documented as clamped to [0, 1]): a rendered line is labelled quantile={:?} ({:?}) with value {}", list, x.label("quantile"), other, v), cfg.clone()),
                }
            }
            let cnt: u64 = f.samples.iter().find(|x| x.name == "s_count").and_then(|x| x.value.parse().ok()).unwrap_or(u64::MAX);
            if cnt != samples.len() as u64 || n_lines == 0 {
                res.violation("summary-sum-or-count-does-not-cover-all-samples", format!("quantiles {:?}, samples {:?}: count {} with {} quantile lines", list, samples, cnt, n_lines), cfg.clone());
            }
            states.add(&(format!("{:?}", list), n_lines));
        }
    }
    res.states = states.len();
    res.distinct_outcomes = states.len();
    res.sample(json!({"quantiles": "[0.5, NaN]", "samples": [40, 41, 42, 43, 44], "expected": "every line labelled within [0, 1], value within [40, 44]"}));
}

/// The same window semantics through the builder: `set_bucket_duration` x `set_bucket_count` (both, either one alone, neither) x `set_quantiles`
/// -> `build_recorder` -> real handles -> `render()`, with quanta's clock overridden by a mock for the thread.
fn summary_render(ctx: &Ctx, res: &mut PartResult, maxlen: usize) {
    res.engine = "E3 sample timelines x render times through PrometheusBuilder (bucket duration/count) + render() under a mock quanta clock".into();
    let mut states = vseq::States::new();
    let values = [-2.5, 1.0, 3.5, 1e6, 0.5, -7.0];
    let alpha = 0.0001f64;
    // None = builder defaults, documented as 3 buckets of 20 s
    // (count, duration ms, which of the two options the builder is given: 3 = both, 1 = the count only (duration stays at
    // its documented default of 20 s), 2 = the duration only (count stays at 3), 0 = neither)
    for (count, d, given) in [(3u32, 20_000u64, 3u8), (1, 10_000, 3), (2, 7_000, 3), (2, 1_500, 3), (4, 250, 3), (3, 20_000, 0), (1, 20_000, 1), (5, 20_000, 1), (3, 7_000, 2)] {
        let cfgd = Some((count, d, given));
        let w = count as u64 * d;
        let mut times: Vec<u64> = vec![0, d - 1, d, d + d / 2 + 1, w - 1, w, w + 1, 2 * w - 1, 2 * w];
        times.sort();
        times.dedup();
        for len in 0..=maxlen {
            let mut idx = vec![0usize; len];
            'seqs: loop {
                if ctx.over_budget() {
                    res.cap_hit = Some("budget (cpu time of the part)".into());
                    res.exhaustive = false;
                    break;
                }
                for snap_i in idx.last().cloned().unwrap_or(0)..times.len() {
                    res.executions += 1;
                    let (clock, mock) = Clock::mock();
                    let mut b = PrometheusBuilder::new().set_quantiles(&[0.0, 0.5, 1.0]).unwrap();
                    if given & 2 != 0 {
                        b = b.set_bucket_duration(Duration::from_millis(d)).unwrap();
                    }
                    if given & 1 != 0 {
                        b = b.set_bucket_count(NonZeroU32::new(count).unwrap());
                    }
                    let rec = b.build_recorder();
                    let mut samples: Vec<(u64, f64)> = Vec::new();
                    let text = quanta::with_clock(&clock, || {
                        let h = rec.register_histogram(&Key::from_name("s"), &META);
                        let mut cur = 0u64;
                        for (p, ti) in idx.iter().enumerate() {
                            let t = times[*ti];
                            mock.increment(Duration::from_millis(t - cur));
                            cur = t;
                            h.record(values[p]);
                            samples.push((t, values[p]));
                            res.transitions += 1;
                        }
                        let now = times[snap_i];
                        mock.increment(Duration::from_millis(now - cur));
                        rec.handle().render()
                    });
                    let now = times[snap_i];
                    let replay = json!({"cfg": format!("{:?}", cfgd), "idx": idx, "snap": snap_i});
                    let describe = || format!("builder buckets {:?} ms (window {}ms), samples (t ms,value) {:?}, render at t={}ms", cfgd, w, samples, now);
                    let fams = match promtext::parse(&text) {
                        Ok(f) => f,
                        Err(e) => {
                            res.violation("malformed-exposition", format!("{} in {:?}", e, text), replay.clone());
                            continue;
                        }
                    };
                    let f = match fams.iter().find(|f| f.name == "s") {
                        Some(f) => f,
                        None => {
                            res.violation("summary-sum-or-count-does-not-cover-all-samples", format!("{}: family missing", describe()), replay.clone());
                            continue;
                        }
                    };
                    if f.ty != "summary" {
                        res.violation("histogram-or-summary-chosen-wrongly", format!("{}: family type {}", describe(), f.ty), replay.clone());
                        continue;
                    }
                    let cnt: u64 = f.samples.iter().find(|x| x.name == "s_count").and_then(|x| x.value.parse().ok()).unwrap_or(u64::MAX);
                    let sum: f64 = f.samples.iter().find(|x| x.name == "s_sum").map(|x| x.value_f64()).unwrap_or(f64::NAN);
                    if cnt != samples.len() as u64 || sum != samples.iter().map(|x| x.1).sum::<f64>() {
                        res.violation("summary-sum-or-count-does-not-cover-all-samples", format!("{}: count {} sum {}", describe(), cnt, sum), replay.clone());
                    }
                    let mut qs: Vec<(f64, f64)> = f.samples.iter().filter(|x| x.name == "s").filter_map(|x| Some((promtext::parse_value(x.label("quantile")?)?, x.value_f64()))).collect();
                    qs.sort_by(|a, b| a.0.partial_cmp(&b.0).unwrap());
                    states.add(&format!("{:?}", qs));
                    if qs.iter().map(|q| q.0).collect::<Vec<_>>() != vec![0.0, 0.5, 1.0] {
                        res.violation("summary-quantiles-not-as-configured", format!("{}: quantile lines {:?}", describe(), qs), replay.clone());
                        continue;
                    }
                    let recent: Vec<f64> = samples.iter().filter(|x| x.0 + w > now).map(|x| x.1).collect();
                    let recent2: Vec<f64> = samples.iter().filter(|x| x.0 + (w - d) > now).map(|x| x.1).collect();
                    let all_zero = qs.iter().all(|q| q.1 == 0.0);
                    if recent.is_empty() {
                        if !all_zero {
                            res.violation("summary-reflects-samples-older-than-window", format!("{}: quantiles {:?} although no sample is newer than now-W", describe(), qs), replay.clone());
                        }
                    } else {
                        let lo = recent.iter().cloned().fold(f64::INFINITY, f64::min);
                        let hi = recent.iter().cloned().fold(f64::NEG_INFINITY, f64::max);
                        let tol = |x: f64| x.abs() * alpha * 2.0 + 1e-9;
                        let inside = qs.iter().all(|q| q.1 >= lo - tol(lo) && q.1 <= hi + tol(hi));
                        // samples in the oldest, partially expired slot may or may not still be held: then an empty window (all 0) is fine too
                        if !(inside || (all_zero && recent2.is_empty())) {
                            res.violation("summary-quantile-outside-window-range", format!("{}: quantiles {:?} outside [{}, {}] of the samples within the window", describe(), qs, lo, hi), replay.clone());
                        }
                    }
                }
                let mut p = len;
                loop {
                    if p == 0 {
                        break 'seqs;
                    }
                    p -= 1;
                    if idx[p] + 1 < times.len() {
                        idx[p] += 1;
                        for k in p + 1..len {
                            idx[k] = idx[p];
                        }
                        break;
                    }
                }
                if len == 0 {
                    break;
                }
            }
        }
    }
    res.states = states.len();
    res.distinct_outcomes = states.len();
    res.bound = json!({"max_samples": maxlen, "builder_configs": "3x20s, 1x10s, 2x7s, 2x1.5s, 4x250ms (both options given), defaults (3x20s), count only (1, 5), duration only (7s); times in ms"});
    res.sample(json!({"builder": "set_bucket_duration(7s).set_bucket_count(2)", "samples_t_ms": [0, 6000], "render_t_ms": 15000, "expected": "quantiles 0 (window empty), _count 2"}));
}

fn parts(ctx: &Ctx) -> Vec<PartSpec> {
    let q = ctx.quick();
    let b = if q { 150.0 } else { 2400.0 };
    vec![
        PartSpec::new("histogram-direct", json!({"p": "hd", "n": if q { 4 } else { 6 }})).budget(b),
        PartSpec::new("histogram-render", json!({"p": "hr", "n": if q { 3 } else { 5 }})).budget(b),
        PartSpec::new("matchers", json!({"p": "m", "n": if q { 2 } else { 3 }})).budget(b),
        PartSpec::new("rolling-summary", json!({"p": "s", "n": if q { 4 } else { 6 }})).budget(b),
        PartSpec::new("summary-render", json!({"p": "sr", "n": if q { 3 } else { 5 }})).budget(b),
        PartSpec::new("summary-quantile-lists", json!({"p": "ql"})).budget(b),
    ]
}

fn run(ctx: &Ctx, spec: &PartSpec) -> PartResult {
    let mut res = PartResult::new(&spec.name, "");
    vseq::quiet_panics();
    let n = spec.arg["n"].as_u64().unwrap_or(3) as usize;
    let r = vseq::catch(|| match spec.arg["p"].as_str().unwrap_or("") {
        "hd" => hist_direct(ctx, &mut res, n),
        "hr" => hist_render(ctx, &mut res, n),
        "m" => matchers_part(ctx, &mut res, n),
        "sr" => summary_render(ctx, &mut res, n),
        "ql" => quantile_lists(&mut res),
        _ => summary_part(ctx, &mut res, n),
    });
    if let Err(e) = r {
        res.violation("panic", format!("part panicked: {}", e), json!({}));
    }
    res
}

fn main() {
    driver::main(CheckDef {
        prop: "C15",
        level: "model_checking",
        rule: "histogram: all ascending bound lists of <= 3 bounds over {-1,0,1,2.5,+inf} (+ a list with a repeated bound, a 12-bound list, {-inf,+inf}) x all sample sequences up to the stated length over {-2,-1,0,0.5,1,2.5,3,NaN,+inf,-inf} x all batchings into record()/record_many() calls on the real storage Histogram, and through render() with renders between batches; matchers: all override sets up to the stated size over {Full,Prefix,Suffix} x {a,ab,b,a.b,1a,é} with/without global buckets x all names of length <= 3 over {a,b,.,1} plus 6 names containing é (distinct bucket lists identify the winning matcher); rolling summary: all non-decreasing sample timelines up to the stated length over {0,1,d-1,d,d+1,W-d,W-1,W,W+1,2W} x all later snapshot times (millisecond resolution), 6 bucket configurations (3x20s, 1x10s, 2x7s and the fractional 2x1.5s, 4x250ms, 3x2.5s), 2 time bases, under quanta's mock clock; distinct = distinct bucket vectors / (type, winner) / quantile triples; quantile configurations: 7 lists incl. NaN, the infinities, values below 0 and above 1 x 3 sample sets through set_quantiles + render(): every quantile line labelled within [0, 1] and valued within [min, max] of the samples",
        assumptions: &["matcher reference is on the names as the user writes them; cases where only sanitisation makes a matcher apply are left unjudged", "rolling summary oracle is exactly the property: quantiles within [min,max](1±alpha) of samples newer than now-W; empty allowed only when no sample is newer than now-(W-d)"],
        parts,
        run,
    });
}
