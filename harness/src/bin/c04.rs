//! C04 — counter, gauge and histogram handles apply every update exactly once (E2 loom + E1 + E3).
use metrics::{Counter, CounterFn, Gauge, GaugeFn, Histogram, HistogramFn, Key};
use metrics_util::registry::{AtomicStorage, Registry};
use std::sync::atomic::Ordering;
use std::sync::{Arc, Mutex};
use std::time::Duration;
use vcore::driver::{self, CheckDef, Ctx, PartResult, PartSpec};
use vcore::json;
use vcore::vseq::{self, fbits};
use vcore::vsched::{self, body, fail, Body, Cfg, Scenario, Verdict};

// ------------------------------------------------------------------ E1: real handles over the real registry
#[derive(Clone, Copy, Debug)]
enum Op {
    CInc(u64),
    CAbs(u64),
    GInc(f64),
    GDec(f64),
    GSet(f64),
    HRec(f64),
    HMany(f64, usize),
}

struct S {
    reg: Registry<Key, AtomicStorage>,
    c: Counter,
    g: Gauge,
    h: Histogram,
    seen: Mutex<Vec<(u64, u64)>>, // observer loads of the counter
}

fn key() -> Key {
    Key::from_parts("m", vec![metrics::Label::new("a", "b")])
}

fn apply(s: &S, op: Op, via_registry: bool) {
    // `via_registry`: obtain a fresh handle through get_or_create (another clone path) instead of the shared clone
    match op {
        Op::CInc(v) => {
            if via_registry {
                Counter::from_arc(s.reg.get_or_create_counter(&key(), |c| c.clone())).increment(v)
            } else {
                s.c.clone().increment(v)
            }
        }
        Op::CAbs(v) => s.c.absolute(v),
        Op::GInc(v) => {
            if via_registry {
                Gauge::from_arc(s.reg.get_or_create_gauge(&key(), |c| c.clone())).increment(v)
            } else {
                s.g.increment(v)
            }
        }
        Op::GDec(v) => s.g.clone().decrement(v),
        Op::GSet(v) => s.g.set(v),
        Op::HRec(v) => {
            if via_registry {
                Histogram::from_arc(s.reg.get_or_create_histogram(&key(), |c| c.clone())).record(v)
            } else {
                s.h.record(v)
            }
        }
        Op::HMany(v, n) => s.h.clone().record_many(v, n),
    }
}

fn handle_scenario(name: &str, threads: Vec<Vec<Op>>, observer: bool) -> Scenario<S> {
    let mut bodies: Vec<Body<S>> = Vec::new();
    for (ti, ops) in threads.iter().enumerate() {
        let ops = ops.clone();
        bodies.push(body(move |s: &S| {
            for (i, op) in ops.iter().enumerate() {
                apply(s, *op, ti == 1 && i == 0);
            }
        }));
    }
    if observer {
        bodies.push(body(|s: &S| {
            let c = s.reg.get_or_create_counter(&key(), |c| c.clone());
            let a = c.load(Ordering::Acquire);
            let b = c.load(Ordering::Acquire);
            s.seen.lock().unwrap().push((a, b));
        }));
    }
    let th = threads.clone();
    Scenario {
        name: name.into(),
        setup: Box::new(|| {
            let reg = Registry::new(AtomicStorage);
            let c = Counter::from_arc(reg.get_or_create_counter(&key(), |c| c.clone()));
            let g = Gauge::from_arc(reg.get_or_create_gauge(&key(), |c| c.clone()));
            let h = Histogram::from_arc(reg.get_or_create_histogram(&key(), |c| c.clone()));
            S { reg, c, g, h, seen: Mutex::new(vec![]) }
        }),
        bodies,
        check: Box::new(move |s, _| {
            let mut ids = Vec::new();
            let mut ops = Vec::new();
            for t in &th {
                let mut v = Vec::new();
                for o in t {
                    v.push(ops.len());
                    ops.push(*o);
                }
                ids.push(v);
            }
            let mut c_allowed = std::collections::BTreeSet::new();
            let mut g_allowed = std::collections::BTreeSet::new();
            for lin in vseq::merges(&ids) {
                let (mut c, mut g) = (0u64, 0f64);
                for i in lin {
                    match ops[i] {
                        Op::CInc(x) => c = c.wrapping_add(x),
                        Op::CAbs(x) => c = c.max(x),
                        Op::GInc(x) => g += x,
                        Op::GDec(x) => g -= x,
                        Op::GSet(x) => g = x,
                        _ => {}
                    }
                }
                c_allowed.insert(c);
                g_allowed.insert(fbits(g));
            }
            let cfin = s.reg.get_or_create_counter(&key(), |c| c.load(Ordering::Acquire));
            let gfin = fbits(f64::from_bits(s.reg.get_or_create_gauge(&key(), |c| c.load(Ordering::Acquire))));
            if !c_allowed.contains(&cfin) {
                return fail("counter-update-lost-or-misapplied", format!("counter ended at {} which no sequential order of {:?} produces (allowed {:?})", cfin, th, c_allowed));
            }
            if !g_allowed.contains(&gfin) {
                return fail("gauge-update-lost-or-misapplied", format!("gauge ended at {} which no sequential order of {:?} produces", f64::from_bits(gfin), th));
            }
            let wraps = ops.iter().any(|o| matches!(o, Op::CInc(x) if *x > 1 << 40));
            if !wraps {
                for (a, b) in s.seen.lock().unwrap().iter() {
                    if !(a <= b && *b <= cfin) {
                        return fail("counter-decreased", format!("observer saw {} then {} then final {}", a, b, cfin));
                    }
                }
                if let Some(m) = ops.iter().filter_map(|o| if let Op::CAbs(x) = o { Some(*x) } else { None }).max() {
                    if cfin < m {
                        return fail("counter-below-absolute", format!("counter ended at {} below the largest absolute value {}", cfin, m));
                    }
                }
            }
            // histogram multiset
            let mut want: Vec<u64> = Vec::new();
            for o in &ops {
                match o {
                    Op::HRec(v) => want.push(fbits(*v)),
                    Op::HMany(v, n) => (0..*n).for_each(|_| want.push(fbits(*v))),
                    _ => {}
                }
            }
            want.sort();
            let mut got: Vec<u64> = s.reg.get_or_create_histogram(&key(), |h| h.data()).into_iter().map(fbits).collect();
            got.sort();
            if got != want {
                return fail("histogram-sample-lost-or-duplicated", format!("histogram holds {:?}, expected {:?}", got.iter().map(|b| f64::from_bits(*b)).collect::<Vec<_>>(), want.iter().map(|b| f64::from_bits(*b)).collect::<Vec<_>>()));
            }
            Verdict::Ok(format!("c={} g={} h={} seen={:?}", cfin, f64::from_bits(gfin), got.len(), s.seen.lock().unwrap()))
        }),
        termination_promised: true,
    }
}

// ------------------------------------------------------------------ E3: every method x value alphabet
#[derive(Default)]
struct LogFn(Mutex<Vec<String>>);
impl CounterFn for LogFn {
    fn increment(&self, v: u64) {
        self.0.lock().unwrap().push(format!("inc({})", v));
    }
    fn absolute(&self, v: u64) {
        self.0.lock().unwrap().push(format!("abs({})", v));
    }
}
impl GaugeFn for LogFn {
    fn increment(&self, v: f64) {
        self.0.lock().unwrap().push(format!("ginc({:x})", fbits(v)));
    }
    fn decrement(&self, v: f64) {
        self.0.lock().unwrap().push(format!("gdec({:x})", fbits(v)));
    }
    fn set(&self, v: f64) {
        self.0.lock().unwrap().push(format!("gset({:x})", fbits(v)));
    }
}
impl HistogramFn for LogFn {
    fn record(&self, v: f64) {
        self.0.lock().unwrap().push(format!("rec({:x})", fbits(v)));
    }
}

fn e3_values(res: &mut PartResult) {
    res.engine = "E3 exhaustive method x value enumeration".into();
    let mut states = vseq::States::new();
    let u64s = [0u64, 1, 5, u64::MAX - 1, u64::MAX];
    let f64s = [0.0f64, -0.0, 1.5, -2.25, f64::NAN, f64::INFINITY, f64::NEG_INFINITY, f64::MAX, f64::MIN_POSITIVE];
    let counts = [0usize, 1, 3, 17];
    let mut check = |what: String, got: Vec<String>, want: Vec<String>, res: &mut PartResult| {
        res.executions += 1;
        res.transitions += 1;
        states.add(&(what.clone(), got.clone()));
        if got != want {
            res.violation("handle-call-log-mismatch", format!("{}: double saw {:?}, expected {:?}", what, got, want), json!({"case": what}));
        }
    };
    // logging doubles: exact call log, through clones
    for v in u64s {
        for (m, name) in [(0, "inc"), (1, "abs")] {
            let l = Arc::new(LogFn::default());
            let c = Counter::from_arc(l.clone());
            let r = vseq::catch(|| if m == 0 { c.clone().increment(v) } else { c.clone().absolute(v) });
            let got = l.0.lock().unwrap().clone();
            if r.is_err() {
                res.violation("handle-panic", format!("counter {}({}) panicked", name, v), json!({"op": name, "v": v}));
            }
            check(format!("counter.{}({})", name, v), got, vec![format!("{}({})", name, v)], res);
            // no-op handle: no effect, no panic
            let n = Counter::noop();
            if vseq::catch(|| if m == 0 { n.increment(v) } else { n.absolute(v) }).is_err() {
                res.violation("handle-panic", format!("noop counter {}({}) panicked", name, v), json!({"op": name, "v": v}));
            }
        }
    }
    for v in f64s {
        for (m, name) in [(0, "ginc"), (1, "gdec"), (2, "gset")] {
            let l = Arc::new(LogFn::default());
            let g = Gauge::from_arc(l.clone());
            let r = vseq::catch(|| match m {
                0 => g.clone().increment(v),
                1 => g.clone().decrement(v),
                _ => g.clone().set(v),
            });
            if r.is_err() {
                res.violation("handle-panic", format!("gauge {}({}) panicked", name, v), json!({"op": name}));
            }
            let got = l.0.lock().unwrap().clone();
            check(format!("gauge.{}({:?})", name, v), got, vec![format!("{}({:x})", name, fbits(v))], res);
            let n = Gauge::noop();
            let _ = vseq::catch(|| {
                n.increment(v);
                n.decrement(v);
                n.set(v)
            }).map_err(|_| res.violation("handle-panic", "noop gauge panicked".into(), json!({})));
        }
        for n in counts {
            let l = Arc::new(LogFn::default());
            let h = Histogram::from_arc(l.clone());
            if vseq::catch(|| h.clone().record_many(v, n)).is_err() {
                res.violation("handle-panic", format!("record_many({}, {}) panicked", v, n), json!({}));
            }
            let got = l.0.lock().unwrap().clone();
            check(format!("histogram.record_many({:?},{})", v, n), got, vec![format!("rec({:x})", fbits(v)); n], res);
            let hn = Histogram::noop();
            if vseq::catch(|| {
                hn.record(v);
                hn.record_many(v, n)
            }).is_err() {
                res.violation("handle-panic", "noop histogram panicked".into(), json!({}));
            }
        }
        let l = Arc::new(LogFn::default());
        Histogram::from_arc(l.clone()).record(v);
        let got = l.0.lock().unwrap().clone();
        check(format!("histogram.record({:?})", v), got, vec![format!("rec({:x})", fbits(v))], res);
    }
    // documented conversions (IntoF64): integers and f32 convert exactly, Duration as seconds
    macro_rules! conv {
        ($t:ty, $($v:expr),*) => { $( {
            let l = Arc::new(LogFn::default());
            let g = Gauge::from_arc(l.clone());
            let h = Histogram::from_arc(l.clone());
            let v: $t = $v;
            g.set(v); g.increment(v); g.decrement(v); h.record(v); h.record_many(v, 2);
            let e = fbits(v as f64);
            let got = l.0.lock().unwrap().clone();
            check(format!("{}::{:?}", stringify!($t), v), got, vec![format!("gset({:x})", e), format!("ginc({:x})", e), format!("gdec({:x})", e), format!("rec({:x})", e), format!("rec({:x})", e), format!("rec({:x})", e)], res);
        } )* };
    }
    conv!(i8, i8::MIN, -1, 0, i8::MAX);
    conv!(u8, 0, 1, u8::MAX);
    conv!(i16, i16::MIN, 0, i16::MAX);
    conv!(u16, 0, u16::MAX);
    conv!(i32, i32::MIN, -1, 0, i32::MAX);
    conv!(u32, 0, 7, u32::MAX);
    conv!(f32, 0.0, -0.0, 1.5, f32::MAX, f32::MIN_POSITIVE, f32::INFINITY, f32::NEG_INFINITY);
    conv!(f64, 0.1, f64::MAX);
    for d in [Duration::ZERO, Duration::from_nanos(1), Duration::from_millis(1500), Duration::new(u64::MAX, 999_999_999), Duration::from_secs(1 << 40)] {
        let l = Arc::new(LogFn::default());
        let g = Gauge::from_arc(l.clone());
        let h = Histogram::from_arc(l.clone());
        g.set(d);
        h.record(d);
        h.record_many(d, 1);
        let e = fbits(d.as_secs() as f64 + d.subsec_nanos() as f64 / 1e9);
        let got = l.0.lock().unwrap().clone();
        check(format!("Duration::{:?}", d), got, vec![format!("gset({:x})", e), format!("rec({:x})", e), format!("rec({:x})", e)], res);
    }
    {
        let l = Arc::new(LogFn::default());
        Gauge::from_arc(l.clone()).set(f32::NAN);
        let got = l.0.lock().unwrap().clone();
        check("f32::NaN".into(), got, vec![format!("gset({:x})", fbits(f64::NAN))], res);
    }
    // GaugeValue::update_value (what recorders use to apply a gauge operation to the value current at that instant)
    for input in f64s {
        for v in f64s {
            for (gv, want, name) in [(metrics::GaugeValue::Absolute(v), v, "Absolute"), (metrics::GaugeValue::Increment(v), input + v, "Increment"), (metrics::GaugeValue::Decrement(v), input - v, "Decrement")] {
                let got = gv.update_value(input);
                check(format!("GaugeValue::{}({:?}).update_value({:?})", name, v, input), vec![format!("{:x}", fbits(got))], vec![format!("{:x}", fbits(want))], res);
            }
        }
    }
    // handles built through From<Arc<T>>, and the Arc<T> forwarding impls of the *Fn traits
    {
        let l = Arc::new(LogFn::default());
        let c: Counter = l.clone().into();
        let g: Gauge = l.clone().into();
        let h: Histogram = l.clone().into();
        c.increment(2);
        c.absolute(9);
        g.increment(1.5);
        g.decrement(0.5);
        g.set(-3.0);
        h.record(4.0);
        CounterFn::increment(&l, 7);
        CounterFn::absolute(&l, 8);
        GaugeFn::increment(&l, 2.5);
        GaugeFn::decrement(&l, 3.5);
        GaugeFn::set(&l, 4.5);
        HistogramFn::record(&l, 5.5);
        HistogramFn::record_many(&l, 6.5, 2);
        let got = l.0.lock().unwrap().clone();
        let f = |n: &str, v: f64| format!("{}({:x})", n, fbits(v));
        check("From<Arc<T>> handles + Arc<T> forwarding".into(), got, vec!["inc(2)".into(), "abs(9)".into(), f("ginc", 1.5), f("gdec", 0.5), f("gset", -3.0), f("rec", 4.0), "inc(7)".into(), "abs(8)".into(), f("ginc", 2.5), f("gdec", 3.5), f("gset", 4.5), f("rec", 5.5), f("rec", 6.5), f("rec", 6.5)], res);
    }
    // batch counts are usize: counts at and beyond 32 bits are delivered in full as well (a counting double whose
    // record() is one plain addition, so that the provided record_many loop of 2^32 + 5 rounds costs what a loop costs)
    {
        struct Cnt(std::cell::Cell<u64>, std::cell::Cell<u64>);
        impl HistogramFn for Cnt {
            fn record(&self, v: f64) {
                self.0.set(self.0.get() + 1);
                self.1.set(self.1.get() ^ v.to_bits());
            }
        }
        for n in [u32::MAX as usize, 1usize << 32, (1usize << 32) + 5] {
            let c = Cnt(Default::default(), Default::default());
            HistogramFn::record_many(&c, 2.5, std::hint::black_box(n));
            check(format!("provided HistogramFn::record_many(2.5, {})", n), vec![format!("{} calls", c.0.get())], vec![format!("{} calls", n)], res);
            let a = Arc::new(Cnt(Default::default(), Default::default()));
            HistogramFn::record_many(&a, 2.5, std::hint::black_box(n));
            check(format!("Arc<T>: HistogramFn::record_many(2.5, {})", n), vec![format!("{} calls", a.0.get())], vec![format!("{} calls", n)], res);
        }
    }
    res.states = states.len();
    res.distinct_outcomes = states.len();
    res.sample(json!({"case": "gauge.set(i32::MIN) -> gset(bits of -2147483648.0)"}));
}

/// all op sequences up to `depth` on real AtomicStorage handles vs sequential reference
fn e3_sequences(ctx: &Ctx, res: &mut PartResult, depth: usize) {
    res.engine = "E3 bounded exhaustive op sequences on the standard atomic storage".into();
    let f = [0.0f64, -0.0, 1.5, f64::NAN, f64::INFINITY, f64::NEG_INFINITY, f64::MAX];
    let u = [0u64, 1, 5, u64::MAX];
    let mut alpha: Vec<Op> = Vec::new();
    for v in u {
        alpha.push(Op::CInc(v));
        alpha.push(Op::CAbs(v));
    }
    for v in f {
        alpha.push(Op::GInc(v));
        alpha.push(Op::GDec(v));
        alpha.push(Op::GSet(v));
    }
    let mut states = vseq::States::new();
    let mut fails: Vec<(String, String, Vec<usize>)> = Vec::new();
    let mut transitions = 0u64;
    let replay_seq: Option<Vec<usize>> = ctx.replay.as_ref().and_then(|r| r["seq"].as_array().map(|a| a.iter().map(|x| x.as_u64().unwrap() as usize).collect()));
    let mut run_seq = |seq: &[usize]| -> Option<usize> {
        let reg: Registry<Key, AtomicStorage> = Registry::new(AtomicStorage);
        let c = Counter::from_arc(reg.get_or_create_counter(&key(), |c| c.clone()));
        let g = Gauge::from_arc(reg.get_or_create_gauge(&key(), |c| c.clone()));
        let (mut mc, mut mg) = (0u64, 0f64);
        let mut prev_c = 0u64;
        for (i, o) in seq.iter().enumerate() {
            transitions += 1;
            let op = alpha[*o];
            let r = vseq::catch(|| match op {
                Op::CInc(v) => c.increment(v),
                Op::CAbs(v) => c.clone().absolute(v),
                Op::GInc(v) => g.increment(v),
                Op::GDec(v) => g.clone().decrement(v),
                Op::GSet(v) => g.set(v),
                _ => {}
            });
            if let Err(e) = r {
                fails.push(("handle-panic".into(), format!("{:?} panicked: {}", op, e), seq[..=i].to_vec()));
                return Some(i);
            }
            match op {
                Op::CInc(v) => mc = mc.wrapping_add(v),
                Op::CAbs(v) => mc = mc.max(v),
                Op::GInc(v) => mg += v,
                Op::GDec(v) => mg -= v,
                Op::GSet(v) => mg = v,
                _ => {}
            }
            let rc = reg.get_or_create_counter(&key(), |c| c.load(Ordering::Acquire));
            let rg = f64::from_bits(reg.get_or_create_gauge(&key(), |c| c.load(Ordering::Acquire)));
            states.add(&(rc, fbits(rg)));
            if rc != mc {
                fails.push(("counter-update-lost-or-misapplied".into(), format!("after {:?} counter is {} expected {}", seq[..=i].iter().map(|x| alpha[*x]).collect::<Vec<_>>(), rc, mc), seq[..=i].to_vec()));
                return Some(i);
            }
            if matches!(op, Op::CAbs(_)) && rc < prev_c {
                fails.push(("counter-decreased".into(), format!("absolute made the counter go from {} to {}", prev_c, rc), seq[..=i].to_vec()));
                return Some(i);
            }
            prev_c = rc;
            let exact = matches!(op, Op::GSet(_));
            if fbits(rg) != fbits(mg) || (exact && !mg.is_nan() && rg.to_bits() != mg.to_bits()) {
                fails.push(("gauge-update-lost-or-misapplied".into(), format!("after {:?} gauge is {:?} expected {:?}", seq[..=i].iter().map(|x| alpha[*x]).collect::<Vec<_>>(), rg, mg), seq[..=i].to_vec()));
                return Some(i);
            }
        }
        None
    };
    if let Some(seq) = replay_seq {
        run_seq(&seq);
        res.executions = 1;
    } else {
        let (n, complete) = vseq::for_each_seq(alpha.len(), depth, &mut run_seq, &|| ctx.over_budget());
        res.executions = n;
        res.exhaustive = complete;
        if !complete {
            res.cap_hit = Some("budget (cpu time of the part)".into());
        }
    }
    res.transitions = transitions;
    res.states = states.len();
    res.distinct_outcomes = states.len();
    res.bound = json!({"depth": depth, "alphabet": alpha.len()});
    for (sig, msg, seq) in fails {
        res.violation(&sig, msg, json!({"seq": seq}));
    }
    res.sample(json!({"seq": format!("{:?}", [alpha[0], alpha[9], alpha[12]]), "depth": depth}));
}

fn parts(ctx: &Ctx) -> Vec<PartSpec> {
    let l = |s: &str, pb: Option<u64>| PartSpec::new(&format!("loom-{}-pb{}", s, pb.map(|p| p.to_string()).unwrap_or("inf".into())), json!({"loom": s, "pb": pb}));
    let e1 = |s: &str, pb: u64| PartSpec::new(&format!("e1-{}-pb{}", s, pb), json!({"e1": s, "pb": pb}));
    let mut v = vec![PartSpec::new("e3-values", json!({"e3": "values"}))];
    if ctx.quick() {
        v.push(PartSpec::new("e3-seq-d3", json!({"e3": "seq", "depth": 3})));
        v.extend([l("counter_inc", Some(3)), l("counter_mix", Some(2)), l("counter_mix3", Some(3)), l("counter_mix22", Some(3)), l("gauge", Some(3))]);
        v.extend([e1("counter", 2), e1("gauge", 2), e1("histogram", 2), e1("mixed", 2)]);
    } else {
        v.push(PartSpec::new("e3-seq-d4", json!({"e3": "seq", "depth": 4})).budget(1200.0));
        v.extend([l("counter_inc", None).budget(900.0), l("counter_mix", Some(3)).budget(900.0), l("counter_mix3", None).budget(900.0), l("counter_mix22", None).budget(900.0), l("gauge", Some(4)).budget(1500.0), l("gauge22", Some(3)).budget(1500.0)]);
        v.extend([e1("counter", 4).budget(1500.0), e1("gauge", 4).budget(1500.0), e1("histogram", 3).budget(1500.0), e1("mixed", 3).budget(1500.0)]);
    }
    v
}

fn run(ctx: &Ctx, spec: &PartSpec) -> PartResult {
    let mut res = PartResult::new(&spec.name, "");
    vseq::quiet_panics();
    if let Some(s) = spec.arg["loom"].as_str() {
        vcore::loompart::run_with_budget(s, spec.arg["pb"].as_u64(), ctx.budget_s, &mut res);
    } else if let Some(s) = spec.arg["e1"].as_str() {
        let pb = spec.arg["pb"].as_u64().unwrap_or(2) as usize;
        let scn = match s {
            "counter" => handle_scenario("counter: t0 inc(1),inc(MAX) | t1 abs(5),inc(3) | t2 abs(2)", vec![vec![Op::CInc(1), Op::CInc(u64::MAX)], vec![Op::CAbs(5), Op::CInc(3)], vec![Op::CAbs(2)]], false),
            "gauge" => handle_scenario("gauge: t0 inc(1.5),dec(0.5) | t1 inc(2.25),set(4) | t2 dec(0.5)", vec![vec![Op::GInc(1.5), Op::GDec(0.5)], vec![Op::GInc(2.25), Op::GSet(4.0)], vec![Op::GDec(0.5)]], false),
            "histogram" => handle_scenario("histogram: t0 rec(1),many(2,2) | t1 rec(3) | t2 many(4,3)", vec![vec![Op::HRec(1.0), Op::HMany(2.0, 2)], vec![Op::HRec(3.0)], vec![Op::HMany(4.0, 3)]], false),
            _ => handle_scenario("mixed+observer: t0 inc(1),abs(5) | t1 inc(3),ginc(1.5) | observer", vec![vec![Op::CInc(1), Op::CAbs(5)], vec![Op::CInc(3), Op::GInc(1.5)]], true),
        };
        vsched::explore(&scn, &Cfg { max_bound: pb, horizon: 20000 }, ctx, &mut res);
    } else if spec.arg["e3"].as_str() == Some("values") {
        e3_values(&mut res);
    } else {
        e3_sequences(ctx, &mut res, spec.arg["depth"].as_u64().unwrap_or(3) as usize);
    }
    res
}

fn main() {
    driver::main(CheckDef {
        prop: "C04",
        level: "model_checking",
        rule: "E2: loom explores every C11 execution of 2-3 threads x 1-2 ops (all assignments from the op alphabets) on the AtomicU64 CounterFn/GaugeFn impls compiled from /repo/metrics/src/atomics.rs, final value must be produced by some sequential order; E1: every SC interleaving (pb-bounded) of 3 threads using real Counter/Gauge/Histogram handle clones over Registry<Key, AtomicStorage>; E3: every method x value from the alphabets through logging doubles (exact call log, conversions, no panic) and every op sequence up to the stated depth vs a sequential reference; distinct = distinct outcome / (value) state; batch counts u32::MAX, 2^32 and 2^32+5 through the provided record_many (a counting double) directly and through Arc<T>",
        assumptions: &["loom's C11 model for E2; sequential consistency for E1", "value alphabets: u64 {0,1,5,MAX-1,MAX}, f64 {0,-0,1.5,-2.25,NaN,+-inf,MAX,MIN_POSITIVE}, counts {0,1,3,17}, all IntoF64 integer types at their extremes, Duration incl. MAX"],
        parts,
        run,
    });
}
