//! C01 — emissions reach exactly the recorder in scope, never one whose scope ended (E3).
use metrics::{Counter, Gauge, Histogram, Key, KeyName, Label, Level, LocalRecorderGuard, Metadata, Recorder, SharedString, Unit};
use std::sync::atomic::{AtomicBool, AtomicUsize, Ordering};
use std::sync::{Arc, Mutex};
use vcore::driver::{self, CheckDef, Ctx, PartResult, PartSpec};
use vcore::json;
use serde_json::Value;
use vcore::vseq;

type Log = Arc<Mutex<Vec<String>>>;

struct Dbl {
    id: usize,
    log: Log,
}
fn keystr(k: &Key) -> String {
    format!("{}{{{}}}", k.name(), k.labels().map(|l| format!("{}={}", l.key(), l.value())).collect::<Vec<_>>().join(","))
}
fn metastr(m: &Metadata<'_>) -> String {
    let l = *m.level();
    let ln = if l == Level::TRACE { "Level(0)" } else if l == Level::DEBUG { "Level(1)" } else if l == Level::INFO { "Level(2)" } else if l == Level::WARN { "Level(3)" } else { "Level(4)" };
    format!("{}/{}/{}", m.target(), ln, m.module_path().unwrap_or("-"))
}
impl Dbl {
    fn put(&self, s: String) {
        self.log.lock().unwrap().push(format!("{}|{}", self.id, s));
    }
}
impl Recorder for Dbl {
    fn describe_counter(&self, n: KeyName, u: Option<Unit>, d: SharedString) {
        self.put(format!("describe_counter|{}|{:?}|{}", n.as_str(), u.map(|u| u.as_str()), d));
    }
    fn describe_gauge(&self, n: KeyName, u: Option<Unit>, d: SharedString) {
        self.put(format!("describe_gauge|{}|{:?}|{}", n.as_str(), u.map(|u| u.as_str()), d));
    }
    fn describe_histogram(&self, n: KeyName, u: Option<Unit>, d: SharedString) {
        self.put(format!("describe_histogram|{}|{:?}|{}", n.as_str(), u.map(|u| u.as_str()), d));
    }
    fn register_counter(&self, k: &Key, m: &Metadata<'_>) -> Counter {
        self.put(format!("register_counter|{}|{}", keystr(k), metastr(m)));
        match k.name() {
            // a self-instrumenting recorder: emits through the macros from inside one of its own methods
            "probe_reenter" => metrics::counter!("probe_nested").increment(1),
            // a recorder method that panics (the caller catches it)
            "probe_panic" => panic!("recorder method panics"),
            _ => {}
        }
        Counter::noop()
    }
    fn register_gauge(&self, k: &Key, m: &Metadata<'_>) -> Gauge {
        self.put(format!("register_gauge|{}|{}", keystr(k), metastr(m)));
        Gauge::noop()
    }
    fn register_histogram(&self, k: &Key, m: &Metadata<'_>) -> Histogram {
        self.put(format!("register_histogram|{}|{}", keystr(k), metastr(m)));
        Histogram::noop()
    }
}

// ------------------------------------------------------------------ scope programs
#[derive(Clone, Copy, Debug, PartialEq)]
enum Step {
    Set(usize),    // g = set_default_local_recorder(&r)
    DropG(usize),  // drop the i-th guard created
    Forget(usize), // mem::forget the i-th guard created
    Enter(usize),  // with_local_recorder(&r, || {
    Exit,          // }) returning normally
    ExitPanic,     // }) by a panic unwinding through it (caught outside)
    /// (global-install part only) park here until the process-global recorder has been installed by the main thread
    InstallGlobal,
}

#[derive(Clone, Debug, PartialEq)]
enum GState {
    Live,
    Dropped,
    Forgotten,
}

/// Reference: per-thread stack of live scopes. Scope = (Some(guard index) | None for a closure, recorder).
#[derive(Clone, Default)]
struct Model {
    scopes: Vec<(Option<usize>, usize)>,
    guards: Vec<(usize, GState, usize)>, // (recorder, state, closure depth at creation)
    depth: usize,
    non_lifo: bool,
    forgot: bool,
    /// What the two recorded findings look like, precisely: a single per-thread slot; a guard / closure scope remembers
    /// the slot's previous content and writes it back when it ends (a forgotten guard never does). Only a deviation from
    /// the reference that this mechanism predicts is one of the known findings; any other deviation is reported.
    mech_slot: Option<usize>,
    mech_gprev: Vec<Option<usize>>,
    mech_cprev: Vec<Option<usize>>,
}
impl Model {
    fn enabled(&self, nrec: usize, max_nest: usize, max_guards: usize) -> Vec<Step> {
        let mut v = Vec::new();
        if self.guards.len() < max_guards {
            for r in 0..nrec {
                v.push(Step::Set(r));
            }
        }
        for (i, g) in self.guards.iter().enumerate() {
            if g.1 == GState::Live {
                v.push(Step::DropG(i));
                v.push(Step::Forget(i));
            }
        }
        if self.depth < max_nest {
            for r in 0..nrec {
                v.push(Step::Enter(r));
            }
        }
        if self.depth > 0 {
            v.push(Step::Exit);
            v.push(Step::ExitPanic);
        }
        v
    }
    fn apply(&mut self, s: Step) {
        match s {
            Step::Set(r) => {
                self.mech_gprev.push(self.mech_slot);
                self.mech_slot = Some(r);
                self.scopes.push((Some(self.guards.len()), r));
                self.guards.push((r, GState::Live, self.depth));
            }
            Step::DropG(i) => {
                self.mech_slot = self.mech_gprev[i];
                let pos = self.scopes.iter().position(|sc| sc.0 == Some(i)).unwrap();
                if pos != self.scopes.len() - 1 {
                    self.non_lifo = true;
                }
                self.scopes.remove(pos);
                self.guards[i].1 = GState::Dropped;
            }
            Step::Forget(i) => {
                // the borrow ends; what the thread-local still points at is no longer a legitimately installed recorder
                self.forgot = true;
                self.guards[i].1 = GState::Forgotten;
                let pos = self.scopes.iter().position(|sc| sc.0 == Some(i)).unwrap();
                self.scopes.remove(pos);
            }
            Step::Enter(r) => {
                self.mech_cprev.push(self.mech_slot);
                self.mech_slot = Some(r);
                self.depth += 1;
                self.scopes.push((None, r));
            }
            Step::InstallGlobal => {}
            Step::Exit | Step::ExitPanic => {
                if s == Step::ExitPanic {
                    // unwinding drops the guards created inside this closure (still live), innermost first
                    for i in (0..self.guards.len()).rev() {
                        if self.guards[i].1 == GState::Live && self.guards[i].2 == self.depth {
                            self.apply(Step::DropG(i));
                        }
                    }
                }
                // the closure scope is the innermost closure entry
                let pos = self.scopes.iter().rposition(|sc| sc.0.is_none()).unwrap();
                if pos != self.scopes.len() - 1 {
                    self.non_lifo = true; // a guard created inside was moved out and outlives the closure
                }
                self.scopes.remove(pos);
                self.mech_slot = self.mech_cprev.pop().unwrap();
                self.depth -= 1;
            }
        }
    }
    fn current(&self) -> Option<usize> {
        self.scopes.last().map(|s| s.1)
    }
    /// is some borrow of recorder r still alive?
    fn borrowed(&self, r: usize) -> bool {
        self.scopes.iter().any(|s| s.1 == r)
    }
}

struct Real {
    recs: Vec<&'static Dbl>,
    guards: Vec<Option<LocalRecorderGuard<'static>>>,
    /// handshake for `Step::InstallGlobal`: (tell the main thread we are parked, wait for its go, id of the global recorder)
    sync: Option<(std::sync::mpsc::Sender<()>, std::sync::mpsc::Receiver<()>, usize)>,
    /// false: no emission is made on this thread before the global recorder is installed
    probing: bool,
    log: Log,
}

struct Outcome {
    /// first mismatch: (signature, message, step index)
    bad: Option<(String, String, usize)>,
}

/// Emits one of each macro kind and returns which doubles received what.
fn probe(log: &Log) -> Vec<String> {
    log.lock().unwrap().clear();
    metrics::counter!("probe_c", "k" => "v").increment(1);
    metrics::gauge!("probe_g").set(1.0);
    metrics::histogram!("probe_h").record(1.0);
    metrics::describe_counter!("probe_c", Unit::Bytes, "d");
    // re-entrant emission (2 entries: the emission and the one nested inside the recorder), a recorder method that
    // panics (1 entry, logged before the panic), and an emission after the caught panic (1 entry)
    metrics::counter!("probe_reenter").increment(1);
    let _ = std::panic::catch_unwind(|| metrics::counter!("probe_panic").increment(1));
    metrics::counter!("probe_after_panic").increment(1);
    log.lock().unwrap().clone()
}

fn check_probe(m: &Model, got: &[String], global: Option<usize>, step: usize, out: &mut Outcome) {
    // a deviation that is one of the recorded findings does not end the judgement of the program: a later deviation of
    // another kind replaces it
    let recorded = |b: &Option<(String, String, usize)>| matches!(b, Some((s, _, _)) if s == "forgotten-guard" || s == "non-lifo-guard-drop");
    if out.bad.is_some() && !recorded(&out.bad) {
        return;
    }
    let mut now = Outcome { bad: None };
    check_probe_inner(m, got, global, step, &mut now);
    if now.bad.is_some() && (out.bad.is_none() || !recorded(&now.bad)) {
        out.bad = now.bad;
    }
}

fn check_probe_inner(m: &Model, got: &[String], global: Option<usize>, step: usize, out: &mut Outcome) {
    let who: Vec<usize> = got.iter().map(|l| l.split('|').next().unwrap().parse().unwrap()).collect();
    let describe = |w: Option<usize>| match w {
        Some(r) if Some(r) == global => "the global recorder".to_string(),
        Some(r) => format!("local recorder r{}", r),
        None => "nobody (no-op)".to_string(),
    };
    // is this deviation exactly what the recorded mechanism (see `Model::mech_slot`) does after a leaked guard or a
    // non-LIFO drop? Only then is it one of the two known findings.
    let mech = m.mech_slot.or(global);
    let mech_n = if mech.is_some() { 8 } else { 0 };
    let as_recorded = who.len() == mech_n && who.iter().all(|w| Some(*w) == mech);
    // safety clause first: never a recorder whose borrow has ended
    for w in &who {
        if Some(*w) != global && !m.borrowed(*w) {
            let sig = if m.forgot && as_recorded { "forgotten-guard" } else if m.non_lifo && as_recorded { "non-lifo-guard-drop" } else { "dispatch-after-borrow-ended" };
            out.bad = Some((sig.into(), format!("an emission was dispatched to r{} although every borrow that installed it has ended", w), step));
            return;
        }
    }
    if m.forgot {
        // routing after a leaked guard is not specified beyond the safety clause, but each emission is still delivered
        // exactly once and all of them to the same place
        let uniform = (who.is_empty() || who.len() == 8) && who.windows(2).all(|p| p[0] == p[1]);
        if !uniform {
            out.bad = Some(("emission-not-delivered-exactly-once".into(), format!("after a leaked guard the 8 probe emissions were received by {:?}", who), step));
        }
        return;
    }
    let want = m.current().or(global);
    let want_n = if want.is_some() { 8 } else { 0 };
    let ok = who.len() == want_n && who.iter().all(|w| Some(*w) == want);
    if !ok {
        let sig = if m.non_lifo && as_recorded { "non-lifo-guard-drop" } else { "emission-reached-wrong-recorder" };
        let got_desc: Vec<String> = who.iter().map(|w| describe(Some(*w))).collect();
        out.bad = Some((sig.into(), format!("the 8 probe emissions (incl. one nested inside a recorder method, one whose recorder method panics, one after that panic) should each reach {} exactly once; received by {:?}", describe(want), got_desc), step));
    }
}

/// Runs steps[pos..] until the Exit matching the current closure (or the end); returns the position after it.
fn interp(steps: &[Step], mut pos: usize, real: &mut Real, m: &mut Model, global: &std::cell::Cell<Option<usize>>, out: &mut Outcome) -> (usize, bool) {
    while pos < steps.len() {
        let s = steps[pos];
        match s {
            Step::InstallGlobal => {
                if let Some((ready, go, gid)) = &real.sync {
                    let _ = ready.send(());
                    let _ = go.recv();
                    global.set(Some(*gid));
                    real.probing = true;
                }
            }
            Step::Set(r) => {
                let g = metrics::set_default_local_recorder(real.recs[r]);
                real.guards.push(Some(g));
            }
            Step::DropG(i) => drop(real.guards[i].take()),
            Step::Forget(i) => std::mem::forget(real.guards[i].take()),
            Step::Enter(r) => {
                m.apply(s);
                let rec: &'static Dbl = real.recs[r];
                let mut next = pos + 1;
                let mut panicked = false;
                let res = std::panic::catch_unwind(std::panic::AssertUnwindSafe(|| {
                    metrics::with_local_recorder(rec, || {
                        if real.probing {
                            let got = probe(&real.log);
                            check_probe(m, &got, global.get(), pos, out);
                        }
                        let (n, p) = interp(steps, pos + 1, real, m, global, out);
                        next = n;
                        if p {
                            panicked = true;
                            panic!("scope exits by panic");
                        }
                    })
                }));
                let _ = res;
                pos = next;
                // the Exit step itself was applied to the model by the callee; probe after the scope ended
                if real.probing {
                    let got = probe(&real.log);
                    check_probe(m, &got, global.get(), pos.saturating_sub(1), out);
                }
                continue;
            }
            Step::Exit | Step::ExitPanic => {
                if s == Step::ExitPanic {
                    // what unwinding would do to guards that are locals of the closure: drop them innermost first
                    for i in (0..m.guards.len()).rev() {
                        if m.guards[i].1 == GState::Live && m.guards[i].2 == m.depth {
                            drop(real.guards[i].take());
                        }
                    }
                }
                m.apply(s);
                return (pos + 1, s == Step::ExitPanic);
            }
        }
        m.apply(s);
        if real.probing {
            let got = probe(&real.log);
            check_probe(m, &got, global.get(), pos, out);
        }
        pos += 1;
    }
    (pos, false)
}

fn run_program(steps: &[Step], nrec: usize, global: Option<usize>, log: &Log, recs: &[&'static Dbl]) -> Outcome {
    run_program_sync(steps, nrec, global, log, recs, None, true)
}

fn run_program_sync(steps: &[Step], nrec: usize, global: Option<usize>, log: &Log, recs: &[&'static Dbl], sync: Option<(std::sync::mpsc::Sender<()>, std::sync::mpsc::Receiver<()>, usize)>, probing: bool) -> Outcome {
    let mut real = Real { recs: recs[..nrec].to_vec(), guards: Vec::new(), sync, probing, log: log.clone() };
    let mut m = Model::default();
    let mut out = Outcome { bad: None };
    let global = std::cell::Cell::new(global);
    let global = &global;
    // the program must start from a clean thread: no local recorder
    if real.probing {
        let got = probe(log);
        check_probe(&m, &got, global.get(), 0, &mut out);
    }
    let (_, _) = interp(steps, 0, &mut real, &mut m, global, &mut out);
    // close scopes left open (programs are enumerated to completion, so this only drops remaining guards LIFO)
    for i in (0..real.guards.len()).rev() {
        if real.guards[i].is_some() {
            drop(real.guards[i].take());
        }
    }
    out
}

/// Enumerate all well-formed complete programs (all closures closed) of at most `max_steps` steps.
fn enumerate(nrec: usize, max_steps: usize, max_nest: usize, f: &mut dyn FnMut(&[Step])) {
    fn rec(prog: &mut Vec<Step>, m: &Model, nrec: usize, max_steps: usize, max_nest: usize, f: &mut dyn FnMut(&[Step])) {
        if m.depth == 0 && !prog.is_empty() {
            f(prog);
        }
        if prog.len() >= max_steps {
            return;
        }
        // closing all open closures must still be possible
        for s in m.enabled(nrec, max_nest, 3) {
            let mut m2 = m.clone();
            m2.apply(s);
            if prog.len() + 1 + m2.depth > max_steps {
                continue;
            }
            prog.push(s);
            rec(prog, &m2, nrec, max_steps, max_nest, f);
            prog.pop();
        }
    }
    rec(&mut Vec::new(), &Model::default(), nrec, max_steps, max_nest, f);
}

fn leak_recs(n: usize, log: &Log) -> Vec<&'static Dbl> {
    (0..n).map(|i| &*Box::leak(Box::new(Dbl { id: i, log: log.clone() }))).collect()
}

fn programs_part(ctx: &Ctx, res: &mut PartResult, with_global: bool, nrec: usize, max_steps: usize, max_nest: usize) {
    res.engine = "E3 all well-formed scope programs on the real thread-local recorder vs a scope-stack reference".into();
    vseq::quiet_panics();
    let log: Log = Default::default();
    let recs = leak_recs(nrec + 1, &log);
    let global = if with_global {
        metrics::set_global_recorder(Dbl { id: nrec, log: log.clone() }).ok();
        Some(nrec)
    } else {
        None
    };
    let mut states = vseq::States::new();
    let replay: Option<String> = ctx.replay.as_ref().and_then(|r| r["program"].as_str().map(|s| s.to_string()));
    let mut sample: Option<String> = None;
    let mut execs = 0u64;
    let mut trans = 0u64;
    let mut viols: Vec<(String, String, String)> = Vec::new();
    let started = std::time::Instant::now();
    let budget = ctx.budget_s;
    let mut capped = false;
    enumerate(nrec, max_steps, max_nest, &mut |prog| {
        if capped {
            return;
        }
        if execs % 4096 == 0 && started.elapsed().as_secs_f64() > budget {
            capped = true;
            return;
        }
        let ptxt = format!("{:?}", prog);
        if let Some(r) = &replay {
            if *r != ptxt {
                return;
            }
        }
        execs += 1;
        trans += prog.len() as u64;
        // a fresh thread per program: the thread-local recorder slot must start empty
        let out = std::thread::scope(|sc| sc.spawn(|| run_program(prog, nrec, global, &log, &recs)).join().unwrap());
        match out.bad {
            Some((sig, msg, step)) => {
                states.add(&(sig.clone(), step));
                viols.push((sig, format!("program {} at step {}: {}", ptxt, step, msg), ptxt));
            }
            None => {
                states.add(&ptxt.len());
                if sample.is_none() && prog.len() == max_steps.min(5) {
                    sample = Some(ptxt);
                }
            }
        }
    });
    res.executions = execs;
    res.transitions = trans;
    if capped {
        res.cap_hit = Some("budget (cpu time of the part)".into());
        res.exhaustive = false;
    }
    for (sig, msg, p) in viols {
        res.violation(&sig, msg, json!({"program": p}));
    }
    res.states = states.len();
    res.distinct_outcomes = states.len();
    res.bound = json!({"recorders": nrec, "max_steps": max_steps, "max_closure_nesting": max_nest, "max_guards": 3, "global_recorder_installed": with_global});
    res.sample(json!({"program": sample, "after_every_step": "counter!/gauge!/histogram!/describe_counter! probes"}));
}

/// The process-global recorder installed in the middle of histories. It can be installed once per process, so all
/// histories of this part share one installation: every LIFO scope program of at most `max_steps` steps with an install
/// point inserted at every position (also inside closures and while guards are held), each on its own thread, each in
/// two variants (emitting after every step from the start / not emitting at all before the installation). The threads
/// run their part before the install point one after the other and park; the main thread installs the recorder; the
/// threads then continue one after the other. Before the installation emissions outside local scopes reach nobody,
/// afterwards the global recorder — on every thread, whatever it did before.
fn global_install_part(res: &mut PartResult, max_steps: usize) {
    res.engine = "E3 scope programs x position of the (one) global installation x emitted-before-or-not, one thread each, sharing one real installation".into();
    vseq::quiet_panics();
    let log: Log = Default::default();
    let nrec = 2;
    let recs = leak_recs(nrec + 1, &log);
    let mut programs: Vec<(Vec<Step>, bool)> = Vec::new();
    let mut base: Vec<Vec<Step>> = vec![vec![]];
    enumerate(nrec, max_steps, 2, &mut |prog| {
        // LIFO programs without forgotten guards only: the others are judged (and known) in the programs parts
        let mut m = Model::default();
        for s in prog {
            m.apply(*s);
        }
        if !m.non_lifo && !m.forgot {
            base.push(prog.to_vec());
        }
    });
    for b in &base {
        for pos in 0..=b.len() {
            let mut p = b.clone();
            p.insert(pos, Step::InstallGlobal);
            programs.push((p.clone(), true));
            programs.push((p, false));
        }
    }
    let mut states = vseq::States::new();
    struct T {
        go: std::sync::mpsc::Sender<()>,
        h: std::thread::JoinHandle<Outcome>,
        prog: String,
    }
    let mut threads: Vec<T> = Vec::new();
    for (prog, probing) in &programs {
        let (ready_tx, ready_rx) = std::sync::mpsc::channel::<()>();
        let (go_tx, go_rx) = std::sync::mpsc::channel::<()>();
        let (prog2, log2, recs2, probing) = (prog.clone(), log.clone(), recs.clone(), *probing);
        let h = std::thread::spawn(move || run_program_sync(&prog2, nrec, None, &log2, &recs2, Some((ready_tx, go_rx, nrec)), probing));
        // wait until it is parked at its install point (the parts before the install point run one at a time)
        let _ = ready_rx.recv();
        threads.push(T { go: go_tx, h, prog: format!("{:?} (emitting before the installation: {})", prog, probing) });
        res.transitions += prog.len() as u64;
    }
    let installed = metrics::set_global_recorder(Dbl { id: nrec, log: log.clone() }).is_ok();
    if !installed {
        res.error = Some("the global recorder could not be installed in a fresh part process".into());
        return;
    }
    for t in threads {
        let _ = t.go.send(());
        res.executions += 1;
        match t.h.join() {
            Ok(out) => match out.bad {
                Some((sig, msg, step)) => {
                    states.add(&(sig.clone(), step));
                    res.violation(&sig, format!("program {} at step {}: {}", t.prog, step, msg), json!({"program": t.prog}));
                }
                None => {
                    states.add(&t.prog.len());
                }
            },
            Err(_) => res.violation("scope-program-panicked", format!("program {} panicked", t.prog), json!({"program": t.prog})),
        }
    }
    // a thread that starts after the installation
    let (log2, recs2) = (log.clone(), recs.clone());
    let out = std::thread::spawn(move || run_program(&[Step::Enter(0), Step::Exit], nrec, Some(nrec), &log2, &recs2)).join().unwrap();
    if let Some((sig, msg, step)) = out.bad {
        res.violation(&sig, format!("thread started after the installation, step {}: {}", step, msg), json!({}));
    }
    res.states = states.len();
    res.distinct_outcomes = states.len();
    res.bound = json!({"recorders": nrec, "max_steps": max_steps, "programs": programs.len(), "install_positions": "every position", "variants": ["emits after every step from the start", "does not emit before the installation"]});
    res.sample(json!({"program": "[Enter(0), InstallGlobal, Exit]", "expected": "inside the closure r0; after it the global recorder"}));
}

/// two threads in lock-step: a recorder installed on one thread is never visible to the other
/// Is `T: Send`? Decided by the compiler (an inherent associated const, available only when the bound holds, shadows
/// the trait const) and readable at run time, so that a guard that has become `Send` is a verdict and not a build error.
struct SendProbe<T: ?Sized>(std::marker::PhantomData<T>);
trait NotSendDefault {
    const IS_SEND: bool = false;
}
impl<T: ?Sized> NotSendDefault for SendProbe<T> {}
impl<T: ?Sized + Send> SendProbe<T> {
    const IS_SEND: bool = true;
}

/// "No emission is ever dispatched to a recorder after the borrow that installed it has ended" is, for the guard form,
/// a contract the compiler enforces: a `LocalRecorderGuard<'a>` cannot be kept for longer than the `&'a dyn Recorder` it
/// was made from. Programs that try are compiled against the metrics crate as built for this harness and must be
/// rejected with a lifetime error; controls of the same shape must compile.
fn guard_lifetime_part(ctx: &Ctx, res: &mut PartResult) {
    res.engine = "compile-time probes: programs that keep a local-recorder guard for longer than the recorder must be rejected (rustc, borrow checker), controls accepted".into();
    let dir = ctx.run_dir().join("c01-guard-lifetime-probes");
    let _ = std::fs::remove_dir_all(&dir);
    std::fs::create_dir_all(&dir).unwrap();
    let deps = std::env::current_exe().ok().and_then(|e| e.parent().map(|p| p.join("deps")));
    let deps = match deps {
        Some(d) if d.is_dir() => d,
        _ => {
            res.notes.push("the harness's deps directory was not found next to the executable: probes not run".into());
            res.exhaustive = false;
            return;
        }
    };
    // the metrics rlib this very harness was linked against: the newest one
    let mut rlibs: Vec<(std::time::SystemTime, std::path::PathBuf)> = std::fs::read_dir(&deps)
        .map(|rd| rd.flatten().filter(|e| { let n = e.file_name().to_string_lossy().to_string(); n.starts_with("libmetrics-") && n.ends_with(".rlib") }).filter_map(|e| e.metadata().ok().and_then(|m| m.modified().ok()).map(|t| (t, e.path()))).collect())
        .unwrap_or_default();
    rlibs.sort();
    let rlib = match rlibs.pop() {
        Some((_, p)) => p,
        None => {
            res.notes.push("no libmetrics-*.rlib in the harness's deps directory: probes not run".into());
            res.exhaustive = false;
            return;
        }
    };
    let header = "#![allow(dead_code, unused)]\nuse metrics::{set_default_local_recorder, with_local_recorder, LocalRecorderGuard, NoopRecorder, Recorder};\n";
    let probes: Vec<(&str, bool, &str)> = vec![
        ("guard-outlives-recorder", false, "pub fn f() { let guard; { let rec = NoopRecorder; guard = set_default_local_recorder(&rec); } metrics::counter!(\"x\").increment(1); drop(guard); }"),
        ("guard-control", true, "pub fn f() { let rec = NoopRecorder; let guard = set_default_local_recorder(&rec); metrics::counter!(\"x\").increment(1); drop(guard); }"),
        ("guard-returned-past-recorder", false, "pub fn f() -> LocalRecorderGuard<'static> { let rec = NoopRecorder; set_default_local_recorder(&rec) }"),
        ("guard-returned-control", true, "pub fn f<'a>(rec: &'a dyn Recorder) -> LocalRecorderGuard<'a> { set_default_local_recorder(rec) }"),
        ("guard-lengthened", false, "pub fn f<'a>(g: LocalRecorderGuard<'a>) -> LocalRecorderGuard<'static> { g }"),
        ("guard-stored-past-recorder", false, "pub fn f(v: &mut Vec<LocalRecorderGuard<'static>>) { let rec = NoopRecorder; v.push(set_default_local_recorder(&rec)); }"),
        ("recorder-moved-while-guard-alive", false, "pub fn f() { let rec = NoopRecorder; let guard = set_default_local_recorder(&rec); let moved = rec; drop(guard); drop(moved); }"),
        ("closure-control", true, "pub fn f() -> u32 { let rec = NoopRecorder; with_local_recorder(&rec, || { metrics::counter!(\"x\").increment(1); 7 }) }"),
    ];
    let mut outcomes = std::collections::BTreeSet::new();
    for (name, must_compile, body) in &probes {
        res.executions += 1;
        res.transitions += 1;
        let file = dir.join(format!("{}.rs", name));
        std::fs::write(&file, format!("{}{}\n", header, body)).unwrap();
        let out = std::process::Command::new("rustc")
            .current_dir(ctx.root.join("harness"))
            .args(["--edition", "2021", "--crate-type", "lib", "--emit=metadata", "--error-format=short", "-A", "warnings", "-L"])
            .arg(format!("dependency={}", deps.display()))
            .arg("--extern")
            .arg(format!("metrics={}", rlib.display()))
            .arg("-o")
            .arg(dir.join(format!("{}.rmeta", name)))
            .arg(&file)
            .output();
        let out = match out {
            Ok(o) => o,
            Err(e) => {
                res.notes.push(format!("rustc could not be started: {}", e));
                res.exhaustive = false;
                return;
            }
        };
        let err = String::from_utf8_lossy(&out.stderr).to_string();
        let lifetime_error = ["E0515", "E0597", "E0521", "E0716", "E0505", "E0499", "E0502", "E0506", "E0310", "E0621", "lifetime may not live long enough", "does not live long enough"].iter().any(|m| err.contains(m));
        let other_error = ["E0432", "E0433", "E0425", "E0599", "E0308", "E0277", "E0282", "E0283", "E0061", "E0412", "E0460", "E0463", "E0514", "E0786"].iter().any(|m| err.contains(m));
        outcomes.insert((out.status.success(), lifetime_error));
        let cfg = json!({"lifetime_probe": name});
        if *must_compile {
            if !out.status.success() {
                if lifetime_error && !other_error {
                    res.violation("local-scope-within-its-borrow-rejected", format!("control program {:?} must compile: {}\n{}", name, body, err.chars().take(600).collect::<String>()), cfg);
                } else {
                    res.notes.push(format!("control probe {:?} does not compile for a reason other than lifetimes (probe machinery or API changed): {}", name, err.chars().take(400).collect::<String>()));
                    res.exhaustive = false;
                }
            }
        } else if out.status.success() {
            res.violation("local-recorder-guard-outlives-its-recorder", format!("this program compiles; in it a local-recorder guard (and with it the thread's recorder pointer) is still in place after the recorder it was made from is gone, so a later emission is dispatched to a recorder whose borrow has ended: {}", body), cfg);
        } else if !lifetime_error || other_error {
            res.notes.push(format!("escape probe {:?} is rejected, but not (only) by a lifetime error: {}", name, err.chars().take(400).collect::<String>()));
            res.exhaustive = false;
        }
    }
    let _ = std::fs::remove_dir_all(&dir);
    res.states = probes.len() as u64;
    res.distinct_outcomes = outcomes.len() as u64;
    res.bound = json!({"programs": probes.len(), "must_be_rejected": probes.iter().filter(|p| !p.1).count(), "controls": probes.iter().filter(|p| p.1).count()});
    res.sample(json!({"rejected": probes[0].2, "accepted": probes[1].2}));
}

/// Emissions made while a thread exits: a thread-local value of the application whose destructor emits (a per-thread
/// buffer flushed at exit). A thread without a local recorder has the global one in scope for as long as it runs code,
/// its own thread-local destructors included, whichever of the application's value and the library's per-thread state was
/// touched first. Runs in its own process (it installs a global recorder); the destructor catches a panic of the
/// emission, so that a failure is a verdict and not a dead process.
fn thread_exit_part(res: &mut PartResult) {
    res.engine = "E3 orders of first use (application thread-local / first emission / first local scope) x emissions from a thread-local destructor at thread exit".into();
    static EXIT_PANICS: AtomicUsize = AtomicUsize::new(0);
    struct Flusher(std::cell::Cell<usize>);
    impl Drop for Flusher {
        fn drop(&mut self) {
            let id = self.0.get();
            let r = std::panic::catch_unwind(|| {
                metrics::counter!("exit_flush", "thread" => id.to_string()).increment(1);
            });
            if r.is_err() {
                EXIT_PANICS.fetch_add(1, Ordering::SeqCst);
            }
        }
    }
    thread_local! { static FLUSHER: Flusher = Flusher(std::cell::Cell::new(0)); }
    let log: Log = Default::default();
    let global: &'static Dbl = Box::leak(Box::new(Dbl { id: 7, log: log.clone() }));
    if metrics::set_global_recorder(global).is_err() {
        res.error = Some("a global recorder was already installed in this part process".into());
        return;
    }
    vseq::quiet_panics();
    let mut states = vseq::States::new();
    // order: 0 = application value first, then an emission; 1 = emission first, then the application value;
    // 2 = application value first, then a local scope (entered and left), then an emission; 3 = local scope first
    for order in 0..4usize {
        res.executions += 1;
        res.transitions += 4;
        let local_log: Log = Default::default();
        let ll = local_log.clone();
        let t = std::thread::spawn(move || {
            let local: &'static Dbl = Box::leak(Box::new(Dbl { id: 9, log: ll }));
            let touch = || FLUSHER.with(|f| f.0.set(100 + order));
            match order {
                0 => {
                    touch();
                    metrics::counter!("alive").increment(1);
                }
                1 => {
                    metrics::counter!("alive").increment(1);
                    touch();
                }
                2 => {
                    touch();
                    metrics::with_local_recorder(local, || metrics::counter!("scoped").increment(1));
                    metrics::counter!("alive").increment(1);
                }
                _ => {
                    metrics::with_local_recorder(local, || metrics::counter!("scoped").increment(1));
                    touch();
                    metrics::counter!("alive").increment(1);
                }
            }
        });
        let joined = t.join();
        let got: Vec<String> = log.lock().unwrap().drain(..).collect();
        let exit_seen = got.iter().filter(|l| l.contains("exit_flush") && l.contains(&format!("thread={}", 100 + order))).count();
        let alive_seen = got.iter().filter(|l| l.contains("register_counter|alive")).count();
        states.add(&(order, exit_seen, alive_seen));
        let cfg = json!({"thread_exit_order": order});
        if joined.is_err() || EXIT_PANICS.swap(0, Ordering::SeqCst) != 0 || exit_seen != 1 || alive_seen != 1 {
            res.violation("emission-lost-or-duplicated", format!("a thread without a local recorder (order of first use #{}: {}) emits once while alive and once from a thread-local destructor while it exits, with a global recorder installed: the global recorder saw {} + {} of the 1 + 1 emissions{}; its log: {:?}", order, ["application value, emission", "emission, application value", "application value, local scope, emission", "local scope, application value, emission"][order], alive_seen, exit_seen, if joined.is_err() { " (the thread ended with a panic)" } else { "" }, got), cfg);
        }
    }
    res.states = states.len();
    res.distinct_outcomes = states.len();
    res.sample(json!({"order": "application thread-local first, then the first emission", "expected": "the emission made by the thread-local's destructor at thread exit reaches the global recorder"}));
}

fn threads_part(res: &mut PartResult) {
    res.engine = "E3 all pairs of short scope programs on two threads in lock-step".into();
    // a guard restores the slot of whichever thread drops it: only its being !Send keeps a recorder installed locally on
    // one thread from becoming current on another one (safe code could otherwise move the guard and drop it elsewhere)
    #[allow(clippy::assertions_on_constants)]
    if SendProbe::<LocalRecorderGuard<'static>>::IS_SEND {
        res.violation("local-recorder-guard-can-change-threads", "LocalRecorderGuard is Send: safe code can move a guard to another thread, where dropping it installs the guard's saved recorder (local to the first thread) as that thread's current recorder".into(), json!({}));
    }
    vseq::quiet_panics();
    let mut progs: Vec<Vec<Step>> = Vec::new();
    enumerate(1, 3, 1, &mut |p| {
        if !p.iter().any(|s| matches!(s, Step::Forget(_) | Step::ExitPanic)) {
            progs.push(p.to_vec())
        }
    });
    let mut states = vseq::States::new();
    for pa in &progs {
        for pb in &progs {
            res.executions += 1;
            res.transitions += (pa.len() + pb.len()) as u64;
            let bar = Arc::new(std::sync::Barrier::new(2));
            let fail = Arc::new(AtomicBool::new(false));
            let run = |prog: Vec<Step>, tid: usize, bar: Arc<std::sync::Barrier>, fail: Arc<AtomicBool>| {
                std::thread::spawn(move || {
                    let log: Log = Default::default();
                    let recs = vec![&*Box::leak(Box::new(Dbl { id: tid * 10, log: log.clone() }))];
                    let mut guards: Vec<Option<LocalRecorderGuard<'static>>> = Vec::new();
                    let mut m = Model::default();
                    // lock-step: both threads take one step, then both probe
                    fn go(steps: &[Step], pos: usize, recs: &[&'static Dbl], guards: &mut Vec<Option<LocalRecorderGuard<'static>>>, m: &mut Model, log: &Log, bar: &std::sync::Barrier, fail: &AtomicBool, tid: usize) -> usize {
                        let mut pos = pos;
                        while pos < steps.len() {
                            let s = steps[pos];
                            match s {
                                Step::Set(r) => guards.push(Some(metrics::set_default_local_recorder(recs[r]))),
                                Step::DropG(i) => drop(guards[i].take()),
                                Step::Enter(r) => {
                                    m.apply(s);
                                    let rec = recs[r];
                                    let mut next = pos + 1;
                                    metrics::with_local_recorder(rec, || {
                                        bar.wait();
                                        let got = probe(log);
                                        bar.wait();
                                        let want = m.current();
                                        let ok = got.len() == if want.is_some() { 8 } else { 0 } && got.iter().all(|l| l.starts_with(&format!("{}|", tid * 10)));
                                        if !ok {
                                            fail.store(true, Ordering::SeqCst);
                                        }
                                        next = go(steps, pos + 1, recs, guards, m, log, bar, fail, tid);
                                    });
                                    pos = next;
                                    continue;
                                }
                                Step::Exit => {
                                    m.apply(s);
                                    bar.wait();
                                    bar.wait();
                                    return pos + 1;
                                }
                                _ => {}
                            }
                            m.apply(s);
                            bar.wait();
                            let got = probe(log);
                            bar.wait();
                            let want = m.current();
                            let ok = got.len() == if want.is_some() { 8 } else { 0 } && got.iter().all(|l| l.starts_with(&format!("{}|", tid * 10)));
                            if !ok && !m.non_lifo {
                                fail.store(true, Ordering::SeqCst);
                            }
                            pos += 1;
                        }
                        pos
                    }
                    go(&prog, 0, &recs, &mut guards, &mut m, &log, &bar, &fail, tid);
                    // pad to 3 rounds so both threads make the same number of barrier waits
                    for _ in prog.len()..3 {
                        bar.wait();
                        let got = probe(&log);
                        bar.wait();
                        let want = m.current();
                        if got.len() != if want.is_some() { 8 } else { 0 } && !m.non_lifo {
                            fail.store(true, Ordering::SeqCst);
                        }
                    }
                })
            };
            let ta = run(pa.clone(), 1, bar.clone(), fail.clone());
            let tb = run(pb.clone(), 2, bar.clone(), fail.clone());
            ta.join().unwrap();
            tb.join().unwrap();
            states.add(&(pa.len(), pb.len(), fail.load(Ordering::SeqCst)));
            if fail.load(Ordering::SeqCst) {
                res.violation("local-recorder-visible-on-other-thread", format!("thread A {:?} / thread B {:?}: an emission did not reach exactly the emitting thread's own innermost recorder", pa, pb), json!({"pa": format!("{:?}", pa), "pb": format!("{:?}", pb)}));
            }
        }
    }
    res.states = states.len();
    res.distinct_outcomes = states.len();
    res.bound = json!({"programs_per_thread": progs.len(), "max_steps": 3});
    res.sample(json!({"thread_A": format!("{:?}", progs[progs.len() / 2]), "thread_B": format!("{:?}", progs[1])}));
}

// ------------------------------------------------------------------ macro forms
fn macro_forms(res: &mut PartResult) {
    res.engine = "E3 catalogue of every macro arm under a logging double".into();
    let log: Log = Default::default();
    let d = Dbl { id: 0, log: log.clone() };
    let mp = module_path!();
    let mut states = vseq::States::new();
    let mut check = |res: &mut PartResult, form: &str, want: Vec<String>| {
        let got = log.lock().unwrap().clone();
        log.lock().unwrap().clear();
        res.executions += 1;
        res.transitions += 1;
        states.add(&got);
        if got != want {
            res.violation("macro-form-delivers-wrong-content", format!("`{}`: recorder saw {:?}, expected {:?}", form, got, want), json!({"form": form}));
        }
    };
    let name_dyn = String::from("dyn.name");
    let lv: Vec<Label> = vec![Label::new("a", "1"), Label::new("b", "2")];
    let pairs = [("a", "1"), ("b", "2")];
    let pairs_rep = [("r", "1"), ("r", "2"), ("r", "1")];
    let lv_rep: Vec<Label> = vec![Label::new("r", "1"), Label::new("r", "1"), Label::new("s", "")];
    let val = String::from("dv");
    metrics::with_local_recorder(&d, || {
        macro_rules! forms {
            ($mac:ident, $reg:literal) => {{
                let e = |key: &str, target: &str, level: &str| vec![format!("0|{}|{}|{}/{}/{}", $reg, key, target, level, mp)];
                let _ = metrics::$mac!("lit");
                check(res, concat!(stringify!($mac), "!(\"lit\")"), e("lit{}", mp, "Level(2)"));
                let _ = metrics::$mac!("lit",);
                check(res, concat!(stringify!($mac), "!(\"lit\",)"), e("lit{}", mp, "Level(2)"));
                let _ = metrics::$mac!(name_dyn.clone());
                check(res, concat!(stringify!($mac), "!(name)"), e("dyn.name{}", mp, "Level(2)"));
                let _ = metrics::$mac!("lit", "k" => "v");
                check(res, concat!(stringify!($mac), "!(\"lit\", \"k\" => \"v\")"), e("lit{k=v}", mp, "Level(2)"));
                let _ = metrics::$mac!("lit", "k" => "v", "k2" => "v2", "k3" => "v3",);
                check(res, concat!(stringify!($mac), "!(\"lit\", 3 literal labels,)"), e("lit{k=v,k2=v2,k3=v3}", mp, "Level(2)"));
                let _ = metrics::$mac!(name_dyn.clone(), "k" => "v");
                check(res, concat!(stringify!($mac), "!(name, \"k\" => \"v\")"), e("dyn.name{k=v}", mp, "Level(2)"));
                let _ = metrics::$mac!("lit", "k" => val.clone());
                check(res, concat!(stringify!($mac), "!(\"lit\", \"k\" => value)"), e("lit{k=dv}", mp, "Level(2)"));
                let _ = metrics::$mac!(name_dyn.clone(), "k" => val.clone(), "k2" => "v2");
                check(res, concat!(stringify!($mac), "!(name, \"k\" => value, \"k2\" => \"v2\")"), e("dyn.name{k=dv,k2=v2}", mp, "Level(2)"));
                let _ = metrics::$mac!("lit", &pairs);
                check(res, concat!(stringify!($mac), "!(\"lit\", &[(k,v)])"), e("lit{a=1,b=2}", mp, "Level(2)"));
                let _ = metrics::$mac!("lit", lv.clone());
                check(res, concat!(stringify!($mac), "!(\"lit\", Vec<Label>)"), e("lit{a=1,b=2}", mp, "Level(2)"));
                let _ = metrics::$mac!(name_dyn.clone(), lv.iter());
                check(res, concat!(stringify!($mac), "!(name, labels.iter())"), e("dyn.name{a=1,b=2}", mp, "Level(2)"));
                // a label name spelled twice (legal: multi-valued tags), an empty value, a non-ASCII name: delivered as spelled
                // by the literal, the computed and the collection forms alike
                let _ = metrics::$mac!("lit", "r" => "1", "r" => "2", "z" => "");
                check(res, concat!(stringify!($mac), "!(\"lit\", \"r\" => \"1\", \"r\" => \"2\", \"z\" => \"\")"), e("lit{r=1,r=2,z=}", mp, "Level(2)"));
                let _ = metrics::$mac!("lit", "r" => val.clone(), "r" => "2", "é" => "ü");
                check(res, concat!(stringify!($mac), "!(\"lit\", \"r\" => value, \"r\" => \"2\", \"é\" => \"ü\")"), e("lit{r=dv,r=2,é=ü}", mp, "Level(2)"));
                let _ = metrics::$mac!("lit", &pairs_rep);
                check(res, concat!(stringify!($mac), "!(\"lit\", &[(r,1),(r,2),(r,1)])"), e("lit{r=1,r=2,r=1}", mp, "Level(2)"));
                let _ = metrics::$mac!(name_dyn.clone(), lv_rep.clone());
                check(res, concat!(stringify!($mac), "!(name, Vec<Label> with a repeated label)"), e("dyn.name{r=1,r=1,s=}", mp, "Level(2)"));
                let _ = metrics::$mac!(target: "tgt", "lit");
                check(res, concat!(stringify!($mac), "!(target: \"tgt\", \"lit\")"), e("lit{}", "tgt", "Level(2)"));
                let _ = metrics::$mac!(level: Level::DEBUG, "lit", "k" => "v");
                check(res, concat!(stringify!($mac), "!(level: DEBUG, \"lit\", \"k\" => \"v\")"), e("lit{k=v}", mp, "Level(1)"));
                let _ = metrics::$mac!(target: "tgt", level: Level::ERROR, name_dyn.clone(), "k" => val.clone());
                check(res, concat!(stringify!($mac), "!(target:, level: ERROR, name, \"k\" => value)"), e("dyn.name{k=dv}", "tgt", "Level(4)"));
                let _ = metrics::$mac!(target: "tgt", level: Level::TRACE, "lit", &pairs,);
                check(res, concat!(stringify!($mac), "!(target:, level: TRACE, \"lit\", &pairs,)"), e("lit{a=1,b=2}", "tgt", "Level(0)"));
            }};
        }
        forms!(counter, "register_counter");
        forms!(gauge, "register_gauge");
        forms!(histogram, "register_histogram");
        macro_rules! dforms {
            ($mac:ident, $what:literal) => {{
                metrics::$mac!("lit", "text");
                check(res, concat!(stringify!($mac), "!(\"lit\", \"text\")"), vec![format!("0|{}|lit|None|text", $what)]);
                metrics::$mac!("lit", Unit::Seconds, "text",);
                check(res, concat!(stringify!($mac), "!(\"lit\", Unit::Seconds, \"text\",)"), vec![format!("0|{}|lit|Some(\"seconds\")|text", $what)]);
                metrics::$mac!(name_dyn.clone(), Unit::Count, val.clone());
                check(res, concat!(stringify!($mac), "!(name, Unit::Count, String)"), vec![format!("0|{}|dyn.name|Some(\"count\")|dv", $what)]);
                metrics::$mac!(name_dyn.clone(), val.clone(),);
                check(res, concat!(stringify!($mac), "!(name, String,)"), vec![format!("0|{}|dyn.name|None|dv", $what)]);
                // an empty description is a description (it may only be there to carry the unit)
                metrics::$mac!("lit", "");
                check(res, concat!(stringify!($mac), "!(\"lit\", \"\")"), vec![format!("0|{}|lit|None|", $what)]);
                metrics::$mac!("lit", Unit::Bytes, "");
                check(res, concat!(stringify!($mac), "!(\"lit\", Unit::Bytes, \"\")"), vec![format!("0|{}|lit|Some(\"bytes\")|", $what)]);
                metrics::$mac!(name_dyn.clone(), Unit::Count, String::new());
                check(res, concat!(stringify!($mac), "!(name, Unit::Count, String::new())"), vec![format!("0|{}|dyn.name|Some(\"count\")|", $what)]);
                metrics::$mac!("", "text");
                check(res, concat!(stringify!($mac), "!(\"\", \"text\")"), vec![format!("0|{}||None|text", $what)]);
            }};
        }
        dforms!(describe_counter, "describe_counter");
        dforms!(describe_gauge, "describe_gauge");
        dforms!(describe_histogram, "describe_histogram");
    });
    // ---- one call site executed several times with different arguments, in different scopes and on another thread:
    // whatever a call site caches (static keys, metadata) must not freeze what a later execution spells
    fn site_name(n: &str) {
        let _ = metrics::counter!(n.to_string());
    }
    fn site_name_lit_labels(n: &str) {
        let _ = metrics::gauge!(n.to_string(), "k" => "v", "k2" => "v2");
    }
    fn site_lit_name_value(v: &str) {
        let _ = metrics::histogram!("lit", "k" => v.to_string());
    }
    fn site_name_value(n: &str, v: &str) {
        let _ = metrics::counter!(n.to_string(), "k" => v.to_string(), "z" => "c");
    }
    fn site_name_collection(n: &str, v: &str) {
        let _ = metrics::gauge!(n.to_string(), vec![Label::new("a", v.to_string())]);
    }
    fn site_target_level(n: &str) {
        let _ = metrics::histogram!(target: "tgt", level: Level::DEBUG, n.to_string(), "k" => "v");
    }
    fn site_describe(n: &str, d: &str) {
        metrics::describe_gauge!(n.to_string(), Unit::Bytes, d.to_string());
    }
    fn site_all_literal() {
        let _ = metrics::counter!("lit", "k" => "v");
    }
    let run_sites = |tag: &str| {
        site_name(&format!("n{}", tag));
        site_name_lit_labels(&format!("n{}", tag));
        site_lit_name_value(&format!("v{}", tag));
        site_name_value(&format!("n{}", tag), &format!("v{}", tag));
        site_name_collection(&format!("n{}", tag), &format!("v{}", tag));
        site_target_level(&format!("n{}", tag));
        site_describe(&format!("n{}", tag), &format!("d{}", tag));
        site_all_literal();
    };
    let want_sites = |id: usize, tag: &str| -> Vec<String> {
        vec![
            format!("{id}|register_counter|n{tag}{{}}|{mp}/Level(2)/{mp}"),
            format!("{id}|register_gauge|n{tag}{{k=v,k2=v2}}|{mp}/Level(2)/{mp}"),
            format!("{id}|register_histogram|lit{{k=v{tag}}}|{mp}/Level(2)/{mp}"),
            format!("{id}|register_counter|n{tag}{{k=v{tag},z=c}}|{mp}/Level(2)/{mp}"),
            format!("{id}|register_gauge|n{tag}{{a=v{tag}}}|{mp}/Level(2)/{mp}"),
            format!("{id}|register_histogram|n{tag}{{k=v}}|tgt/Level(1)/{mp}"),
            format!("{id}|describe_gauge|n{tag}|Some(\"bytes\")|d{tag}"),
            format!("{id}|register_counter|lit{{k=v}}|{mp}/Level(2)/{mp}"),
        ]
    };
    metrics::with_local_recorder(&d, || {
        for tag in ["1", "2", "1"] {
            run_sites(tag);
            check(res, &format!("eight call sites, execution with arguments tagged {}", tag), want_sites(0, tag));
        }
    });
    let d2 = Dbl { id: 7, log: log.clone() };
    std::thread::scope(|sc| {
        sc.spawn(|| {
            metrics::with_local_recorder(&d2, || {
                run_sites("3");
            })
        });
    });
    check(res, "the same eight call sites executed on another thread under another recorder", want_sites(7, "3"));
    res.states = states.len();
    res.distinct_outcomes = states.len();
    res.sample(json!({"form": "counter!(target: \"tgt\", level: Level::ERROR, name, \"k\" => value)", "expected": "register_counter|dyn.name{k=dv}|tgt/Level(4)/<module path>"}));
}

fn parts(ctx: &Ctx) -> Vec<PartSpec> {
    let b = if ctx.quick() { 150.0 } else { 2400.0 };
    let (steps, nest) = if ctx.quick() { (6, 2) } else { (8, 3) };
    vec![
        PartSpec::new("programs-no-global", json!({"p": "prog", "global": false, "recs": 2, "steps": steps, "nest": nest})).budget(b),
        PartSpec::new("programs-with-global", json!({"p": "prog", "global": true, "recs": 2, "steps": steps, "nest": nest})).budget(b),
        PartSpec::new("programs-3recorders-no-global", json!({"p": "prog", "global": false, "recs": 3, "steps": if ctx.quick() { 5 } else { 7 }, "nest": 2})).budget(b),
        PartSpec::new("two-threads", json!({"p": "threads"})),
        PartSpec::new("guard-lifetime-probes", json!({"p": "lifetimes"})),
        PartSpec::new("thread-exit-emissions", json!({"p": "thread_exit"})),
        PartSpec::new("global-installed-mid-history", json!({"p": "install", "steps": if ctx.quick() { 3 } else { 4 }})),
        PartSpec::new("macro-forms", json!({"p": "macros"})),
        // E2: the global cell's own state machine while emissions look it up (real cell.rs under loom)
        PartSpec::new("loom-cell_pre_1l1r", json!({"p": "loom", "loom": "cell_pre_1l1r", "pb": if ctx.quick() { json!(3) } else { Value::Null }})),
        PartSpec::new("loom-cell_pre_1l2r", json!({"p": "loom", "loom": "cell_pre_1l2r", "pb": if ctx.quick() { json!(2) } else { Value::Null }})),
        PartSpec::new("loom-cell_pre_2l1r", json!({"p": "loom", "loom": "cell_pre_2l1r", "pb": if ctx.quick() { json!(2) } else { Value::Null }})),
    ]
}

fn run(ctx: &Ctx, spec: &PartSpec) -> PartResult {
    let mut res = PartResult::new(&spec.name, "");
    match spec.arg["p"].as_str().unwrap_or("") {
        "prog" => programs_part(ctx, &mut res, spec.arg["global"].as_bool().unwrap_or(false), spec.arg["recs"].as_u64().unwrap_or(2) as usize, spec.arg["steps"].as_u64().unwrap_or(6) as usize, spec.arg["nest"].as_u64().unwrap_or(2) as usize),
        "threads" => threads_part(&mut res),
        "lifetimes" => guard_lifetime_part(ctx, &mut res),
        "thread_exit" => thread_exit_part(&mut res),
        "loom" => vcore::loompart::run_with_budget(spec.arg["loom"].as_str().unwrap_or(""), spec.arg["pb"].as_u64(), ctx.budget_s, &mut res),
        "install" => global_install_part(&mut res, spec.arg["steps"].as_u64().unwrap_or(3) as usize),
        _ => macro_forms(&mut res),
    }
    res
}

fn main() {
    driver::main(CheckDef {
        prop: "C01",
        level: "model_checking",
        rule: "every well-formed program of at most N steps over {g = set_default_local_recorder(r), drop(g) of any live guard in any order, mem::forget(g), with_local_recorder(r, || ..) entered / left normally / left by a caught panic} with 2-3 recorder doubles, closure nesting <= 2-3, at most 3 guards, run on the real thread-local recorder; after every step a counter!, gauge!, histogram! and describe_counter! probe must each reach exactly the innermost live scope's recorder (else the global, else nobody) exactly once and never a recorder none of whose borrows is alive; once without and once with a global recorder (separate processes); all pairs of <= 3-step programs on two threads in lock-step; a catalogue of every macro arm (15 forms x 3 kinds + 4 describe forms x 3) with independently written expected name/labels/level/target/module path/unit/description; distinct = distinct (signature, step) / program shapes; describe forms with an empty description (with and without a unit) and an empty metric name; compile-time probes against the metrics crate as built for the harness: 5 programs that keep a LocalRecorderGuard for longer than its recorder (assigned to an outer binding, returned, lengthened to 'static, stored, recorder moved away) must be rejected with a lifetime error, 3 controls must compile; emissions from a thread-local destructor at thread exit, for 4 orders of first use of the application's thread-local, the first emission and the first local scope, with a global recorder installed: each reaches the global recorder once",
        assumptions: &["recorder doubles are leaked, so a dispatch to a recorder whose borrow ended is observed instead of being undefined behaviour", "a panic leaving a closure drops the guards created inside it (as locals) innermost first; on normal exit such guards are considered moved out"],
        parts,
        run,
    });
}
