//! C11 — TCP exporter streams whole frames to every connected client, whatever others do (E4).
use metrics::{Key, Label, Level, Metadata, Recorder, Unit};
use metrics_exporter_tcp::verif::{WriteAnswer, PLAN, WRITES};
use metrics_exporter_tcp::{TcpBuilder, TcpRecorder};
use std::io::Read;
use std::net::{SocketAddr, TcpStream};
use std::time::{Duration, Instant};
use vcore::driver::{self, CheckDef, Ctx, PartResult, PartSpec};
use vcore::json;
use vcore::pbwire::{self, Frame};
use vcore::vseq;

static META: Metadata<'static> = Metadata::new("t", Level::INFO, None);

#[derive(Clone, Copy, Debug, PartialEq)]
enum Ev {
    Connect(usize),
    Read(usize),
    Close(usize),
    Reset(usize),
    Describe(usize),
    Emit(usize),
    /// client i connects and, with no quiescence barrier in between, operation k is emitted: the accept and the metric
    /// can land in the same wake-up of the transport thread
    ConnectEmit(usize, usize),
}

const N_DESCR: usize = 3;
const N_EMIT: usize = 10;

fn describe(rec: &TcpRecorder, i: usize) {
    describe_paced(rec, i, true)
}
fn describe_paced(rec: &TcpRecorder, i: usize, paced: bool) {
    match i {
        0 => rec.describe_counter("c_m".into(), Some(Unit::Bytes), "counter help".into()),
        // the same name described again, differently: a later client must get the description current when it connects
        2 => rec.describe_counter("c_m".into(), Some(Unit::Count), "counter help, second edition".into()),
        _ => {
            rec.describe_gauge("g_m".into(), Some(Unit::Percent), "gauge help".into());
            // descriptions travel through the same bounded channel as metrics (try_send): let the transport thread take
            // the first one before sending the second, or buffer_size(Some(1)) legitimately drops it ("rate within the buffer")
            if paced {
                let _ = barrier(rec);
            }
            rec.describe_histogram("h_m".into(), None, "hist help".into());
        }
    }
}
fn expected_metadata(i: usize) -> Vec<Frame> {
    match i {
        0 => vec![Frame::Metadata { name: "c_m".into(), metric_type: 0, unit: Some("bytes".into()), description: Some("counter help".into()) }],
        2 => vec![Frame::Metadata { name: "c_m".into(), metric_type: 0, unit: Some("count".into()), description: Some("counter help, second edition".into()) }],
        _ => vec![
            Frame::Metadata { name: "g_m".into(), metric_type: 1, unit: Some("percent".into()), description: Some("gauge help".into()) },
            Frame::Metadata { name: "h_m".into(), metric_type: 2, unit: None, description: Some("hist help".into()) },
        ],
    }
}
/// what a client connecting after these describes (in this order) must be sent: the latest description per name
fn metadata_for(described: &[usize]) -> Vec<Frame> {
    let mut latest: std::collections::BTreeMap<String, Frame> = Default::default();
    for d in described {
        for f in expected_metadata(*d) {
            if let Frame::Metadata { name, .. } = &f {
                latest.insert(name.clone(), f.clone());
            }
        }
    }
    latest.into_values().collect()
}
/// all six metric operations, with labels
fn emit(rec: &TcpRecorder, i: usize, seqno: u64) {
    let k = Key::from_parts("c_m", vec![Label::new("b", "2"), Label::new("a", "1")]);
    match i {
        0 => rec.register_counter(&k, &META).increment(seqno),
        1 => rec.register_counter(&Key::from_name("c_abs"), &META).absolute(seqno),
        2 => rec.register_gauge(&Key::from_parts("g_m", vec![Label::new("l", "é")]), &META).increment(seqno as f64 + 0.5),
        3 => rec.register_gauge(&Key::from_name("g_m"), &META).decrement(seqno as f64),
        4 => rec.register_gauge(&Key::from_name("g_m"), &META).set(-(seqno as f64)),
        5 => rec.register_histogram(&Key::from_name("h_m"), &META).record(seqno as f64 * 0.25),
        // values that carry no information of their own (the frame is identified by its name): zero, NaN, infinity
        6 => rec.register_counter(&Key::from_name(format!("z{}", seqno)), &META).increment(0),
        7 => rec.register_counter(&Key::from_name(format!("z{}", seqno)), &META).absolute(0),
        8 => rec.register_gauge(&Key::from_name(format!("z{}", seqno)), &META).set(f64::NAN),
        _ => rec.register_histogram(&Key::from_name(format!("z{}", seqno)), &META).record(f64::INFINITY),
    }
}
fn expected_metric(i: usize, seqno: u64) -> Frame {
    let f = |name: &str, labels: Vec<(&str, &str)>, op: String| Frame::Metric { name: name.into(), labels: labels.into_iter().map(|(a, b)| (a.to_string(), b.to_string())).collect(), op, has_timestamp: true };
    match i {
        0 => f("c_m", vec![("a", "1"), ("b", "2")], format!("increment_counter({})", seqno)),
        1 => f("c_abs", vec![], format!("set_counter({})", seqno)),
        2 => f("g_m", vec![("l", "é")], format!("increment_gauge({})", seqno as f64 + 0.5)),
        3 => f("g_m", vec![], format!("decrement_gauge({})", seqno as f64)),
        4 => f("g_m", vec![], format!("set_gauge({})", -(seqno as f64))),
        5 => f("h_m", vec![], format!("record_histogram({})", seqno as f64 * 0.25)),
        6 => f(&format!("z{}", seqno), vec![], "increment_counter(0)".to_string()),
        7 => f(&format!("z{}", seqno), vec![], "set_counter(0)".to_string()),
        8 => f(&format!("z{}", seqno), vec![], format!("set_gauge({})", f64::NAN)),
        _ => f(&format!("z{}", seqno), vec![], format!("record_histogram({})", f64::INFINITY)),
    }
}

struct Client {
    stream: Option<TcpStream>,
    buf: Vec<u8>,
    /// metadata known (processed by the exporter) when this client connected
    metadata_at_connect: Vec<usize>,
    /// emits issued while connected: (emit kind, seqno)
    expected: Vec<(usize, u64)>,
    /// sequence numbers in `expected` that may legitimately be missing (emitted while the accept was still in flight)
    optional: Vec<u64>,
    open: bool,
    ever: bool,
    /// connected in the same batch of events as a description: what it is told at connect is not determined
    meta_unjudged: bool,
}

fn free_port() -> u16 {
    std::net::TcpListener::bind("127.0.0.1:0").unwrap().local_addr().unwrap().port()
}

struct Exporter {
    rec: TcpRecorder,
    addr: SocketAddr,
}
impl Drop for Exporter {
    fn drop(&mut self) {
        // the exporter has no shutdown of its own: let its transport thread exit, or thousands of them pile up
        self.rec.verif_retire();
    }
}

static NET: std::sync::atomic::AtomicUsize = std::sync::atomic::AtomicUsize::new(0);
static SEQ: std::sync::atomic::AtomicUsize = std::sync::atomic::AtomicUsize::new(0);

fn start(buffer: Option<usize>) -> Result<Exporter, String> {
    for _ in 0..20 {
        // exporters never release their listening socket (the transport thread never exits): give every exporter its
        // own loopback address (127.<part>.<k/250>.<k%250+1>:5000) instead of consuming ephemeral ports
        let k = SEQ.fetch_add(1, std::sync::atomic::Ordering::SeqCst);
        let net = NET.load(std::sync::atomic::Ordering::SeqCst);
        let addr: SocketAddr = format!("127.{}.{}.{}:{}", 10 + net % 240, (k / 250) % 250, k % 250 + 1, 5000 + k / 62500).parse().unwrap();
        match TcpBuilder::new().listen_address(addr).buffer_size(buffer).build() {
            Ok(rec) => return Ok(Exporter { rec, addr }),
            Err(e) => {
                let s = e.to_string();
                if !s.contains("in use") {
                    return Err(s);
                }
            }
        }
    }
    Err("no free port".into())
}

/// Quiescence barrier: every epoll event that was ready when it starts lies in a fully processed batch when it returns.
fn barrier(rec: &TcpRecorder) -> Result<(), String> {
    for _ in 0..2 {
        let n0 = rec.verif_batches_done();
        rec.verif_wake();
        let t0 = Instant::now();
        while rec.verif_batches_done() <= n0 {
            if t0.elapsed() > Duration::from_secs(5) {
                return Err("the transport thread did not process a wake-up within 5 s".into());
            }
            std::thread::sleep(Duration::from_micros(20));
        }
    }
    Ok(())
}

fn drain(c: &mut Client) {
    if let Some(s) = c.stream.as_mut() {
        let mut tmp = [0u8; 16384];
        loop {
            match s.read(&mut tmp) {
                Ok(0) => break,
                Ok(n) => c.buf.extend_from_slice(&tmp[..n]),
                Err(_) => break,
            }
        }
    }
}

#[derive(Clone, Debug)]
struct Config {
    buffer: Option<usize>,
    /// answers for the first write calls of the exporter (then Full)
    plan: Vec<(usize, u8)>, // (write index, deviation kind 1 = Short(1), 2 = Short(5), 3 = WouldBlock)
    /// events [a, b) of the history are performed while the transport thread is parked between two polls (hook
    /// `verif_hold`): the exporter sees all of them in ONE batch of poll events, in the order they were caused
    batch: Option<(usize, usize)>,
}

struct Outcome {
    writes: u64,
    bad: Option<(String, String)>,
    summary: String,
}

fn run_history(h: &[Ev], cfg: &Config) -> Outcome {
    let bad = |sig: &str, msg: String, writes: u64| Outcome { writes, bad: Some((sig.to_string(), msg)), summary: String::new() };
    PLAN.lock().unwrap().clear();
    let w0 = WRITES.load(std::sync::atomic::Ordering::SeqCst);
    {
        // build the answer plan: Full everywhere except the listed write indices
        let mut p = PLAN.lock().unwrap();
        let max = cfg.plan.iter().map(|x| x.0 + 1).max().unwrap_or(0);
        for i in 0..max {
            let a = match cfg.plan.iter().find(|x| x.0 == i).map(|x| x.1) {
                Some(1) => WriteAnswer::Short(1),
                Some(2) => WriteAnswer::Short(5),
                Some(3) => WriteAnswer::WouldBlock,
                _ => WriteAnswer::Full,
            };
            p.push_back(a);
        }
    }
    let ex = match start(cfg.buffer) {
        Ok(e) => e,
        Err(e) => return bad("exporter-failed-to-start", e, 0),
    };
    if let Err(e) = barrier(&ex.rec) {
        return bad("exporter-does-not-serve", format!("buffer_size({:?}): {}", cfg.buffer, e), 0);
    }
    let mut clients: Vec<Client> = (0..3).map(|_| Client { stream: None, buf: vec![], metadata_at_connect: vec![], expected: vec![], optional: vec![], open: false, ever: false, meta_unjudged: false }).collect();
    let mut described: Vec<usize> = Vec::new();
    let mut seqno = 0u64;
    let mut past: Vec<Client> = Vec::new();
    let writes = |w0: u64| WRITES.load(std::sync::atomic::Ordering::SeqCst) - w0;
    // every history ends with a nudge emit so that frames delayed by an injected short / would-block write are flushed
    let mut events: Vec<Ev> = h.to_vec();
    events.push(Ev::Emit(0));
    let mut ei = 0usize;
    // emits of the current batch so far: a client connecting in the same batch may or may not get them
    let mut batch_emits: Vec<(usize, u64)> = Vec::new();
    let mut batch_connected: Vec<usize> = Vec::new();
    let batch_has_describe = cfg.batch.map(|(a, b)| h[a..b.min(h.len())].iter().any(|e| matches!(e, Ev::Describe(_)))).unwrap_or(false);
    let mut nudges = 0;
    let mut final_nudge = false;
    loop {
        if ei >= events.len() {
            // keep nudging until every planned answer was consumed, then once more (bounded)
            if !PLAN.lock().unwrap().is_empty() && nudges < 8 && clients.iter().any(|c| c.open) {
                events.push(Ev::Emit(0));
                nudges += 1;
            } else if !final_nudge && !cfg.plan.is_empty() {
                // every planned answer was consumed: one more emit drives out whatever the last deviation held back
                events.push(Ev::Emit(0));
                final_nudge = true;
            } else {
                break;
            }
        }
        let ev = &events[ei].clone();
        let in_batch = cfg.batch.map(|(a, b)| ei >= a && ei < b).unwrap_or(false);
        if let Some((a, _)) = cfg.batch {
            if ei == a {
                ex.rec.verif_hold();
                batch_emits.clear();
            }
        }
        match *ev {
            Ev::Connect(i) => {
                if clients[i].ever {
                    let old = std::mem::replace(&mut clients[i], Client { stream: None, buf: vec![], metadata_at_connect: vec![], expected: vec![], optional: vec![], open: false, ever: false, meta_unjudged: false });
                    past.push(old);
                }
                let s = match TcpStream::connect_timeout(&ex.addr, Duration::from_secs(5)) {
                    Ok(s) => s,
                    Err(e) => return bad("connect-not-answered", format!("connect failed: {}", e), writes(w0)),
                };
                s.set_nonblocking(true).unwrap();
                clients[i] = Client { stream: Some(s), buf: vec![], metadata_at_connect: described.clone(), expected: vec![], optional: vec![], open: true, ever: true, meta_unjudged: false };
                if in_batch {
                    // the order in which the exporter handles the listener and the waker within one batch is its own
                    clients[i].expected = batch_emits.clone();
                    clients[i].optional = batch_emits.iter().map(|e| e.1).collect();
                    clients[i].meta_unjudged = batch_has_describe;
                    batch_connected.push(i);
                }
            }
            Ev::ConnectEmit(i, k) => {
                if clients[i].ever {
                    let old = std::mem::replace(&mut clients[i], Client { stream: None, buf: vec![], metadata_at_connect: vec![], expected: vec![], optional: vec![], open: false, ever: false, meta_unjudged: false });
                    past.push(old);
                }
                let s = match TcpStream::connect_timeout(&ex.addr, Duration::from_secs(5)) {
                    Ok(s) => s,
                    Err(e) => return bad("connect-not-answered", format!("connect failed: {}", e), writes(w0)),
                };
                s.set_nonblocking(true).unwrap();
                clients[i] = Client { stream: Some(s), buf: vec![], metadata_at_connect: described.clone(), expected: vec![], optional: vec![], open: true, ever: true, meta_unjudged: false };
                seqno += 1;
                emit(&ex.rec, k, seqno);
                for (ci, c) in clients.iter_mut().enumerate().filter(|(_, c)| c.open) {
                    c.expected.push((k, seqno));
                    if ci == i {
                        c.optional.push(seqno);
                    }
                }
            }
            Ev::Read(i) => drain(&mut clients[i]),
            Ev::Close(i) => {
                drain(&mut clients[i]);
                if let Some(s) = clients[i].stream.take() {
                    let _ = s.shutdown(std::net::Shutdown::Both);
                }
                clients[i].open = false;
            }
            Ev::Reset(i) => {
                drain(&mut clients[i]);
                if let Some(s) = clients[i].stream.take() {
                    use std::os::fd::AsRawFd;
                    let l = libc::linger { l_onoff: 1, l_linger: 0 };
                    unsafe { libc::setsockopt(s.as_raw_fd(), libc::SOL_SOCKET, libc::SO_LINGER, &l as *const _ as *const libc::c_void, std::mem::size_of::<libc::linger>() as u32) };
                    drop(s);
                }
                clients[i].open = false;
            }
            Ev::Describe(d) => {
                describe_paced(&ex.rec, d, !in_batch);
                {
                    described.push(d);
                }
            }
            Ev::Emit(k) => {
                seqno += 1;
                emit(&ex.rec, k, seqno);
                if in_batch {
                    batch_emits.push((k, seqno));
                }
                for (ci, c) in clients.iter_mut().enumerate().filter(|(_, c)| c.open) {
                    c.expected.push((k, seqno));
                    if in_batch && batch_connected.contains(&ci) {
                        c.optional.push(seqno);
                    }
                }
            }
        }
        let last_of_batch = cfg.batch.map(|(_, b)| ei + 1 == b).unwrap_or(false);
        if last_of_batch {
            ex.rec.verif_release();
            batch_connected.clear();
        }
        if !in_batch || last_of_batch {
            if let Err(e) = barrier(&ex.rec) {
                return bad("exporter-does-not-serve", format!("after event {} ({:?}) of {:?} (batch {:?}): {}", ei, ev, events, cfg.batch, e), writes(w0));
            }
        }
        ei += 1;
    }
    PLAN.lock().unwrap().clear();
    // final drain; before a "missing frame" verdict a long grace period: the exporter's sockets have Nagle's algorithm
    // on, so a frame already written by the exporter can sit in the kernel until a delayed ACK arrives (<= 200 ms)
    let t_end = Instant::now();
    // with a small buffer the metadata frames queued at connect are themselves subject to drop-oldest: wait for as many
    // as the queue can hold, not for all of them
    let meta_cap = cfg.buffer.unwrap_or(usize::MAX);
    loop {
        for c in clients.iter_mut() {
            drain(c);
        }
        let complete = clients.iter().filter(|c| c.open).all(|c| match pbwire::split_stream(&c.buf) {
            Ok((frames, 0)) => frames.iter().filter(|f| matches!(f, Frame::Metric { .. })).count() >= c.expected.len() - c.optional.len() && frames.iter().filter(|f| matches!(f, Frame::Metadata { .. })).count() >= if c.meta_unjudged { 0 } else { metadata_for(&c.metadata_at_connect).len().min(meta_cap) },
            Ok(_) => false,
            Err(_) => true,
        });
        if complete || t_end.elapsed() > Duration::from_millis(450) {
            break;
        }
        std::thread::sleep(Duration::from_millis(3));
    }
    let w = writes(w0);
    // ---- oracle
    let big_buffer = cfg.buffer.map(|b| b >= 64).unwrap_or(true);
    let mut summary = String::new();
    for (ci, c) in clients.iter().chain(past.iter()).enumerate() {
        if !c.ever {
            continue;
        }
        let (frames, trailing) = match pbwire::split_stream(&c.buf) {
            Ok(x) => x,
            Err(e) => return bad("stream-is-not-whole-event-frames", format!("client {}: {} ;; history {:?} config {:?}", ci, e, h, cfg), w),
        };
        if trailing != 0 && c.open {
            return bad("torn-frame", format!("client {}: {} trailing byte(s) that do not form a whole frame after everything was flushed ;; history {:?} config {:?}", ci, trailing, h, cfg), w);
        }
        if std::env::var("C11_DEBUG").is_ok() {
            eprintln!("client {} frames {:?} expected {:?} optional {:?} writes {}", ci, frames, c.expected, c.optional, w);
        }
        // metadata first
        let n_meta = frames.iter().take_while(|f| matches!(f, Frame::Metadata { .. })).count();
        if frames[n_meta..].iter().any(|f| matches!(f, Frame::Metadata { .. })) {
            return bad("metadata-after-metrics", format!("client {}: frames {:?}", ci, frames), w);
        }
        let mut got_meta: Vec<String> = frames[..n_meta].iter().map(|f| format!("{:?}", f)).collect();
        got_meta.sort();
        let mut want_meta: Vec<String> = metadata_for(&c.metadata_at_connect).iter().map(|f| format!("{:?}", f)).collect();
        want_meta.sort();
        let metrics: Vec<&Frame> = frames[n_meta..].iter().collect();
        let want: Vec<Frame> = c.expected.iter().map(|(k, s)| expected_metric(*k, *s)).collect();
        let want_optional: Vec<bool> = c.expected.iter().map(|(_, s)| c.optional.contains(s)).collect();
        // a client that closed before the end may have missed frames sent after its last read: only judge frames up to what it read
        let complete = c.open;
        if complete && !cfg.plan.iter().any(|p| p.1 != 0) || big_buffer {
            // metadata is only guaranteed complete when nothing was discarded for the client
            if complete && !c.meta_unjudged && got_meta != want_meta && (big_buffer || !cfg.plan.iter().any(|p| p.1 != 0)) {
                return bad("metadata-at-connect-wrong", format!("client {}: metadata frames {:?}, expected {:?} ;; history {:?} config {:?}", ci, got_meta, want_meta, h, cfg), w);
            }
        }
        // metric frames: in order, no duplicates, only expected ones
        let mut wi = 0;
        let mut missing = 0usize;
        for m in &metrics {
            let mut found = false;
            while wi < want.len() {
                wi += 1;
                if want[wi - 1] == **m {
                    found = true;
                    break;
                }
                if !want_optional[wi - 1] {
                    missing += 1;
                }
            }
            if !found {
                let dup = metrics.iter().filter(|x| **x == *m).count() > 1;
                return bad(if dup { "frame-duplicated" } else { "unexpected-or-reordered-frame" }, format!("client {}: received {:?} which is not the next expected frame; received {:?}, emitted while connected {:?} ;; history {:?} config {:?}", ci, m, metrics, want, h, cfg), w);
            }
        }
        missing += (wi..want.len()).filter(|i| !want_optional[*i]).count();
        if complete && missing > 0 {
            // frames may only be missing when more was emitted than the buffer holds while writes were held back
            let held_back = cfg.plan.iter().any(|p| p.1 != 0);
            if big_buffer || !held_back {
                return bad("emitted-frame-not-delivered", format!("client {} stayed connected and reading, {} of {} frames emitted while it was connected never arrived; received {:?}, expected {:?} ;; history {:?} config {:?}", ci, missing, want.len(), metrics, want, h, cfg), w);
            }
        }
        summary.push_str(&format!("c{}:{}m+{}f/{} ", ci, n_meta, metrics.len(), want.len()));
    }
    Outcome { writes: w, bad: None, summary }
}

/// all well-formed histories of exactly `len` events over `nclients` clients
fn histories(len: usize, nclients: usize) -> Vec<Vec<Ev>> {
    fn rec(cur: &mut Vec<Ev>, open: &mut Vec<bool>, len: usize, n: usize, out: &mut Vec<Vec<Ev>>) {
        if cur.len() == len {
            out.push(cur.clone());
            return;
        }
        for i in 0..n {
            if !open[i] {
                // client i+1 connects only after client i was used at least once (symmetry)
                if i == 0 || cur.iter().any(|e| matches!(e, Ev::Connect(j) | Ev::ConnectEmit(j, _) if *j == i - 1)) {
                    cur.push(Ev::Connect(i));
                    open[i] = true;
                    rec(cur, open, len, n, out);
                    open[i] = false;
                    cur.pop();
                    cur.push(Ev::ConnectEmit(i, 0));
                    open[i] = true;
                    rec(cur, open, len, n, out);
                    open[i] = false;
                    cur.pop();
                }
            } else {
                for e in [Ev::Read(i), Ev::Close(i), Ev::Reset(i)] {
                    if matches!(e, Ev::Read(_)) && matches!(cur.last(), Some(Ev::Read(j)) if *j == i) {
                        continue;
                    }
                    cur.push(e);
                    if !matches!(e, Ev::Read(_)) {
                        open[i] = false;
                    }
                    rec(cur, open, len, n, out);
                    open[i] = true;
                    cur.pop();
                }
            }
        }
        for d in 0..N_DESCR {
            cur.push(Ev::Describe(d));
            rec(cur, open, len, n, out);
            cur.pop();
        }
        // emit kinds: the first two always, the others only as the first emit of a history (keeps the space small, covers all six)
        let emitted = cur.iter().filter(|e| matches!(e, Ev::Emit(_))).count();
        for k in 0..N_EMIT {
            if k >= 2 && emitted != 0 {
                continue;
            }
            cur.push(Ev::Emit(k));
            rec(cur, open, len, n, out);
            cur.pop();
        }
    }
    let mut out = Vec::new();
    rec(&mut Vec::new(), &mut vec![false; nclients], len, nclients, &mut out);
    out
}

fn sweep(ctx: &Ctx, res: &mut PartResult, len: usize, nclients: usize, buffer: Option<usize>, dev_bound: usize, dev_len: usize, shard: usize, shards: usize) {
    res.engine = "E4 enumeration of client/emit event histories (+ deviation-bounded write answers) against the real transport thread".into();
    std::panic::set_hook(Box::new(|i| {
        if std::thread::current().name() == Some("main") {
            eprintln!("harness panic: {}", i);
        }
    }));
    let mut states = vseq::States::new();
    let hs: Vec<Vec<Ev>> = (1..=len).flat_map(|l| histories(l, nclients)).collect();
    let replay = ctx.replay.clone();
    let mut done = 0usize;
    for (hi, h) in hs.iter().enumerate() {
        if hi % shards != shard {
            continue;
        }
        if let Some(rp) = &replay {
            if rp["history"] != json!(format!("{:?}", h)) {
                continue;
            }
        }
        if ctx.over_budget() || done > 60000 {
            res.cap_hit = Some(if done > 60000 { "history cap per process".into() } else { "budget (cpu time of the part)".into() });
            res.exhaustive = false;
            break;
        }
        // deviation bound 0
        let base = Config { buffer, plan: vec![], batch: None };
        let o = run_history(h, &base);
        done += 1;
        res.executions += 1;
        res.transitions += h.len() as u64 + 1;
        states.add(&o.summary);
        if let Some((sig, msg)) = o.bad {
            let dead = sig == "exporter-does-not-serve" && msg.starts_with("buffer_size(");
            res.violation(&sig, msg, json!({"history": format!("{:?}", h), "plan": []}));
            if dead {
                res.exhaustive = false;
                res.cap_hit = Some("the exporter never served for this buffer configuration: remaining histories skipped".into());
                break;
            }
            continue;
        }
        // deviations: only histories in which something is fanned out to a connected client
        let fanout = h.iter().any(|e| matches!(e, Ev::Emit(_))) && h.iter().any(|e| matches!(e, Ev::Connect(_)));
        if dev_bound >= 1 && fanout && o.writes > 0 && h.len() <= dev_len {
            let nw = (o.writes as usize).min(6);
            let mut plans: Vec<Vec<(usize, u8)>> = Vec::new();
            for i in 0..nw {
                for k in 1..=3u8 {
                    plans.push(vec![(i, k)]);
                    if dev_bound >= 2 {
                        for j in i + 1..nw {
                            for k2 in 1..=3u8 {
                                plans.push(vec![(i, k), (j, k2)]);
                            }
                        }
                    }
                }
            }
            for p in plans {
                if let Some(rp) = &replay {
                    if rp["plan"] != json!(p) {
                        continue;
                    }
                }
                let o = run_history(h, &Config { buffer, plan: p.clone(), batch: None });
                done += 1;
                res.executions += 1;
                res.transitions += h.len() as u64 + 1;
                states.add(&(o.summary.clone(), p.len()));
                if let Some((sig, msg)) = o.bad {
                    res.violation(&sig, msg, json!({"history": format!("{:?}", h), "plan": p}));
                    break;
                }
            }
        }
    }
    res.states = states.len();
    res.distinct_outcomes = states.len();
    res.bound = json!({"max_events": len, "clients": nclients, "buffer_size": format!("{:?}", buffer), "write_deviation_bound": dev_bound, "deviations_on_histories_up_to": dev_len, "histories_total": hs.len(), "shard": format!("{}/{}", shard, shards)});
    res.sample(json!({"history": format!("{:?}", hs[hs.len() / 2]), "buffer": format!("{:?}", buffer)}));
}

/// Batched histories: the same histories, with every contiguous run of >= 2 events performed while the transport thread
/// is parked between two polls, so that the exporter meets them in ONE batch of poll events (a metric wake-up, an accept
/// and a client's reset side by side), in the order they were caused. Runs whose channel traffic exceeds the buffer are
/// left out (the bounded channel legitimately drops then); no deviating write answers here.
fn batched(ctx: &Ctx, res: &mut PartResult, len: usize, nclients: usize, buffer: Option<usize>, shard: usize, shards: usize) {
    res.engine = "E4 enumeration of client/emit event histories with every contiguous run of events delivered to the transport thread as one poll batch".into();
    let mut states = vseq::States::new();
    let hs: Vec<Vec<Ev>> = (2..=len).flat_map(|l| histories(l, nclients)).collect();
    let replay = ctx.replay.clone();
    let mut n = 0usize;
    let mut total = 0usize;
    'outer: for h in hs.iter() {
        for a in 0..h.len() {
            for b in a + 2..=h.len() {
                let run = &h[a..b];
                if run.iter().any(|e| matches!(e, Ev::ConnectEmit(..))) {
                    continue;
                }
                let msgs: usize = run.iter().map(|e| match e { Ev::Emit(_) => 1, Ev::Describe(1) => 2, Ev::Describe(_) => 1, _ => 0 }).sum();
                if buffer.map(|cap| msgs > cap).unwrap_or(false) {
                    continue;
                }
                // a run of reads only changes nothing for the exporter
                if run.iter().all(|e| matches!(e, Ev::Read(_))) {
                    continue;
                }
                total += 1;
                if (total - 1) % shards != shard {
                    continue;
                }
                if let Some(rp) = &replay {
                    if rp["history"] != json!(format!("{:?}", h)) || rp["batch"] != json!([a, b]) {
                        continue;
                    }
                }
                if ctx.over_budget() {
                    res.cap_hit = Some("budget (cpu time of the part)".into());
                    res.exhaustive = false;
                    break 'outer;
                }
                let o = run_history(h, &Config { buffer, plan: vec![], batch: Some((a, b)) });
                n += 1;
                res.executions += 1;
                res.transitions += h.len() as u64 + 1;
                states.add(&(o.summary.clone(), b - a));
                if let Some((sig, msg)) = o.bad {
                    res.violation(&sig, format!("[events {}..{} in one poll batch] {}", a, b, msg), json!({"history": format!("{:?}", h), "batch": [a, b]}));
                    if sig == "exporter-does-not-serve" && n < 3 {
                        res.exhaustive = false;
                        res.cap_hit = Some("the exporter never served: remaining histories skipped".into());
                        break 'outer;
                    }
                }
            }
        }
    }
    res.states = states.len();
    res.distinct_outcomes = states.len();
    res.bound = json!({"max_events": len, "clients": nclients, "buffer_size": format!("{:?}", buffer), "batched_runs_total": total, "shard": format!("{}/{}", shard, shards)});
    res.sample(json!({"history": "[Connect(0), Connect(1), Emit(0), Reset(0)]", "batch": [2, 4], "meaning": "the metric wake-up and client 0's reset reach the transport thread in one poll batch; client 1 must keep receiving"}));
}

/// one scripted history with real back-pressure: a client stops reading until the exporter really gets EAGAIN
fn backpressure(res: &mut PartResult, buffer: Option<usize>) {
    res.engine = "E4 scripted real back-pressure history".into();
    res.executions = 1;
    res.states = 1;
    res.distinct_outcomes = 1;
    PLAN.lock().unwrap().clear();
    let ex = match start(buffer) {
        Ok(e) => e,
        Err(e) => {
            res.violation("exporter-failed-to-start", e, json!({}));
            return;
        }
    };
    if let Err(e) = barrier(&ex.rec) {
        res.violation("exporter-does-not-serve", format!("buffer_size({:?}): {}", buffer, e), json!({}));
        return;
    }
    // the slow client gets a tiny receive buffer so that the exporter's socket really fills up
    let slow = unsafe {
        use std::os::fd::FromRawFd;
        let fd = libc::socket(libc::AF_INET, libc::SOCK_STREAM | libc::SOCK_CLOEXEC, 0);
        let sz: libc::c_int = 2048;
        libc::setsockopt(fd, libc::SOL_SOCKET, libc::SO_RCVBUF, &sz as *const _ as *const libc::c_void, 4);
        let (ip, port) = match ex.addr {
            SocketAddr::V4(a) => (u32::from(*a.ip()), a.port()),
            _ => unreachable!(),
        };
        let d = libc::sockaddr_in { sin_family: libc::AF_INET as u16, sin_port: port.to_be(), sin_addr: libc::in_addr { s_addr: ip.to_be() }, sin_zero: [0; 8] };
        if libc::connect(fd, &d as *const _ as *const libc::sockaddr, std::mem::size_of::<libc::sockaddr_in>() as u32) != 0 {
            res.error = Some(format!("connect: {}", std::io::Error::last_os_error()));
            return;
        }
        TcpStream::from_raw_fd(fd)
    };
    slow.set_nonblocking(true).unwrap();
    // two more stalled clients and two more reading clients: whatever order the exporter visits its clients in, some
    // reading client comes after some stalled one
    let mut extra_slow: Vec<TcpStream> = Vec::new();
    let mut extra_fast: Vec<Client> = Vec::new();
    for i in 0..4 {
        let c = TcpStream::connect(ex.addr).unwrap();
        c.set_nonblocking(true).unwrap();
        if i % 2 == 0 {
            extra_slow.push(c);
        } else {
            extra_fast.push(Client { stream: Some(c), buf: vec![], metadata_at_connect: vec![], expected: vec![], optional: vec![], open: true, ever: true, meta_unjudged: false });
        }
    }
    let fast = TcpStream::connect(ex.addr).unwrap();
    fast.set_nonblocking(true).unwrap();
    let _ = barrier(&ex.rec);
    let n = 6000u64;
    let mut fast_c = Client { stream: Some(fast), buf: vec![], metadata_at_connect: vec![], expected: vec![], optional: vec![], open: true, ever: true, meta_unjudged: false };
    let fat = "x".repeat(3000);
    let fat_counter = ex.rec.register_counter(&Key::from_parts("c_m", vec![Label::new("pad", fat.clone())]), &META);
    let emit = |_: &TcpRecorder, _: usize, s: u64| fat_counter.increment(s);
    for s in 1..=n {
        emit(&ex.rec, 0, s);
        res.transitions += 1;
        if barrier(&ex.rec).is_err() {
            res.violation("exporter-does-not-serve", "transport stopped responding under back-pressure".into(), json!({}));
            return;
        }
        drain(&mut fast_c);
        for c in extra_fast.iter_mut() {
            drain(c);
        }
    }
    let mut slow_c = Client { stream: Some(slow), buf: vec![], metadata_at_connect: vec![], expected: vec![], optional: vec![], open: true, ever: true, meta_unjudged: false };
    // now the slow client reads everything; keep nudging so that the exporter drives its connection
    for s in n + 1..=n + 200 {
        drain(&mut slow_c);
        emit(&ex.rec, 0, s);
        let _ = barrier(&ex.rec);
        drain(&mut fast_c);
        for c in extra_fast.iter_mut() {
            drain(c);
        }
    }
    // long grace period before judging (Nagle + delayed ACK can hold written frames back for up to 200 ms)
    let t_end = Instant::now();
    while t_end.elapsed() < Duration::from_millis(600) {
        drain(&mut slow_c);
        drain(&mut fast_c);
        for c in extra_fast.iter_mut() {
            drain(c);
        }
        std::thread::sleep(Duration::from_millis(10));
    }
    drop(extra_slow);
    // with no buffer limit configured nothing may ever be discarded, for the stalled client either: once it reads again it
    // receives every frame
    let mut judged: Vec<(&str, &Client, bool)> = vec![("fast", &fast_c, true), ("slow", &slow_c, buffer.is_none())];
    for c in &extra_fast {
        judged.push(("fast(extra)", c, true));
    }
    for (name, c, must_have_all) in judged {
        match pbwire::split_stream(&c.buf) {
            Err(e) => res.violation("stream-is-not-whole-event-frames", format!("{} client: {}", name, e), json!({"backpressure": true})),
            Ok((frames, _trailing)) => {
                res.notes.push(format!("{} client: {} bytes, {} trailing", name, c.buf.len(), _trailing));
                let seqs: Vec<u64> = frames.iter().filter_map(|f| if let Frame::Metric { op, .. } = f { op.trim_start_matches("increment_counter(").trim_end_matches(')').parse().ok() } else { None }).collect();
                if seqs.windows(2).any(|w| w[0] >= w[1]) {
                    res.violation("unexpected-or-reordered-frame", format!("{} client: sequence numbers not strictly increasing", name), json!({"backpressure": true}));
                }
                if must_have_all && seqs.len() as u64 != n + 200 {
                    let have: std::collections::BTreeSet<u64> = seqs.iter().cloned().collect();
                    let missing: Vec<u64> = (1..=n + 200).filter(|x| !have.contains(x)).take(10).collect();
                    res.violation("emitted-frame-not-delivered", format!("the {} client received {} of {} frames (buffer_size({:?}); {}); missing sequence numbers (first 10): {:?}", name, seqs.len(), n + 200, buffer, if name == "slow" { "no limit is configured, so nothing may be discarded for a client that stalls and later reads again" } else { "another client was stalled meanwhile" }, missing), json!({"backpressure": true}));
                }
                if !must_have_all {
                    res.notes.push(if (seqs.len() as u64) < n + 200 { "real back-pressure reached: older frames were discarded for the slow client".into() } else { "no frame was discarded for the slow client (socket buffers absorbed everything)".to_string() });
                }
                if !must_have_all && seqs.last() != Some(&(n + 200)) {
                    res.violation("emitted-frame-not-delivered", format!("the slow client resumed reading but its stream ends at {:?} instead of the latest frame {}", seqs.last(), n + 200), json!({"backpressure": true}));
                }
                res.notes.push(format!("{} client got {} frames", name, seqs.len()));
            }
        }
    }
    res.sample(json!({"history": "slow client stalls for 6000 emits while a fast client reads; then the slow client resumes", "buffer": format!("{:?}", buffer)}));
}

/// A client that has nothing more to send may shut down its sending half (`shutdown(Write)`, what `nc -N` and many
/// request/response clients do) and keep reading: it is still connected and reading, so it keeps receiving every metric,
/// and so does everybody else. Scripted history: two clients connect, 5 emits, client A half-closes, 50 emits.
fn half_closed_client(res: &mut PartResult, buffer: Option<usize>) {
    res.engine = "E4 scripted history: a client half-closes (shutdown(Write)) and keeps reading".into();
    res.executions = 1;
    res.states = 1;
    res.distinct_outcomes = 1;
    PLAN.lock().unwrap().clear();
    let ex = match start(buffer) {
        Ok(e) => e,
        Err(e) => {
            res.violation("exporter-failed-to-start", e, json!({}));
            return;
        }
    };
    let mk = |addr: SocketAddr| -> Client {
        let c = TcpStream::connect(addr).unwrap();
        c.set_nonblocking(true).unwrap();
        Client { stream: Some(c), buf: vec![], metadata_at_connect: vec![], expected: vec![], optional: vec![], open: true, ever: true, meta_unjudged: false }
    };
    let mut a = mk(ex.addr);
    let mut b = mk(ex.addr);
    let _ = barrier(&ex.rec);
    let c = ex.rec.register_counter(&Key::from_name("c_m"), &META);
    let total = 55u64;
    for sq in 1..=total {
        if sq == 6 {
            let _ = a.stream.as_ref().unwrap().shutdown(std::net::Shutdown::Write);
            let _ = barrier(&ex.rec);
            let _ = barrier(&ex.rec);
        }
        c.increment(sq);
        res.transitions += 1;
        if barrier(&ex.rec).is_err() {
            res.violation("exporter-does-not-serve", "transport stopped responding".into(), json!({"half_close": true}));
            return;
        }
        drain(&mut a);
        drain(&mut b);
    }
    let t_end = Instant::now();
    while t_end.elapsed() < Duration::from_millis(400) {
        drain(&mut a);
        drain(&mut b);
        std::thread::sleep(Duration::from_millis(10));
    }
    for (name, cl) in [("half-closed", &a), ("other", &b)] {
        match pbwire::split_stream(&cl.buf) {
            Err(e) => res.violation("stream-is-not-whole-event-frames", format!("{} client: {}", name, e), json!({"half_close": true})),
            Ok((frames, _)) => {
                let seqs: Vec<u64> = frames.iter().filter_map(|f| if let Frame::Metric { op, .. } = f { op.trim_start_matches("increment_counter(").trim_end_matches(')').parse().ok() } else { None }).collect();
                // buffer_size(Some(1)) may legitimately drop older frames between two barriers; the newest must arrive
                let complete = seqs == (1..=total).collect::<Vec<u64>>();
                let ok = if buffer == Some(1) || buffer == Some(2) { seqs.last() == Some(&total) && seqs.windows(2).all(|w| w[0] < w[1]) } else { complete };
                if !ok {
                    res.violation("emitted-frame-not-delivered", format!("buffer_size({:?}): two clients connect, 5 emits, client A shuts down its SENDING half and keeps reading, 50 more emits: the {} client received sequence numbers {:?} (expected 1..={})", buffer, name, seqs, total), json!({"half_close": true}));
                }
                res.notes.push(format!("{} client got {} frames", name, seqs.len()));
            }
        }
    }
    res.sample(json!({"history": "connect A, B; 5 emits; A.shutdown(Write); 50 emits", "expected": "both receive 1..=55", "buffer": format!("{:?}", buffer)}));
}

/// Emits must reach a connected, reading client without anybody else waking the transport thread: the harness's
/// quiescence barrier wakes it, so the event histories cannot see a wake-up the exporter forgot. Here nothing but the
/// emits themselves ever wakes it: 12 rounds of two back-to-back counter increments (one with a tiny key, one with a key
/// of 20 000 labels, whose clone widens every window between "look at the channel" and "send"), each round awaited
/// without any nudge. Only if a frame is still missing after 5 s with the transport thread idle is it woken by hand:
/// a frame that arrives then was stranded, one that still does not was lost.
fn unaided_delivery(res: &mut PartResult, buffer: Option<usize>) {
    res.engine = "E4 emits with no other wake-up source, against the real transport thread".into();
    let ex = match start(buffer) {
        Ok(e) => e,
        Err(e) => {
            res.violation("exporter-failed-to-start", e, json!({"unaided": true}));
            return;
        }
    };
    let _ = barrier(&ex.rec);
    let mut s = match TcpStream::connect_timeout(&ex.addr, Duration::from_secs(5)) {
        Ok(s) => s,
        Err(e) => {
            res.violation("connect-not-answered", format!("connect failed: {}", e), json!({"unaided": true}));
            return;
        }
    };
    s.set_nonblocking(true).unwrap();
    let _ = barrier(&ex.rec);
    let small = ex.rec.register_counter(&Key::from_name("small"), &META);
    let big_key = Key::from_parts("big", (0..20_000).map(|i| Label::new(format!("l{:05}", i), "v")).collect::<Vec<_>>());
    let big = ex.rec.register_counter(&big_key, &META);
    let mut buf: Vec<u8> = Vec::new();
    let mut seen_small = 0u64;
    let mut seen_big = 0u64;
    let mut states = vseq::States::new();
    let mut pump = |s: &mut TcpStream, buf: &mut Vec<u8>, seen_small: &mut u64, seen_big: &mut u64| {
        let mut tmp = vec![0u8; 1 << 16];
        loop {
            match s.read(&mut tmp) {
                Ok(0) => break,
                Ok(n) => buf.extend_from_slice(&tmp[..n]),
                Err(_) => break,
            }
        }
        if let Ok((frames, rest)) = pbwire::split_stream(buf) {
            for f in &frames {
                if let Frame::Metric { name, .. } = f {
                    if name == "small" {
                        *seen_small += 1;
                    } else if name == "big" {
                        *seen_big += 1;
                    }
                }
            }
            let keep = buf.len() - rest;
            buf.drain(..keep);
        }
    };
    for round in 1..=12u64 {
        res.executions += 1;
        res.transitions += 2;
        small.increment(round);
        big.increment(round);
        let t0 = Instant::now();
        let mut last_batches = ex.rec.verif_batches_done();
        let mut idle_since = Instant::now();
        loop {
            pump(&mut s, &mut buf, &mut seen_small, &mut seen_big);
            if seen_small >= round && seen_big >= round {
                break;
            }
            let b = ex.rec.verif_batches_done();
            if b != last_batches {
                last_batches = b;
                idle_since = Instant::now();
            }
            if t0.elapsed() > Duration::from_secs(5) && idle_since.elapsed() > Duration::from_secs(2) {
                // the transport thread has been idle for 2 s with a frame outstanding: wake it by hand and look again
                ex.rec.verif_wake();
                let t1 = Instant::now();
                while t1.elapsed() < Duration::from_secs(3) && !(seen_small >= round && seen_big >= round) {
                    pump(&mut s, &mut buf, &mut seen_small, &mut seen_big);
                    std::thread::sleep(Duration::from_millis(2));
                }
                let sig = if seen_small >= round && seen_big >= round { "metric-stranded-until-unrelated-wakeup" } else { "emitted-frame-not-delivered" };
                res.violation(sig, format!("buffer {:?}, round {}: after two back-to-back emits the reading client had {} small / {} big frames 5 s later with the transport thread idle; after a manual wake-up it has {} / {}", buffer, round, seen_small, seen_big, seen_small, seen_big), json!({"unaided": true}));
                return;
            }
            std::thread::sleep(Duration::from_millis(1));
        }
        states.add(&(seen_small, seen_big));
    }
    res.states = states.len();
    res.distinct_outcomes = states.len();
    res.bound = json!({"rounds": 12, "emits_per_round": 2, "big_key_labels": 20000, "buffer_size": format!("{:?}", buffer)});
    res.sample(json!({"round": "small.increment(n); big.increment(n); wait for both frames without waking the transport thread"}));
}

fn parts(ctx: &Ctx) -> Vec<PartSpec> {
    let mut v = Vec::new();
    let b = if ctx.quick() { 160.0 } else { 2400.0 };
    let buffers: [(&str, Option<usize>); 4] = [("1", Some(1)), ("2", Some(2)), ("1024", Some(1024)), ("none", None)];
    for (bn, bv) in buffers {
        let bj = bv.map(|x| json!(x)).unwrap_or(json!(null));
        if ctx.quick() {
            let shards = 3;
            for s in 0..shards {
                v.push(PartSpec::new(&format!("histories-len4-2clients-buffer{}-shard{}", bn, s), json!({"len": 4, "clients": 2, "buffer": bj, "dev": 1, "devlen": 3, "shard": s, "shards": shards})).budget(b));
            }
        } else {
            let shards = 28;
            for s in 0..shards {
                v.push(PartSpec::new(&format!("histories-len6-3clients-buffer{}-shard{}", bn, s), json!({"len": 6, "clients": 3, "buffer": bj, "dev": if bv == Some(1024) { 2 } else { 1 }, "devlen": 4, "shard": s, "shards": shards})).budget(b));
            }
        }
        if ctx.quick() {
            for sh in 0..3 {
                v.push(PartSpec::new(&format!("batched-len4-2clients-buffer{}-shard{}", bn, sh), json!({"batched": true, "len": 4, "clients": 2, "buffer": bj, "shard": sh, "shards": 3})).budget(b));
            }
        } else {
            for sh in 0..14 {
                v.push(PartSpec::new(&format!("batched-len5-3clients-buffer{}-shard{}", bn, sh), json!({"batched": true, "len": 5, "clients": 3, "buffer": bj, "shard": sh, "shards": 14})).budget(b));
            }
        }
        if ctx.quick() && (bv == Some(1) || bv == Some(2)) {
            // two deviating answers on the shortest fan-out histories: partial write followed by would-block etc.
            v.push(PartSpec::new(&format!("histories-len3-1client-buffer{}-dev2", bn), json!({"len": 3, "clients": 1, "buffer": bj, "dev": 2, "devlen": 3, "shard": 0, "shards": 1})).budget(b));
        }
        v.push(PartSpec::new(&format!("backpressure-buffer{}", bn), json!({"bp": true, "buffer": bj})).budget(120.0));
        v.push(PartSpec::new(&format!("half-closed-client-buffer{}", bn), json!({"halfclose": true, "buffer": bj})).budget(120.0));
        if bv != Some(1) {
            // (with buffer 1 two back-to-back emits exceed the rate the buffer allows)
            v.push(PartSpec::new(&format!("unaided-delivery-buffer{}", bn), json!({"unaided": true, "buffer": bj})).budget(120.0));
        }
    }
    for (i, p) in v.iter_mut().enumerate() {
        p.arg["net"] = json!(i);
    }
    v
}

/// debugging aid (C11_DEBUG=1): prints the exporter's own trace events to stderr
struct DebugPrint;
impl<S: tracing::Subscriber> tracing_subscriber::Layer<S> for DebugPrint {
    fn on_event(&self, ev: &tracing::Event<'_>, _: tracing_subscriber::layer::Context<'_, S>) {
        struct V(String);
        impl tracing::field::Visit for V {
            fn record_debug(&mut self, f: &tracing::field::Field, v: &dyn std::fmt::Debug) {
                self.0.push_str(&format!(" {}={:?}", f.name(), v));
            }
        }
        let mut v = V(String::new());
        ev.record(&mut v);
        eprintln!("[{:?}] {}{}", std::thread::current().id(), ev.metadata().target(), v.0);
    }
}

fn run(ctx: &Ctx, spec: &PartSpec) -> PartResult {
    if std::env::var("C11_DEBUG").is_ok() {
        use tracing_subscriber::layer::SubscriberExt;
        let _ = tracing::subscriber::set_global_default(tracing_subscriber::registry().with(DebugPrint));
    }
    let mut res = PartResult::new(&spec.name, "");
    NET.store(spec.arg["net"].as_u64().unwrap_or(0) as usize, std::sync::atomic::Ordering::SeqCst);
    let buffer = spec.arg["buffer"].as_u64().map(|x| x as usize);
    if spec.arg["batched"].as_bool() == Some(true) {
        batched(ctx, &mut res, spec.arg["len"].as_u64().unwrap_or(4) as usize, spec.arg["clients"].as_u64().unwrap_or(2) as usize, buffer, spec.arg["shard"].as_u64().unwrap_or(0) as usize, spec.arg["shards"].as_u64().unwrap_or(1) as usize);
    } else if spec.arg["unaided"].as_bool() == Some(true) {
        unaided_delivery(&mut res, buffer);
    } else if spec.arg["halfclose"].as_bool() == Some(true) {
        half_closed_client(&mut res, buffer);
    } else if spec.arg["bp"].as_bool() == Some(true) {
        backpressure(&mut res, buffer);
    } else {
        sweep(ctx, &mut res, spec.arg["len"].as_u64().unwrap_or(4) as usize, spec.arg["clients"].as_u64().unwrap_or(2) as usize, buffer, spec.arg["dev"].as_u64().unwrap_or(0) as usize, spec.arg["devlen"].as_u64().unwrap_or(3) as usize, spec.arg["shard"].as_u64().unwrap_or(0) as usize, spec.arg["shards"].as_u64().unwrap_or(1) as usize);
    }
    res
}

fn main() {
    driver::main(CheckDef {
        prop: "C11",
        level: "model_checking",
        rule: "every well-formed history of at most N events over {connect(i), connect(i) immediately followed by an emit (no barrier: the accept and the metric can share a wake-up), read(i), close(i), reset(i) (SO_LINGER 0), describe(counter | gauge + histogram), emit(10 operations incl. labels, a zero increment / absolute, a NaN gauge value, an infinite sample)} with 2-3 clients, for buffer_size in {Some(1), Some(2), Some(1024), None}, against a fresh real exporter (public TcpBuilder::build) with a quiescence barrier after every event (wake; wait for a fully processed batch; twice), plus for fan-out histories every assignment of at most d deviating answers {Short(1), Short(5), WouldBlock} to the exporter's first write calls (deviation-bounded, default Full); every client's byte stream is decoded by an independent protobuf wire parser: whole frames only, metadata known at connect first, then exactly the emits issued while connected, in order, intact, no duplicates (with a small buffer and held-back writes only older frames may be missing); the same histories with every contiguous run of >= 2 events delivered to the transport thread as ONE poll batch (the thread is parked between two polls by a hook while the harness causes them; runs whose channel traffic exceeds the buffer excluded); one scripted history per buffer config in which a client shuts down its sending half and keeps reading (it and the other client receive everything); one scripted real back-pressure history per buffer config (with no limit configured the stalled client, too, receives every frame once it reads again); per buffer config 12 rounds of two back-to-back emits awaited with no other wake-up source (lost wake-ups); distinct = distinct per-client delivery summaries",
        assumptions: &["kernel / mio readiness order inside one epoll batch is not enumerated: one harness event at a time, exporter run to quiescence in between", "Interrupted is not in the write-answer alphabet (a non-blocking socket write cannot return EINTR on Linux)", "every history ends with one extra emit so that frames held back by an injected short or would-block answer are driven out"],
        parts,
        run,
    });
}
