//! (to be filled)
