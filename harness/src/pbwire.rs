//! Independent protobuf wire-format decoder for the TCP exporter's `Event` stream (fields by number from
//! `metrics-exporter-tcp/proto/event.proto`), written from the wire-format specification.
#[derive(Clone, Debug, PartialEq)]
pub enum Frame {
    Metadata { name: String, metric_type: u64, unit: Option<String>, description: Option<String> },
    Metric { name: String, labels: Vec<(String, String)>, op: String, has_timestamp: bool },
}

fn varint(b: &[u8], pos: &mut usize) -> Result<u64, String> {
    let mut v: u64 = 0;
    let mut shift = 0;
    loop {
        let byte = *b.get(*pos).ok_or("truncated varint")?;
        *pos += 1;
        v |= ((byte & 0x7f) as u64) << shift;
        if byte & 0x80 == 0 {
            return Ok(v);
        }
        shift += 7;
        if shift > 63 {
            return Err("varint too long".into());
        }
    }
}

/// (field number, wire type, payload) triples of one message
fn fields(b: &[u8]) -> Result<Vec<(u64, u8, Vec<u8>, u64)>, String> {
    let mut out = Vec::new();
    let mut pos = 0;
    while pos < b.len() {
        let tag = varint(b, &mut pos)?;
        let (num, wt) = (tag >> 3, (tag & 7) as u8);
        match wt {
            0 => {
                let v = varint(b, &mut pos)?;
                out.push((num, wt, vec![], v));
            }
            1 => {
                let s = b.get(pos..pos + 8).ok_or("truncated fixed64")?;
                pos += 8;
                out.push((num, wt, s.to_vec(), u64::from_le_bytes(s.try_into().unwrap())));
            }
            2 => {
                let n = varint(b, &mut pos)? as usize;
                let s = b.get(pos..pos + n).ok_or("truncated length-delimited field")?;
                pos += n;
                out.push((num, wt, s.to_vec(), 0));
            }
            5 => {
                let s = b.get(pos..pos + 4).ok_or("truncated fixed32")?;
                pos += 4;
                out.push((num, wt, s.to_vec(), 0));
            }
            w => return Err(format!("unsupported wire type {}", w)),
        }
    }
    Ok(out)
}

fn utf8(b: &[u8]) -> Result<String, String> {
    String::from_utf8(b.to_vec()).map_err(|_| "string field is not utf-8".to_string())
}

pub fn decode_event(b: &[u8]) -> Result<Frame, String> {
    let top = fields(b)?;
    if top.len() != 1 {
        return Err(format!("Event with {} fields (exactly one of metadata / metric expected)", top.len()));
    }
    let (num, wt, payload, _) = &top[0];
    if *wt != 2 {
        return Err("Event field is not a message".into());
    }
    let fs = fields(payload)?;
    match num {
        1 => {
            let mut name = String::new();
            let mut ty = 0;
            let mut unit = None;
            let mut desc = None;
            for (n, _, p, v) in fs {
                match n {
                    1 => name = utf8(&p)?,
                    2 => ty = v,
                    3 => unit = Some(utf8(&p)?),
                    4 => desc = Some(utf8(&p)?),
                    other => return Err(format!("unknown Metadata field {}", other)),
                }
            }
            Ok(Frame::Metadata { name, metric_type: ty, unit, description: desc })
        }
        2 => {
            let mut name = String::new();
            let mut labels = Vec::new();
            let mut op: Option<String> = None;
            let mut ts = false;
            for (n, _, p, v) in fs {
                match n {
                    1 => name = utf8(&p)?,
                    2 => ts = true,
                    3 => {
                        let kv = fields(&p)?;
                        let mut k = String::new();
                        let mut val = String::new();
                        for (kn, _, kp, _) in kv {
                            match kn {
                                1 => k = utf8(&kp)?,
                                2 => val = utf8(&kp)?,
                                _ => return Err("unknown map entry field".into()),
                            }
                        }
                        labels.push((k, val));
                    }
                    4 => op = Some(format!("increment_counter({})", v)),
                    5 => op = Some(format!("set_counter({})", v)),
                    6 => op = Some(format!("increment_gauge({})", f64::from_bits(v))),
                    7 => op = Some(format!("decrement_gauge({})", f64::from_bits(v))),
                    8 => op = Some(format!("set_gauge({})", f64::from_bits(v))),
                    9 => op = Some(format!("record_histogram({})", f64::from_bits(v))),
                    other => return Err(format!("unknown Metric field {}", other)),
                }
            }
            labels.sort();
            Ok(Frame::Metric { name, labels, op: op.ok_or("Metric without operation")?, has_timestamp: ts })
        }
        other => Err(format!("unknown Event field {}", other)),
    }
}

/// Splits a byte stream into varint-length-delimited frames. Returns (frames, trailing bytes that do not form a whole frame).
pub fn split_stream(b: &[u8]) -> Result<(Vec<Frame>, usize), String> {
    let mut out = Vec::new();
    let mut pos = 0;
    loop {
        if pos == b.len() {
            return Ok((out, 0));
        }
        let start = pos;
        let mut p = pos;
        let n = match varint(b, &mut p) {
            Ok(n) => n as usize,
            Err(_) => return Ok((out, b.len() - start)),
        };
        if p + n > b.len() {
            return Ok((out, b.len() - start));
        }
        out.push(decode_event(&b[p..p + n]).map_err(|e| format!("frame at byte {}: {}", start, e))?);
        pos = p + n;
    }
}
