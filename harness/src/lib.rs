//! vcore: shared machinery of the /verif checks.
//!
//! * `driver`  — part/child-process orchestration, evidence, known findings, exit codes
//! * `vsched`  — E1: controlled scheduler over real threads + preemption-bounded DFS
//! * `vseq`    — E3: bounded exhaustive sequence / input enumeration helpers
//! * `promtext`, `statsd`, `pbwire` — independent parsers used as oracles
pub mod driver;
pub mod dsd;
pub mod loompart;
pub mod pbwire;
pub mod promtext;
pub mod statsd;
pub mod talloc;
pub mod vseq;
pub mod vsched;

pub use driver::{Ctx, PartResult, PartSpec, Violation};
pub use serde_json::{json, Value};
