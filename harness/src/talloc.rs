//! Tracking allocator for the memory oracles (C14): while armed it
//! * records every live block allocated since arming,
//! * never hands a freed block back for reuse: freed blocks are poison-filled (0xDD) and quarantined until
//!   `disarm()`, so a read of freed memory shows up as a content mismatch instead of undefined behaviour,
//! * records — instead of performing — an invalid or double `dealloc`.
//! A binary opts in with `#[global_allocator] static A: vcore::talloc::Tracking = vcore::talloc::Tracking;`
use std::alloc::{GlobalAlloc, Layout, System};
use std::cell::Cell;
use std::sync::atomic::{AtomicBool, Ordering};
use std::sync::Mutex;

pub struct Tracking;

static ARMED: AtomicBool = AtomicBool::new(false);
thread_local! { static INSIDE: Cell<bool> = const { Cell::new(false) }; }

#[derive(Default)]
pub struct State {
    live: Vec<(usize, usize)>,       // (ptr, size) allocated while armed and not freed
    quarantine: Vec<(usize, usize, usize)>, // (ptr, size, align) freed while armed
    pub double_free: u64,
    pub invalid_free: u64,
    pub size_mismatch: u64,
    pub allocs: u64,
    pub frees: u64,
}
static STATE: Mutex<Option<State>> = Mutex::new(None);

fn with_state<R>(f: impl FnOnce(&mut State) -> R) -> Option<R> {
    // bookkeeping allocations must not be tracked (and must not recurse)
    let already = INSIDE.with(|i| i.replace(true));
    if already {
        return None;
    }
    let r = {
        let mut g = STATE.lock().unwrap_or_else(|e| e.into_inner());
        g.as_mut().map(f)
    };
    INSIDE.with(|i| i.set(false));
    r
}

unsafe impl GlobalAlloc for Tracking {
    unsafe fn alloc(&self, layout: Layout) -> *mut u8 {
        let p = System.alloc(layout);
        if ARMED.load(Ordering::Relaxed) && !p.is_null() {
            with_state(|s| {
                s.allocs += 1;
                s.live.push((p as usize, layout.size()));
            });
        }
        p
    }
    unsafe fn dealloc(&self, ptr: *mut u8, layout: Layout) {
        if ARMED.load(Ordering::Relaxed) {
            let handled = with_state(|s| {
                let a = ptr as usize;
                if let Some(i) = s.live.iter().position(|b| b.0 == a) {
                    let (_, size) = s.live.swap_remove(i);
                    if size != layout.size() {
                        s.size_mismatch += 1;
                    }
                    s.frees += 1;
                    std::ptr::write_bytes(ptr, 0xDD, size);
                    s.quarantine.push((a, size, layout.align()));
                    true
                } else if s.quarantine.iter().any(|b| b.0 == a) {
                    s.double_free += 1;
                    true
                } else if s.quarantine.iter().any(|b| a > b.0 && a < b.0 + b.1) || s.live.iter().any(|b| a > b.0 && a < b.0 + b.1) {
                    s.invalid_free += 1; // pointer into the middle of a tracked block
                    true
                } else {
                    false // allocated before arming: not ours to judge
                }
            });
            if handled == Some(true) {
                return;
            }
        }
        System.dealloc(ptr, layout)
    }
    unsafe fn realloc(&self, ptr: *mut u8, layout: Layout, new_size: usize) -> *mut u8 {
        if ARMED.load(Ordering::Relaxed) {
            // allocate-copy-free so that the old block is quarantined like any other freed block
            let new_layout = Layout::from_size_align_unchecked(new_size, layout.align());
            let np = self.alloc(new_layout);
            if !np.is_null() {
                std::ptr::copy_nonoverlapping(ptr, np, layout.size().min(new_size));
                self.dealloc(ptr, layout);
            }
            return np;
        }
        System.realloc(ptr, layout, new_size)
    }
}

/// Start tracking (fresh state).
pub fn arm() {
    INSIDE.with(|i| i.set(true));
    *STATE.lock().unwrap_or_else(|e| e.into_inner()) = Some(State { live: Vec::with_capacity(256), quarantine: Vec::with_capacity(256), ..Default::default() });
    INSIDE.with(|i| i.set(false));
    ARMED.store(true, Ordering::SeqCst);
}

pub struct Report {
    pub live_blocks: usize,
    pub live_bytes: usize,
    pub double_free: u64,
    pub invalid_free: u64,
    pub size_mismatch: u64,
    pub allocs: u64,
    pub frees: u64,
}

/// Number of tracked blocks currently live.
pub fn live_blocks() -> usize {
    with_state(|s| s.live.len()).unwrap_or(0)
}

/// Stop tracking, release the quarantine, report.
pub fn disarm() -> Report {
    ARMED.store(false, Ordering::SeqCst);
    INSIDE.with(|i| i.set(true));
    let st = STATE.lock().unwrap_or_else(|e| e.into_inner()).take().unwrap_or_default();
    for (p, size, align) in &st.quarantine {
        unsafe { System.dealloc(*p as *mut u8, Layout::from_size_align_unchecked(*size, *align)) };
    }
    let rep = Report { live_blocks: st.live.len(), live_bytes: st.live.iter().map(|b| b.1).sum(), double_free: st.double_free, invalid_free: st.invalid_free, size_mismatch: st.size_mismatch, allocs: st.allocs, frees: st.frees };
    drop(st);
    INSIDE.with(|i| i.set(false));
    rep
}
