//! Orchestration shared by every check binary.
//!
//! A check is a list of *parts*; every part runs in its own child process (one schedule exploration per
//! process, panics/aborts isolated, parts run in parallel on the available cores) and returns a `PartResult`
//! as JSON. The parent merges the results, consults `/verif/known_findings.json`, writes
//! `/verif/evidence/<id>.json`, prints `VIOLATION` / `KNOWN-FINDING` lines and sets the exit code:
//! 0 = property held on everything explored (known findings aside), 1 = violation, 2 = machinery error.
use serde_json::{json, Value};
use std::collections::{BTreeMap, BTreeSet};
use std::io::Write;
use std::path::PathBuf;
use std::process::{Command, Stdio};
use std::time::{Duration, Instant};

#[derive(Clone, Copy, PartialEq, Eq, Debug)]
pub enum Tier {
    Quick,
    Thorough,
}

pub struct Ctx {
    pub prop: String,
    pub tier: Tier,
    pub seed: u64,
    pub root: PathBuf,
    /// replay payload when a single recorded case is to be re-run
    pub replay: Option<Value>,
    pub started: Instant,
    /// soft wall budget (seconds) for the part: engines stop and report `cap_hit` when exceeded
    pub budget_s: f64,
}

impl Ctx {
    pub fn quick(&self) -> bool {
        self.tier == Tier::Quick
    }
    /// The budget is counted in CPU time of this part process, so that a loaded machine (other checks running next to
    /// this one) does not silently shrink the explored space; wall time only bounds it at 5x (parts that mostly wait).
    pub fn over_budget(&self) -> bool {
        // the process CPU clock is a real system call: ask it on every 64th call, or when 20 ms of wall time have
        // passed since the last answer (the wall clock is read without entering the kernel)
        use std::sync::atomic::{AtomicBool, AtomicU64, Ordering::Relaxed};
        static CALLS: AtomicU64 = AtomicU64::new(0);
        static LAST_US: AtomicU64 = AtomicU64::new(0);
        static OVER: AtomicBool = AtomicBool::new(false);
        if OVER.load(Relaxed) {
            return true;
        }
        let n = CALLS.fetch_add(1, Relaxed);
        let now_us = self.started.elapsed().as_micros() as u64;
        if n % 64 != 0 && now_us.saturating_sub(LAST_US.load(Relaxed)) < 20_000 {
            return false;
        }
        LAST_US.store(now_us, Relaxed);
        let over = cpu_seconds() > self.budget_s || self.started.elapsed().as_secs_f64() > 5.0 * self.budget_s;
        if over {
            OVER.store(true, Relaxed);
        }
        over
    }
    pub fn run_dir(&self) -> PathBuf {
        let d = self.root.join("run");
        let _ = std::fs::create_dir_all(&d);
        d
    }
}

/// CPU time (user + system, all threads) consumed by this process so far.
pub fn cpu_seconds() -> f64 {
    let mut ts = libc::timespec { tv_sec: 0, tv_nsec: 0 };
    unsafe {
        libc::clock_gettime(libc::CLOCK_PROCESS_CPUTIME_ID, &mut ts);
    }
    ts.tv_sec as f64 + ts.tv_nsec as f64 / 1e9
}

/// CPU time (user + system) of another process, from /proc (None once it is gone).
pub fn cpu_seconds_of(pid: u32) -> Option<f64> {
    let s = std::fs::read_to_string(format!("/proc/{}/stat", pid)).ok()?;
    let rest = &s[s.rfind(')')? + 1..];
    let f: Vec<&str> = rest.split_whitespace().collect();
    let ticks: f64 = f.get(11)?.parse::<f64>().ok()? + f.get(12)?.parse::<f64>().ok()?;
    Some(ticks / unsafe { libc::sysconf(libc::_SC_CLK_TCK) } as f64)
}

#[derive(Clone, Debug)]
pub struct PartSpec {
    pub name: String,
    pub arg: Value,
    /// soft budget handed to the engine
    pub budget_s: f64,
    /// run the part's process pinned to these CPUs (`taskset -c`): fixes `available_parallelism`, hence shard counts
    pub cpus: Option<String>,
}

impl PartSpec {
    pub fn new(name: &str, arg: Value) -> Self {
        PartSpec { name: name.to_string(), arg, budget_s: 0.0, cpus: None }
    }
    pub fn cpus(mut self, c: &str) -> Self {
        self.cpus = Some(c.to_string());
        self
    }
    pub fn budget(mut self, s: f64) -> Self {
        self.budget_s = s;
        self
    }
}

#[derive(Clone, Debug)]
pub struct Violation {
    /// coarse, stable class of the failing case (what known_findings.json is keyed on)
    pub signature: String,
    pub message: String,
    /// everything needed to re-run exactly this case
    pub replay: Value,
}

#[derive(Clone, Debug, Default)]
pub struct PartResult {
    pub name: String,
    pub engine: String,
    /// executions of real code (schedules / sequences / inputs / histories)
    pub executions: u64,
    pub states: u64,
    pub transitions: u64,
    pub distinct_outcomes: u64,
    pub exhaustive: bool,
    pub bound: Value,
    pub cap_hit: Option<String>,
    pub samples: Vec<Value>,
    pub violations: Vec<Violation>,
    /// number of failing executions (violations may be capped)
    pub failing: u64,
    pub notes: Vec<String>,
    pub wall_s: f64,
    /// machinery error (divergence, build problem, ...): never a verdict
    pub error: Option<String>,
}

impl PartResult {
    pub fn new(name: &str, engine: &str) -> Self {
        PartResult { name: name.into(), engine: engine.into(), exhaustive: true, bound: json!({}), ..Default::default() }
    }
    pub fn violation(&mut self, signature: &str, message: String, replay: Value) {
        self.failing += 1;
        // keep at most 3 per signature, 40 in total: the counts stay exact in `failing`
        let same = self.violations.iter().filter(|v| v.signature == signature).count();
        if same < 3 && self.violations.len() < 40 {
            self.violations.push(Violation { signature: signature.into(), message, replay });
        }
    }
    pub fn sample(&mut self, v: Value) {
        if self.samples.len() < 6 {
            self.samples.push(v);
        }
    }
    pub fn merge_counts(&mut self, other: &PartResult) {
        self.executions += other.executions;
        self.states += other.states;
        self.transitions += other.transitions;
        self.distinct_outcomes += other.distinct_outcomes;
        self.exhaustive &= other.exhaustive;
        if self.cap_hit.is_none() {
            self.cap_hit = other.cap_hit.clone();
        }
        for s in &other.samples {
            self.sample(s.clone());
        }
        self.failing += other.failing;
        for v in &other.violations {
            if self.violations.len() < 40 {
                self.violations.push(v.clone());
            }
        }
        self.notes.extend(other.notes.iter().cloned());
    }
    fn to_json(&self) -> Value {
        json!({
            "name": self.name, "engine": self.engine, "executions": self.executions, "states": self.states,
            "transitions": self.transitions, "distinct_outcomes": self.distinct_outcomes, "exhaustive": self.exhaustive,
            "bound": self.bound, "cap_hit": self.cap_hit, "samples": self.samples, "failing": self.failing,
            "violations": self.violations.iter().map(|v| json!({"signature": v.signature, "message": v.message, "replay": v.replay})).collect::<Vec<_>>(),
            "notes": self.notes, "wall_s": self.wall_s, "error": self.error,
        })
    }
    fn from_json(v: &Value) -> PartResult {
        PartResult {
            name: v["name"].as_str().unwrap_or("").into(),
            engine: v["engine"].as_str().unwrap_or("").into(),
            executions: v["executions"].as_u64().unwrap_or(0),
            states: v["states"].as_u64().unwrap_or(0),
            transitions: v["transitions"].as_u64().unwrap_or(0),
            distinct_outcomes: v["distinct_outcomes"].as_u64().unwrap_or(0),
            exhaustive: v["exhaustive"].as_bool().unwrap_or(false),
            bound: v["bound"].clone(),
            cap_hit: v["cap_hit"].as_str().map(|s| s.to_string()),
            samples: v["samples"].as_array().cloned().unwrap_or_default(),
            failing: v["failing"].as_u64().unwrap_or(0),
            violations: v["violations"].as_array().map(|a| a.iter().map(|x| Violation {
                signature: x["signature"].as_str().unwrap_or("").into(),
                message: x["message"].as_str().unwrap_or("").into(),
                replay: x["replay"].clone(),
            }).collect()).unwrap_or_default(),
            notes: v["notes"].as_array().map(|a| a.iter().filter_map(|x| x.as_str().map(|s| s.to_string())).collect()).unwrap_or_default(),
            wall_s: v["wall_s"].as_f64().unwrap_or(0.0),
            error: v["error"].as_str().map(|s| s.to_string()),
        }
    }
}

pub struct CheckDef {
    pub prop: &'static str,
    /// evidence level (`model_checking` or `fault_enumeration`)
    pub level: &'static str,
    /// how cases are enumerated and what makes two of them distinct (goes into evidence `rule`)
    pub rule: &'static str,
    pub assumptions: &'static [&'static str],
    pub parts: fn(&Ctx) -> Vec<PartSpec>,
    pub run: fn(&Ctx, &PartSpec) -> PartResult,
}

fn arg_after(args: &[String], flag: &str) -> Option<String> {
    args.iter().position(|a| a == flag).and_then(|i| args.get(i + 1).cloned())
}

fn root_dir() -> PathBuf {
    if let Ok(r) = std::env::var("VERIF_ROOT") {
        return PathBuf::from(r);
    }
    PathBuf::from("/verif")
}

pub fn fnv(s: &str) -> u64 {
    let mut h: u64 = 0xcbf29ce484222325;
    for b in s.bytes() {
        h ^= b as u64;
        h = h.wrapping_mul(0x100000001b3);
    }
    h
}

/// Entry point of every check binary.
pub fn main(def: CheckDef) -> ! {
    let args: Vec<String> = std::env::args().collect();
    let tier = match arg_after(&args, "--tier").or_else(|| std::env::var("VERIF_TIER").ok()).as_deref() {
        Some("thorough") => Tier::Thorough,
        _ => Tier::Quick,
    };
    let seed = std::env::var("VERIF_SEED").ok().and_then(|s| s.parse::<i64>().ok()).unwrap_or(0) as u64;
    let root = root_dir();
    let mut ctx = Ctx { prop: def.prop.into(), tier, seed, root: root.clone(), replay: None, started: Instant::now(), budget_s: 1e9 };

    // ---- child mode: run one part, write its result
    if let Some(part) = arg_after(&args, "--part") {
        let arg: Value = arg_after(&args, "--arg").map(|s| serde_json::from_str(&s).expect("bad --arg")).unwrap_or(Value::Null);
        let out = arg_after(&args, "--out").expect("--out");
        if let Some(rp) = arg_after(&args, "--replay-json") {
            ctx.replay = Some(serde_json::from_str(&std::fs::read_to_string(rp).expect("replay file")).expect("replay json"));
        }
        ctx.budget_s = arg_after(&args, "--budget").and_then(|s| s.parse().ok()).unwrap_or(1e9);
        let spec = PartSpec { name: part, arg, budget_s: ctx.budget_s, cpus: None };
        let t0 = Instant::now();
        let mut res = (def.run)(&ctx, &spec);
        res.wall_s = t0.elapsed().as_secs_f64();
        std::fs::write(&out, serde_json::to_vec(&res.to_json()).unwrap()).expect("write part result");
        std::process::exit(0);
    }

    // ---- parent mode
    let t0 = Instant::now();
    let exe = std::env::current_exe().expect("current_exe");
    let run_dir = ctx.run_dir();
    let mut specs = (def.parts)(&ctx);
    let mut replay_file: Option<PathBuf> = None;
    if let Some(rp) = arg_after(&args, "--replay") {
        // a replay file names its part; run only that part with the recorded case
        let v: Value = serde_json::from_str(&std::fs::read_to_string(&rp).expect("replay file")).expect("replay json");
        let pname = v["part"].as_str().expect("replay.part").to_string();
        let parg = v["part_arg"].clone();
        let cpus = (def.parts)(&ctx).into_iter().find(|p| p.name == pname).and_then(|p| p.cpus);
        specs = vec![PartSpec { name: pname, arg: parg, budget_s: 1e9, cpus }];
        let f = run_dir.join(format!("{}-replay-{}.json", def.prop, std::process::id()));
        std::fs::write(&f, serde_json::to_vec(&v["replay"]).unwrap()).unwrap();
        replay_file = Some(f);
    }
    let mut partial = false;
    if let Some(only) = arg_after(&args, "--only") {
        specs.retain(|s| s.name.contains(&only));
        partial = true; // a developer convenience: never writes evidence
    }
    let jobs: usize = std::env::var("VERIF_JOBS").ok().and_then(|s| s.parse().ok()).unwrap_or(14);
    let default_budget = if ctx.quick() { 120.0 } else { 1500.0 };
    let hard_factor = 6.0;
    struct Running {
        idx: usize,
        child: std::process::Child,
        out: PathBuf,
        started: Instant,
        hard_s: f64,
    }
    let mut results: Vec<Option<PartResult>> = specs.iter().map(|_| None).collect();
    let mut running: Vec<Running> = Vec::new();
    let mut next = 0usize;
    while next < specs.len() || !running.is_empty() {
        while next < specs.len() && running.len() < jobs {
            let s = &specs[next];
            let out = run_dir.join(format!("{}-{}-{}.part.json", def.prop, s.name.replace(|c: char| !c.is_ascii_alphanumeric(), "_"), std::process::id()));
            let _ = std::fs::remove_file(&out);
            let budget = if s.budget_s > 0.0 { s.budget_s } else { default_budget };
            let mut cmd = match &s.cpus {
                Some(c) => {
                    let mut k = Command::new("taskset");
                    k.arg("-c").arg(c).arg(&exe);
                    k
                }
                None => Command::new(&exe),
            };
            cmd.arg("--part").arg(&s.name).arg("--arg").arg(s.arg.to_string()).arg("--out").arg(&out).arg("--budget").arg(budget.to_string())
                .arg("--tier").arg(if ctx.quick() { "quick" } else { "thorough" })
                .env("VERIF_ROOT", &root).stdout(Stdio::null()).stderr(Stdio::from(std::fs::File::create(out.with_extension("err")).expect("err file")));
            if let Some(f) = &replay_file {
                cmd.arg("--replay-json").arg(f);
            }
            let child = cmd.spawn().expect("spawn part");
            running.push(Running { idx: next, child, out, started: Instant::now(), hard_s: budget * hard_factor + 90.0 });
            next += 1;
        }
        std::thread::sleep(Duration::from_millis(15));
        let mut i = 0;
        while i < running.len() {
            let fin = match running[i].child.try_wait() {
                Ok(Some(st)) => Some(Ok(st)),
                Ok(None) => {
                    if running[i].started.elapsed().as_secs_f64() > running[i].hard_s {
                        let _ = running[i].child.kill();
                        let _ = running[i].child.wait();
                        Some(Err(format!("part exceeded hard wall limit of {:.0}s", running[i].hard_s)))
                    } else {
                        None
                    }
                }
                Err(e) => Some(Err(format!("wait: {}", e))),
            };
            if let Some(f) = fin {
                let r = running.swap_remove(i);
                let name = specs[r.idx].name.clone();
                let errf = r.out.with_extension("err");
                let stderr = std::fs::read(&errf).map(|b| String::from_utf8_lossy(&b).to_string()).unwrap_or_default();
                let _ = std::fs::remove_file(&errf);
                let res = match (f, std::fs::read_to_string(&r.out)) {
                    (Ok(st), Ok(txt)) if st.success() => PartResult::from_json(&serde_json::from_str(&txt).unwrap_or(Value::Null)),
                    (Ok(st), _) => {
                        let mut p = PartResult::new(&name, "?");
                        p.exhaustive = false;
                        let tail: String = stderr.lines().rev().take(12).collect::<Vec<_>>().into_iter().rev().collect::<Vec<_>>().join(" | ");
                        p.error = Some(format!("part process ended with {} without a result; stderr tail: {}", st, tail));
                        p
                    }
                    (Err(e), _) => {
                        let mut p = PartResult::new(&name, "?");
                        p.exhaustive = false;
                        p.error = Some(e);
                        p
                    }
                };
                let _ = std::fs::remove_file(&r.out);
                if std::env::var("VERIF_VERBOSE").is_ok() {
                    eprintln!("[{}] part {} done in {:.1}s: execs={} failing={} err={:?}", def.prop, name, res.wall_s, res.executions, res.failing, res.error);
                    if !stderr.is_empty() {
                        eprintln!("{}", stderr.chars().take(4000).collect::<String>());
                    }
                }
                results[r.idx] = Some(res);
            } else {
                i += 1;
            }
        }
    }
    if let Some(f) = &replay_file {
        let _ = std::fs::remove_file(f);
    }
    let results: Vec<PartResult> = results.into_iter().map(|r| r.unwrap()).collect();
    let code = finish(&def, &ctx, &specs, &results, t0.elapsed().as_secs_f64(), replay_file.is_some() || partial);
    std::process::exit(code);
}

fn load_known(root: &PathBuf, prop: &str) -> BTreeMap<String, String> {
    let mut m = BTreeMap::new();
    if let Ok(txt) = std::fs::read_to_string(root.join("known_findings.json")) {
        if let Ok(v) = serde_json::from_str::<Value>(&txt) {
            for e in v["findings"].as_array().cloned().unwrap_or_default() {
                if e["property"].as_str() == Some(prop) && e["status"].as_str() == Some("known") {
                    m.insert(e["signature"].as_str().unwrap_or("").to_string(), e["what"].as_str().unwrap_or("").to_string());
                }
            }
        }
    }
    m
}

fn finish(def: &CheckDef, ctx: &Ctx, specs: &[PartSpec], results: &[PartResult], wall: f64, is_replay: bool) -> i32 {
    let known = load_known(&ctx.root, def.prop);
    let mut total = PartResult::new("total", "");
    let mut errors = Vec::new();
    let mut known_seen: BTreeSet<String> = BTreeSet::new();
    let mut unknown: Vec<(String, Violation, Value)> = Vec::new();
    let mut unknown_failing = 0u64;
    let mut known_failing = 0u64;
    for (spec, r) in specs.iter().zip(results) {
        total.executions += r.executions;
        total.states += r.states;
        total.transitions += r.transitions;
        total.distinct_outcomes += r.distinct_outcomes;
        total.exhaustive &= r.exhaustive && r.error.is_none();
        if let Some(e) = &r.error {
            errors.push(format!("{}: {}", r.name, e));
        }
        for v in &r.violations {
            if known.contains_key(&v.signature) {
                known_seen.insert(v.signature.clone());
            } else {
                unknown.push((spec.name.clone(), v.clone(), spec.arg.clone()));
            }
        }
        // failing counts: attribute by stored violations' signatures (capped lists keep >=1 per signature)
        let unk_here = r.violations.iter().any(|v| !known.contains_key(&v.signature));
        if unk_here {
            unknown_failing += r.failing;
        } else {
            known_failing += r.failing;
        }
    }
    let out = std::io::stdout();
    let mut out = out.lock();
    for sig in &known_seen {
        let _ = writeln!(out, "KNOWN-FINDING: property={} {}: {}", def.prop, sig, known[sig]);
    }
    let _ = std::fs::create_dir_all(ctx.root.join("replays"));
    let mut printed: BTreeSet<String> = BTreeSet::new();
    for (part, v, parg) in &unknown {
        if printed.contains(&v.signature) || printed.len() >= 8 {
            continue;
        }
        printed.insert(v.signature.clone());
        let body = json!({"property": def.prop, "part": part, "part_arg": parg, "signature": v.signature, "message": v.message, "replay": v.replay});
        let txt = serde_json::to_string_pretty(&body).unwrap();
        let path = ctx.root.join("replays").join(format!("{}-{}-{:08x}.json", def.prop, v.signature.replace(|c: char| !c.is_ascii_alphanumeric() && c != '-', "_"), fnv(&txt) as u32));
        let _ = std::fs::write(&path, txt);
        let _ = writeln!(out, "VIOLATION property={} replay={}", def.prop, path.display());
        let _ = writeln!(out, "  signature={} part={} :: {}", v.signature, part, v.message.chars().take(600).collect::<String>());
    }
    for e in &errors {
        let _ = writeln!(out, "MACHINERY-ERROR property={} {}", def.prop, e.chars().take(800).collect::<String>());
    }
    // evidence
    let mut samples: Vec<Value> = Vec::new();
    for r in results {
        for s in r.samples.iter().take(2) {
            if samples.len() < 12 {
                samples.push(json!({"part": r.name, "case": s}));
            }
        }
    }
    if samples.is_empty() {
        samples.push(json!({"note": "no sample recorded"}));
    }
    let parts_json: Vec<Value> = results.iter().map(|r| json!({
        "name": r.name, "engine": r.engine, "executions": r.executions, "states": r.states, "transitions": r.transitions,
        "distinct_outcomes": r.distinct_outcomes, "exhaustive": r.exhaustive, "bound": r.bound, "cap_hit": r.cap_hit,
        "failing_executions": r.failing, "wall_s": (r.wall_s * 100.0).round() / 100.0, "notes": r.notes, "error": r.error,
    })).collect();
    let ev = json!({
        "property_id": def.prop,
        "tier": if ctx.quick() { "quick" } else { "thorough" },
        "seed": ctx.seed,
        "level": def.level,
        "coverage": {
            "states": total.states.max(1),
            "transitions": total.transitions.max(1),
            "traces_validated_against_impl": total.executions,
            "evaluations": total.executions.max(1),
            "distinct_nontrivial": total.distinct_outcomes.max(total.states),
            "rule": def.rule,
            "samples": samples,
            "exhaustive": total.exhaustive,
            "explanation": "every execution is a run of the real code of /repo's working tree (no separate model): traces_validated_against_impl = executions. states = distinct canonical end states / (model state, observation) pairs; transitions = scheduling decisions or operations applied; distinct_nontrivial = distinct observed outcomes (measured).",
            "parts": parts_json,
            "known_finding_executions": known_failing,
            "violating_executions": unknown_failing,
        },
        "assumptions": def.assumptions,
        "wall_s": (wall * 100.0).round() / 100.0,
        "violations": unknown_failing,
    });
    if !is_replay {
        let _ = std::fs::create_dir_all(ctx.root.join("evidence"));
        let _ = std::fs::write(ctx.root.join("evidence").join(format!("{}.json", def.prop)), serde_json::to_string_pretty(&ev).unwrap());
    }
    let _ = writeln!(out, "{} tier={} parts={} executions={} states={} transitions={} outcomes={} exhaustive={} known_failing={} violating={} wall={:.1}s",
        def.prop, if ctx.quick() { "quick" } else { "thorough" }, results.len(), total.executions, total.states, total.transitions, total.distinct_outcomes, total.exhaustive, known_failing, unknown_failing, wall);
    if !unknown.is_empty() {
        1
    } else if !errors.is_empty() {
        2
    } else {
        0
    }
}
