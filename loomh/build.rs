fn main() {
    println!("cargo:rustc-cfg=metrics_verif_loom");
    println!("cargo:rustc-check-cfg=cfg(metrics_verif_loom)");
    println!("cargo:rerun-if-changed=/repo/metrics/src/atomics.rs");
    println!("cargo:rerun-if-changed=/repo/metrics/src/recorder/cell.rs");
}
