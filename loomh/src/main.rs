//! E2: loom model checking of the repository's own `recorder/cell.rs` and `atomics.rs` (path-included).
//! usage: loomh <scenario> <preemption-bound|none>
//! prints one JSON line {"executions":N,"models":M,"outcomes":K,"sample":...}; a violation panics (exit != 0)
//! with loom's trace on stderr.
#![allow(dead_code)]
use std::collections::BTreeMap;
use std::sync::atomic::{AtomicUsize as StdAtomicUsize, Ordering as StdOrdering};
use std::sync::Mutex as StdMutex;

mod rec {
    pub use metrics::{Recorder, SetRecorderError};
    pub mod loom_shim {
        pub use loom::sync::atomic::{AtomicUsize, Ordering};
        pub struct UnsafeCell<T>(loom::cell::UnsafeCell<T>);
        impl<T> std::fmt::Debug for UnsafeCell<T> {
            fn fmt(&self, f: &mut std::fmt::Formatter<'_>) -> std::fmt::Result {
                f.write_str("UnsafeCell { .. }")
            }
        }
        pub struct Ptr<'a, T>(&'a loom::cell::UnsafeCell<T>);
        impl<T> UnsafeCell<T> {
            pub fn new(t: T) -> Self {
                Self(loom::cell::UnsafeCell::new(t))
            }
            pub fn get(&self) -> Ptr<'_, T> {
                Ptr(&self.0)
            }
        }
        impl<'a, T> Ptr<'a, T> {
            pub unsafe fn write(self, v: T) {
                self.0.with_mut(|p| p.write(v))
            }
            pub unsafe fn read(self) -> T {
                self.0.with(|p| p.read())
            }
        }
    }
    #[path = "/repo/metrics/src/recorder/cell.rs"]
    pub mod cell;
}

mod at {
    /// Copies of the facade traits (the orphan rule forbids implementing `metrics::CounterFn` for a loom type here);
    /// `atomics.rs` implements them for the loom `AtomicU64` through its `use super::{CounterFn, GaugeFn}`.
    pub trait CounterFn {
        fn increment(&self, value: u64);
        fn absolute(&self, value: u64);
    }
    pub trait GaugeFn {
        fn increment(&self, value: f64);
        fn decrement(&self, value: f64);
        fn set(&self, value: f64);
    }
    pub mod loom_shim {
        pub use loom::sync::atomic::{AtomicU64, Ordering};
    }
    #[path = "/repo/metrics/src/atomics.rs"]
    pub mod atomics;
}

use loom::sync::Arc;
use metrics::{Counter, Gauge, Histogram, Key, KeyName, Metadata, Recorder, SharedString, Unit};
use rec::cell::RecorderOnceCell;

static EXECS: StdAtomicUsize = StdAtomicUsize::new(0);
static OUTCOMES: StdMutex<BTreeMap<String, u64>> = StdMutex::new(BTreeMap::new());
fn outcome(s: String) {
    *OUTCOMES.lock().unwrap().entry(s).or_insert(0) += 1;
}

/// counts the live heap blocks that have exactly the size of the recorder double (an odd size nothing else asks for):
/// the library boxes a recorder it installs, and must not keep a box for one it rejects
struct CountingAlloc;
static R_BLOCKS: std::sync::atomic::AtomicIsize = std::sync::atomic::AtomicIsize::new(0);
unsafe impl std::alloc::GlobalAlloc for CountingAlloc {
    unsafe fn alloc(&self, l: std::alloc::Layout) -> *mut u8 {
        if l.size() == std::mem::size_of::<R>() {
            R_BLOCKS.fetch_add(1, StdOrdering::SeqCst);
        }
        std::alloc::System.alloc(l)
    }
    unsafe fn dealloc(&self, p: *mut u8, l: std::alloc::Layout) {
        if l.size() == std::mem::size_of::<R>() {
            R_BLOCKS.fetch_sub(1, StdOrdering::SeqCst);
        }
        std::alloc::System.dealloc(p, l)
    }
}
#[global_allocator]
static GLOBAL: CountingAlloc = CountingAlloc;

struct R {
    pad: [u8; 2963],
    id: usize,
    magic: u64,
    hits: std::sync::Arc<StdAtomicUsize>,
    drops: std::sync::Arc<StdAtomicUsize>,
}
impl Drop for R {
    fn drop(&mut self) {
        self.drops.fetch_add(1, StdOrdering::SeqCst);
    }
}
impl Recorder for R {
    fn describe_counter(&self, _: KeyName, _: Option<Unit>, _: SharedString) {
        assert_eq!(self.magic, 0xfeed_0000 + self.id as u64, "sig=recorder-seen-partially-constructed: recorder seen partially constructed");
        self.hits.fetch_add(1 << (8 * self.id), StdOrdering::SeqCst);
    }
    fn describe_gauge(&self, _: KeyName, _: Option<Unit>, _: SharedString) {}
    fn describe_histogram(&self, _: KeyName, _: Option<Unit>, _: SharedString) {}
    fn register_counter(&self, _: &Key, _: &Metadata<'_>) -> Counter {
        Counter::noop()
    }
    fn register_gauge(&self, _: &Key, _: &Metadata<'_>) -> Gauge {
        Gauge::noop()
    }
    fn register_histogram(&self, _: &Key, _: &Metadata<'_>) -> Histogram {
        Histogram::noop()
    }
}

fn builder(pb: Option<usize>) -> loom::model::Builder {
    let mut b = loom::model::Builder::new();
    b.preemption_bound = pb;
    b
}

fn thin(r: &'static dyn Recorder) -> usize {
    r as *const dyn Recorder as *const () as usize
}

/// `installers` racing `set`, `readers` each doing 2 x (try_load + dispatch); optional hand-off reader pair.
fn cell_scenario(pb: Option<usize>, installers: usize, readers: usize, handoff: bool) {
    builder(pb).check(move || {
        EXECS.fetch_add(1, StdOrdering::Relaxed);
        let blocks0 = R_BLOCKS.load(StdOrdering::SeqCst);
        let cell = Arc::new(RecorderOnceCell::new());
        let hits = std::sync::Arc::new(StdAtomicUsize::new(0));
        let drops: Vec<_> = (0..installers).map(|_| std::sync::Arc::new(StdAtomicUsize::new(0))).collect();
        let flag = Arc::new(loom::sync::atomic::AtomicUsize::new(0));
        let inst: Vec<_> = (0..installers)
            .map(|i| {
                let cell = cell.clone();
                let hits = hits.clone();
                let d = drops[i].clone();
                loom::thread::spawn(move || {
                    let r = R { pad: [0; 2963], id: i, magic: 0xfeed_0000 + i as u64, hits, drops: d.clone() };
                    match cell.set(r) {
                        Ok(()) => true,
                        Err(e) => {
                            assert_eq!(d.load(StdOrdering::SeqCst), 0, "sig=rejected-recorder-dropped: rejected recorder was dropped by the library");
                            assert_eq!(e.0.magic, 0xfeed_0000 + i as u64, "sig=rejected-recorder-not-intact: rejected recorder not handed back intact");
                            assert_eq!(e.0.id, i);
                            drop(e);
                            assert_eq!(d.load(StdOrdering::SeqCst), 1, "sig=rejected-recorder-leaked: rejected recorder leaked");
                            false
                        }
                    }
                })
            })
            .collect();
        let rds: Vec<_> = (0..readers)
            .map(|ri| {
                let cell = cell.clone();
                let flag = flag.clone();
                loom::thread::spawn(move || {
                    let mut seen: Option<usize> = None;
                    let mut log = String::new();
                    if handoff && ri == 1 {
                        // second reader of a hand-off pair: if it learns (acquire) that reader 0 has dispatched to the
                        // installed recorder, its own later lookup must find that same recorder
                        let f = flag.load(loom::sync::atomic::Ordering::Acquire);
                        if f != 0 {
                            let r = cell.try_load().expect("sig=later-emission-missed-recorder: an emission was already dispatched to the recorder on another thread, but a later lookup fell through to no-op");
                            assert_eq!(thin(r), f, "sig=later-emission-other-recorder: later emission reached a different recorder");
                            r.describe_counter("x".into(), None, "d".into());
                            log.push('H');
                        } else {
                            log.push('-');
                        }
                        return log;
                    }
                    for _ in 0..2 {
                        match cell.try_load() {
                            Some(r) => {
                                let p = thin(r);
                                if let Some(s) = seen {
                                    assert_eq!(s, p, "sig=later-emission-other-recorder: lookup returned a different recorder later");
                                }
                                seen = Some(p);
                                r.describe_counter("x".into(), None, "d".into());
                                if handoff && ri == 0 {
                                    flag.store(p, loom::sync::atomic::Ordering::Release);
                                }
                                log.push('S');
                            }
                            None => {
                                assert!(seen.is_none(), "sig=recorder-disappeared: recorder disappeared after it had been seen");
                                log.push('n');
                            }
                        }
                    }
                    log
                })
            })
            .collect();
        let wins: Vec<bool> = inst.into_iter().map(|h| h.join().unwrap()).collect();
        let logs: Vec<String> = rds.into_iter().map(|h| h.join().unwrap()).collect();
        assert_eq!(wins.iter().filter(|w| **w).count(), 1, "sig=install-not-exactly-once: exactly one installer must win");
        let winner = wins.iter().position(|w| *w).unwrap();
        assert_eq!(drops[winner].load(StdOrdering::SeqCst), 0, "sig=installed-recorder-dropped: installed recorder was dropped");
        let r = cell.try_load().expect("sig=installed-recorder-invisible: installed recorder must be visible after install returned");
        r.describe_counter("x".into(), None, "d".into());
        let h = hits.load(StdOrdering::SeqCst);
        for i in 0..installers {
            if i != winner {
                assert_eq!((h >> (8 * i)) & 0xff, 0, "sig=emission-reached-losing-recorder: an emission reached a recorder that lost the installation race");
            }
        }
        // the installed recorder lives in one heap block for the rest of the process; a rejected one leaves none behind
        assert_eq!(R_BLOCKS.load(StdOrdering::SeqCst) - blocks0, 1, "sig=rejected-recorder-leaked: recorder-sized heap blocks left behind by the installation race (1 = the installed recorder's)");
        outcome(format!("winner={} readers={:?}", winner, logs));
    });
}

/// C01, "otherwise to the global recorder": the recorder is installed before the threads start; `late` threads each try
/// to install another one (must fail, recorder handed back) while `readers` threads look the cell up twice each, the way
/// every emission without a local recorder does. Every lookup must find the installed recorder, whatever the others do.
fn cell_preinstalled(pb: Option<usize>, late: usize, readers: usize) {
    builder(pb).check(move || {
        EXECS.fetch_add(1, StdOrdering::Relaxed);
        let cell = Arc::new(RecorderOnceCell::new());
        let hits = std::sync::Arc::new(StdAtomicUsize::new(0));
        let drops: Vec<_> = (0..late + 1).map(|_| std::sync::Arc::new(StdAtomicUsize::new(0))).collect();
        assert!(cell.set(R { pad: [0; 2963], id: 0, magic: 0xfeed_0000, hits: hits.clone(), drops: drops[0].clone() }).is_ok(), "sig=first-install-refused: first install refused");
        let first = thin(cell.try_load().expect("sig=installed-recorder-invisible: installed recorder must be visible after install returned"));
        let blocks0 = R_BLOCKS.load(StdOrdering::SeqCst);
        let inst: Vec<_> = (1..=late)
            .map(|i| {
                let cell = cell.clone();
                let hits = hits.clone();
                let d = drops[i].clone();
                loom::thread::spawn(move || {
                    let r = R { pad: [0; 2963], id: i, magic: 0xfeed_0000 + i as u64, hits, drops: d.clone() };
                    match cell.set(r) {
                        Ok(()) => panic!("sig=install-not-exactly-once: a second install succeeded"),
                        Err(e) => {
                            assert_eq!(d.load(StdOrdering::SeqCst), 0, "sig=rejected-recorder-dropped: rejected recorder was dropped by the library");
                            assert_eq!(e.0.magic, 0xfeed_0000 + i as u64, "sig=rejected-recorder-not-intact: rejected recorder not handed back intact");
                            drop(e);
                        }
                    }
                })
            })
            .collect();
        let rds: Vec<_> = (0..readers)
            .map(|_| {
                let cell = cell.clone();
                loom::thread::spawn(move || {
                    for _ in 0..2 {
                        let r = cell.try_load().expect("sig=emission-missed-global-recorder: a lookup on a thread without a local recorder fell through to no-op although the global recorder was installed before the thread started");
                        assert_eq!(thin(r), first, "sig=later-emission-other-recorder: lookup returned a different recorder");
                        r.describe_counter("x".into(), None, "d".into());
                    }
                })
            })
            .collect();
        for h in inst {
            h.join().unwrap();
        }
        for h in rds {
            h.join().unwrap();
        }
        let r = cell.try_load().expect("sig=emission-missed-global-recorder: the installed recorder is no longer visible after a failed install");
        assert_eq!(thin(r), first);
        let h = hits.load(StdOrdering::SeqCst);
        assert_eq!(h & 0xff, 2 * readers, "sig=emission-missed-global-recorder: not every emission reached the installed recorder");
        assert_eq!(h >> 8, 0, "sig=emission-reached-losing-recorder: an emission reached a recorder that was never installed");
        assert_eq!(drops[0].load(StdOrdering::SeqCst), 0, "sig=installed-recorder-dropped: installed recorder was dropped");
        assert_eq!(R_BLOCKS.load(StdOrdering::SeqCst) - blocks0, 0, "sig=rejected-recorder-leaked: recorder-sized heap blocks left behind by rejected installations");
        outcome(format!("hits={:#x}", h));
    });
}

// ---------------------------------------------------------------- atomics.rs
use at::{CounterFn, GaugeFn};
use loom::sync::atomic::AtomicU64 as LAtomicU64;

#[derive(Clone, Copy, Debug, PartialEq)]
enum COp {
    Inc(u64),
    Abs(u64),
}
#[derive(Clone, Copy, Debug, PartialEq)]
enum GOp {
    Inc(f64),
    Dec(f64),
    Set(f64),
}

fn interleavings(threads: &[Vec<usize>]) -> Vec<Vec<usize>> {
    // all merges of per-thread op-id sequences preserving program order
    fn rec(pos: &mut Vec<usize>, threads: &[Vec<usize>], cur: &mut Vec<usize>, out: &mut Vec<Vec<usize>>) {
        let mut any = false;
        for t in 0..threads.len() {
            if pos[t] < threads[t].len() {
                any = true;
                cur.push(threads[t][pos[t]]);
                pos[t] += 1;
                rec(pos, threads, cur, out);
                pos[t] -= 1;
                cur.pop();
            }
        }
        if !any {
            out.push(cur.clone());
        }
    }
    let mut out = Vec::new();
    rec(&mut vec![0; threads.len()], threads, &mut Vec::new(), &mut out);
    out
}

fn canon(bits: u64) -> u64 {
    if f64::from_bits(bits).is_nan() {
        0x7ff8_0000_0000_0000
    } else {
        bits
    }
}

/// all assignments of `total` ops from `alpha` to `nthreads` threads with `per` ops each
fn assignments(alpha: usize, nthreads: usize, per: &[usize]) -> Vec<Vec<Vec<usize>>> {
    let total: usize = per.iter().sum();
    let mut out = Vec::new();
    let mut idx = vec![0usize; total];
    loop {
        let mut v = Vec::new();
        let mut k = 0;
        for t in 0..nthreads {
            v.push(idx[k..k + per[t]].to_vec());
            k += per[t];
        }
        out.push(v);
        let mut p = total;
        loop {
            if p == 0 {
                return out;
            }
            p -= 1;
            idx[p] += 1;
            if idx[p] < alpha {
                break;
            }
            idx[p] = 0;
        }
    }
}

fn counter_scenario(pb: Option<usize>, alpha: &'static [COp], shapes: &[&[usize]], observer: bool) -> u64 {
    let mut models = 0;
    for per in shapes {
        for asg in assignments(alpha.len(), per.len(), per) {
            models += 1;
            // sequential reference over all linearizations
            let mut ids = Vec::new();
            let mut ops = Vec::new();
            for t in &asg {
                let mut v = Vec::new();
                for o in t {
                    v.push(ops.len());
                    ops.push(alpha[*o]);
                }
                ids.push(v);
            }
            let mut allowed = std::collections::BTreeSet::new();
            for lin in interleavings(&ids) {
                let mut v: u64 = 0;
                for i in lin {
                    match ops[i] {
                        COp::Inc(x) => v = v.wrapping_add(x),
                        COp::Abs(x) => v = v.max(x),
                    }
                }
                allowed.insert(v);
            }
            let max_abs = ops.iter().filter_map(|o| if let COp::Abs(x) = o { Some(*x) } else { None }).max();
            let only_inc = ops.iter().all(|o| matches!(o, COp::Inc(_)));
            let monotone = !ops.iter().any(|o| matches!(o, COp::Inc(x) if *x > 1 << 32));
            let asg2 = asg.clone();
            let allowed2 = allowed.clone();
            builder(pb).check(move || {
                EXECS.fetch_add(1, StdOrdering::Relaxed);
                let c = Arc::new(LAtomicU64::new(0));
                let hs: Vec<_> = asg2
                    .iter()
                    .map(|t| {
                        let c = c.clone();
                        let t = t.clone();
                        loom::thread::spawn(move || {
                            for o in t {
                                match alpha[o] {
                                    COp::Inc(x) => CounterFn::increment(&*c, x),
                                    COp::Abs(x) => CounterFn::absolute(&*c, x),
                                }
                            }
                        })
                    })
                    .collect();
                let obs = if observer {
                    let c = c.clone();
                    Some(loom::thread::spawn(move || {
                        let a = c.load(loom::sync::atomic::Ordering::Acquire);
                        let b = c.load(loom::sync::atomic::Ordering::Acquire);
                        (a, b)
                    }))
                } else {
                    None
                };
                for h in hs {
                    h.join().unwrap();
                }
                let fin = c.load(loom::sync::atomic::Ordering::Acquire);
                if let Some(o) = obs {
                    let (a, b) = o.join().unwrap();
                    if monotone {
                        assert!(a <= b && b <= fin, "sig=counter-decreased: counter value decreased: observed {} then {} then final {}", a, b, fin);
                    }
                }
                assert!(allowed2.contains(&fin), "sig=counter-update-lost-or-misapplied: counter final value {} is not the result of any sequential order of {:?} (allowed {:?})", fin, asg2, allowed2);
                if only_inc {
                    let sum = asg2.iter().flatten().fold(0u64, |s, o| if let COp::Inc(x) = alpha[*o] { s.wrapping_add(x) } else { s });
                    assert_eq!(fin, sum, "sig=counter-update-lost-or-misapplied: increments lost");
                }
                if let Some(m) = max_abs {
                    if monotone {
                        assert!(fin >= m, "sig=counter-below-absolute: counter ended below the largest absolute value");
                    }
                }
                outcome(format!("C {:?} -> {}", asg2, fin));
            });
        }
    }
    models
}

fn gauge_scenario(pb: Option<usize>, alpha: &'static [GOp], shapes: &[&[usize]]) -> u64 {
    let mut models = 0;
    for per in shapes {
        for asg in assignments(alpha.len(), per.len(), per) {
            models += 1;
            let mut ids = Vec::new();
            let mut ops = Vec::new();
            for t in &asg {
                let mut v = Vec::new();
                for o in t {
                    v.push(ops.len());
                    ops.push(alpha[*o]);
                }
                ids.push(v);
            }
            let mut allowed = std::collections::BTreeSet::new();
            for lin in interleavings(&ids) {
                let mut v: f64 = 0.0;
                for i in lin {
                    match ops[i] {
                        GOp::Inc(x) => v += x,
                        GOp::Dec(x) => v -= x,
                        GOp::Set(x) => v = x,
                    }
                }
                allowed.insert(canon(v.to_bits()));
            }
            let asg2 = asg.clone();
            builder(pb).check(move || {
                EXECS.fetch_add(1, StdOrdering::Relaxed);
                let c = Arc::new(LAtomicU64::new(0));
                let hs: Vec<_> = asg2
                    .iter()
                    .map(|t| {
                        let c = c.clone();
                        let t = t.clone();
                        loom::thread::spawn(move || {
                            for o in t {
                                match alpha[o] {
                                    GOp::Inc(x) => GaugeFn::increment(&*c, x),
                                    GOp::Dec(x) => GaugeFn::decrement(&*c, x),
                                    GOp::Set(x) => GaugeFn::set(&*c, x),
                                }
                            }
                        })
                    })
                    .collect();
                for h in hs {
                    h.join().unwrap();
                }
                let fin = canon(c.load(loom::sync::atomic::Ordering::Acquire));
                assert!(allowed.contains(&fin), "sig=gauge-update-lost-or-misapplied: gauge final value {} is not the result of any sequential order of {:?}", f64::from_bits(fin), asg2);
                outcome(format!("G {:?} -> {:x}", asg2, fin));
            });
        }
    }
    models
}

static C_INC: [COp; 3] = [COp::Inc(1), COp::Inc(u64::MAX), COp::Inc(7)];
static C_MIX: [COp; 4] = [COp::Inc(1), COp::Inc(3), COp::Abs(5), COp::Abs(2)];
static G_ALL: [GOp; 4] = [GOp::Inc(1.5), GOp::Dec(0.5), GOp::Set(4.0), GOp::Set(f64::NAN)];

fn main() {
    // a model thread that loops without ever performing a synchronisation operation cannot be preempted by loom and never
    // ends: executions take milliseconds, so no completed execution for 30 s means exactly that
    std::thread::spawn(|| {
        let mut last = EXECS.load(StdOrdering::Relaxed);
        let mut since = std::time::Instant::now();
        loop {
            std::thread::sleep(std::time::Duration::from_millis(500));
            let now = EXECS.load(StdOrdering::Relaxed);
            if now != last {
                last = now;
                since = std::time::Instant::now();
            } else if since.elapsed().as_secs() >= 30 {
                eprintln!("thread 'watchdog' panicked at loom harness: sig=call-never-returns: execution #{} has not ended for 30 s: a thread waits in a loop that performs no synchronisation operation (it can never observe another thread's progress), so its call never returns", now);
                std::process::exit(101);
            }
        }
    });
    let a: Vec<String> = std::env::args().collect();
    let scn = a.get(1).cloned().unwrap_or_default();
    let pb: Option<usize> = a.get(2).and_then(|s| s.parse().ok());
    let mut models = 1u64;
    match scn.as_str() {
        "cell_2i1r" => cell_scenario(pb, 2, 1, false),
        "cell_2i2r" => cell_scenario(pb, 2, 2, false),
        "cell_1i2r_handoff" => cell_scenario(pb, 1, 2, true),
        "cell_2i2r_handoff" => cell_scenario(pb, 2, 2, true),
        "cell_pre_1l1r" => cell_preinstalled(pb, 1, 1),
        "cell_pre_1l2r" => cell_preinstalled(pb, 1, 2),
        "cell_pre_2l1r" => cell_preinstalled(pb, 2, 1),
        "cell_3i1r" => cell_scenario(pb, 3, 1, false),
        "counter_inc" => models = counter_scenario(pb, &C_INC, &[&[1, 1], &[2, 1], &[1, 1, 1], &[2, 2]], false),
        "counter_mix" => models = counter_scenario(pb, &C_MIX, &[&[1, 1], &[2, 1]], true),
        "counter_mix3" => models = counter_scenario(pb, &C_MIX, &[&[1, 1, 1]], false),
        "counter_mix22" => models = counter_scenario(pb, &C_MIX, &[&[2, 2]], false),
        "gauge" => models = gauge_scenario(pb, &G_ALL, &[&[1, 1], &[2, 1], &[1, 1, 1]]),
        "gauge22" => models = gauge_scenario(pb, &G_ALL, &[&[2, 2], &[2, 1, 1]]),
        _ => {
            eprintln!("unknown scenario");
            std::process::exit(2);
        }
    }
    let o = OUTCOMES.lock().unwrap();
    let sample = o.iter().next().map(|(k, v)| format!("{} x{}", k, v)).unwrap_or_default();
    println!("{{\"executions\":{},\"models\":{},\"outcomes\":{},\"sample\":{:?}}}", EXECS.load(StdOrdering::Relaxed), models, o.len(), sample);
}
