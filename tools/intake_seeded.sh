#!/bin/bash
# tools/intake_seeded.sh <worktree> <PROPERTY> <new seeded id>
# Confirms a sub-agent's seeded change in its scratch worktree (tracked diff == seeded/patch.diff; the repository's suite
# passes with it; its demo fails with it and passes without it) and stores it under /verif/seeded/<new id>/.
wt=$1; prop=$2; new=$3
cd "$wt" || exit 2
demo=$(git status --short | awk '{print $2}' | grep -E "tests/?$|seeded_demo.rs$" | head -1)
case "$demo" in */) demo="${demo}seeded_demo.rs";; esac
crate=$(echo "$demo" | cut -d/ -f1)
log=/tmp/intake-$new.log
WTPREFIX="${wt%$prop}" /verif/tools/verify_seeded.sh "$prop" "$demo" "$crate" -- --test-threads=1 > "$log" 2>&1
with=$(awk '/== demo WITH the change/,/== demo WITHOUT/' "$log" | grep -c "FAILED\|panicked")
without=$(awk '/== demo WITHOUT the change/,0' "$log" | grep -c "test result: ok")
suite_fail=$(awk '/== suite with the change/,/== demo WITH/' "$log" | grep -c "FAILED\|failed;.*[1-9] failed")
match=$(grep -c "diff matches patch.diff" "$log")
echo "$new: demo=$demo diff_matches=$match suite_failures=$suite_fail demo_fails_with=$with demo_passes_without=$without"
d=/verif/seeded/$new; mkdir -p "$d"
cp seeded/patch.diff "$d/"; cp seeded/demo.rs "$d/" 2>/dev/null; cp seeded/notes.md "$d/" 2>/dev/null; cp "$log" "$d/confirmation.log"
