#!/usr/bin/env python3
"""Maintains /verif/known_findings.json (never called by a check; checks only read the file).
usage: kf.py fixed  <prop> <signature> <commit> <what>
       kf.py known  <prop> <signature> <what>"""
import json, sys
p = '/verif/known_findings.json'
d = json.load(open(p))
kind = sys.argv[1]
if kind == 'fixed':
    _, _, prop, sig, commit, what = sys.argv
    e = {"property": prop, "signature": sig, "status": "fixed", "commit": commit, "what": what,
         "record": f"fixed: property={prop} {commit} {what}"}
else:
    _, _, prop, sig, what = sys.argv
    e = {"property": prop, "signature": sig, "status": "known", "what": what,
         "record": f"known: property={prop} {sig}: {what}"}
d["findings"] = [x for x in d["findings"] if not (x["property"] == prop and x["signature"] == sig)] + [e]
d["findings"].sort(key=lambda x: (x["property"], x["signature"]))
json.dump(d, open(p, 'w'), indent=1)
