#!/bin/bash
# tools/try_on_copy.sh <patch file | seeded id> <check ids...>  — like try_seeded.sh, but against the scratch copy made by mkcopy.sh
p=$1; shift
[ -f "$p" ] || p=/verif/seeded/$p/patch.diff
cd /tmp/mverif || exit 2
git -C /tmp/mrepo checkout -q -- . ; git -C /tmp/mrepo apply "$(readlink -f "$p")" || { echo "patch does not apply"; exit 2; }
for id in "$@"; do
  out=$(VERIF_JOBS=${VERIF_JOBS:-6} ./check "$id" --tier ${TIER:-quick} 2>&1); code=$?
  echo "### (copy) ./check $id -> exit $code"; echo "$out" | grep -E "^(VIOLATION|MACHINERY|KNOWN|  signature|C[0-9]+ tier)" | cut -c1-330
done
git -C /tmp/mrepo checkout -q -- .
