#!/bin/bash
# developer convenience: run every claimed check at a tier, print one line each, validate evidence
cd "$(dirname "$(readlink -f "$0")")/.."
tier="${1:-quick}"
rc=0
for id in $(python3 -c "import json; print(' '.join(c['property_id'] for c in json.load(open('MANIFEST.json'))['checks']))"); do
  s=$(date +%s.%N)
  out=$(./check "$id" --tier "$tier" 2>&1); code=$?
  e=$(date +%s.%N)
  printf "%s exit=%d %.1fs :: %s\n" "$id" "$code" "$(echo "$e - $s" | bc)" "$(echo "$out" | tail -1 | cut -c1-200)"
  echo "$out" | grep -E "^(VIOLATION|MACHINERY)" | head -3
  [ $code -ne 0 ] && rc=1
done
python3-vt - <<'PY'
import json, jsonschema, glob
sch = json.load(open('/root/.vp/EVIDENCE.schema.json'))
for f in sorted(glob.glob('/verif/evidence/*.json')):
    try:
        jsonschema.validate(json.load(open(f)), sch)
    except Exception as e:
        print("INVALID", f, str(e)[:200])
jsonschema.validate(json.load(open('/verif/MANIFEST.json')), json.load(open('/root/.vp/MANIFEST.schema.json')))
print("evidence + manifest validated")
PY
exit $rc
