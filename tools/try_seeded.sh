#!/bin/bash
# try_seeded.sh <seeded dir name> <check id>... : apply the seeded change to /repo, run the checks (quick), undo it.
d=/verif/seeded/$1; shift
cd /verif
git -C /repo diff --quiet || { echo "/repo is dirty"; exit 2; }
git -C /repo apply "$d/patch.diff" || { echo "patch does not apply"; exit 2; }
: > "$d/check-results.txt"
for id in "$@"; do
  out=$(./check "$id" --tier "${TIER:-quick}" 2>&1); code=$?
  { echo "### ./check $id --tier ${TIER:-quick} -> exit $code"; echo "$out" | grep -E "^(VIOLATION|KNOWN-FINDING|MACHINERY|  signature|C[0-9]+ tier)" | cut -c1-420; } | tee -a "$d/check-results.txt"
done
git -C /repo checkout -- .
git -C /repo status --short | head -3
