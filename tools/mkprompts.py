#!/usr/bin/env python3
"""Development helper (not used by any MANIFEST command): writes the task descriptions for one round of independent
sub-agents that seed property-breaking changes: tools/mkprompts.py <round>  ->  /tmp/prompt<round>-<ID>.txt, one per
property; each lists the changes already taken for that property (from seeded/*/meta.json) and asks for a different one.
The agents get nothing from /verif; worktrees are /tmp/wt<round>-<ID> (git -C /repo worktree add --detach)."""
import json, glob, sys
rnd = sys.argv[1]
props = [json.loads(l) for l in open('/verif/properties.jsonl')]
for p in props:
    pid = p['id']
    taken = [json.load(open(m))['change'] for m in sorted(glob.glob(f'/verif/seeded/{pid}-*/meta.json'))]
    tl = "\n".join(f"   - {t}" for t in taken)
    wt = f"/tmp/wt{rnd}-{pid}"
    txt = f"""You are helping test a verification framework. Your job: produce ONE realistic code change ("mutant") to the Rust repository metrics-rs/metrics that BREAKS the semantic property below, while the code still compiles and the repository's existing test suite still passes.

Work ONLY inside your private git worktree: {wt} (a checkout of the repository; toolchain is pinned by rust-toolchain.toml, cargo works offline only: always pass --offline; set CARGO_TARGET_DIR={wt}/target for every cargo command). Do NOT read or write anything under /verif, /root/.vp, /root/vproto, /repo or other /tmp/wt* directories. There is no network. The machine is busy with other jobs: builds and tests may take several times longer than usual; be patient and do not run more than one cargo command at a time.

THE PROPERTY ({pid}): {p['title']}
Statement: {p['statement']}
Quantified over: {p['quantifier']['text']}
Why the existing tests cannot settle it: {p['why_tests_cant']}
Code it is anchored in: {', '.join(p['anchors']['files'])}
Mechanisms meant to make it hold: {json.dumps(p['anchors'].get('mechanism', []))}

ALREADY TAKEN (changes other people produced for this property; yours must be DIFFERENT in both the code site and the kind of trigger — do not produce a variation of one of these):
{tl}

WHAT TO PRODUCE
1. First read ALL the code the property is anchored in (and the functions it calls in other files of the workspace, including code of other crates of the workspace that the anchored code relies on), and list for yourself the functions, branches, configuration options, trait impls, constructors, conversions, Drop impls, builder options and clauses of the property that NONE of the taken changes touches. Pick one of those; prefer the part of the property's quantifier ("Quantified over") that the taken changes exercise least. Then make a small, realistic change to the library source (the kind of slip a maintainer could make in a refactor, a "robustness" tweak or an "optimisation": reordering two steps, dropping a re-check, an off-by-one, using the wrong variable, a weaker condition, caching something that must be re-read, a fast path that skips a step, a conversion that truncates, an early return on an error path, a boundary comparison, state that survives when it must be reset, a default that changes, ...) that makes the property false. It must need something SPECIFIC to manifest — a particular thread interleaving, a fault or panic at a particular point inside a library call, a multi-step sequence of operations, an unusual but legal input or configuration value or a combination of two options, a rarely used API entry point, a second instance of an object, or two cooperating sites that each look fine alone. Do NOT make a change that ordinary use would expose at once (e.g. "always return 0"), do not revert a commit whose message starts with "fix:", and do not touch tests, Cargo files, or files named verif*.rs / code under #[cfg(metrics_verif)] / #[cfg(metrics_verif_loom)] (if the file you change has such twin code paths, apply the equivalent change to the twin so that all configurations still compile and behave alike).
2. Confirm that the code compiles and that the existing tests still pass WITH your change: run at least `cargo test --offline -p <each crate you touched and the crates depending on it>`, and finally `cargo test --workspace --offline --no-fail-fast` (takes a few minutes the first time). If an existing test fails, pick a different change.
3. A demonstration that fails WITH the change and passes WITHOUT it: a new test file {wt}/<crate>/tests/seeded_demo.rs. For interleaving-dependent bugs the demonstration may force the interleaving by any means you like (barriers, sleeps, a helper thread that loops many times, a custom recorder/storage double, ...). Run the demonstration both ways (toggle the library change with `git diff -- <library files> > seeded/patch.diff`, `git apply -R seeded/patch.diff`, `git apply seeded/patch.diff`; NEVER use `git stash`: the stash is shared with other worktrees) and report the outputs.
4. Write these files in {wt}/seeded/: patch.diff (output of `git diff` for the LIBRARY change only, not the demo), demo.rs (a copy of the demonstration source, with a comment on top saying where it was placed and the exact command to run it), notes.md (what the change is, which clause of the property it breaks, what exactly is needed for it to manifest, the commands you ran and their results with and without the change).

Keep the change minimal (a few lines). Be careful to leave the worktree with the library change APPLIED and the demo in place when you finish. In your final answer, summarise: the change, why the existing suite does not notice, what triggers it, and the demo results."""
    open(f'/tmp/prompt{rnd}-{pid}.txt', 'w').write(txt)
print("prompts written")
