#!/bin/bash
# re-run every seeded change against the check of the property it was written for (quick tier); prints one line each
cd /verif
for d in seeded/*/; do
  id=$(basename $d); prop=$(python3 -c "import json; print(json.load(open('$d/meta.json'))['property'])")
  out=$(tools/try_seeded.sh $id $prop 2>&1 | grep "^###")
  echo "$id $out"
done
