#!/bin/bash
# Development helper (not used by any MANIFEST command): makes / refreshes a scratch copy of the machinery that works
# on a scratch git worktree of /repo, so that patches can be tried while /repo itself is busy (e.g. during `vp check`).
#   tools/mkcopy.sh            -> /tmp/mrepo (worktree of /repo HEAD) + /tmp/mverif (copy of /verif pointing at it)
# Remove both when done:  git -C /repo worktree remove --force /tmp/mrepo; rm -rf /tmp/mverif
set -e
if [ -d /tmp/mrepo ]; then git -C /tmp/mrepo checkout -q --detach "${MREPO_REV:-$(git -C /repo rev-parse HEAD)}"; else git -C /repo worktree add -q --detach /tmp/mrepo HEAD; fi
mkdir -p /tmp/mverif
rsync -a --delete --exclude target --exclude .cargo-home --exclude .git --exclude run --exclude replays /verif/ /tmp/mverif/
cd /tmp/mverif
grep -rl "/repo/" harness/src harness/Cargo.toml loomh loomb 2>/dev/null | xargs -r sed -i 's#/repo/#/tmp/mrepo/#g'
echo "copy ready: /tmp/mverif -> /tmp/mrepo"
