#!/bin/bash
# verify_seeded.sh <ID> <demo test file relative to worktree> <crate> [extra cargo args]
# Confirms a sub-agent's seeded change in its scratch worktree /tmp/wt-<ID>:
#  1. tracked diff == seeded/patch.diff  2. existing suite passes with the change  3. demo fails with / passes without
id=$1; demo=$2; crate=$3; shift 3
wt=${WTPREFIX:-/tmp/wt-}$id
cd $wt || exit 2
export CARGO_TARGET_DIR=$wt/target
echo "== tracked diff vs patch.diff"
git diff > /tmp/cur-$id.diff
if diff -q <(grep -v '^index ' /tmp/cur-$id.diff) <(grep -v '^index ' seeded/patch.diff) >/dev/null; then echo "diff matches patch.diff"; else echo "DIFF DIFFERS from patch.diff"; git diff --stat; fi
name=$(basename $demo .rs)
echo "== suite with the change (demo moved aside)"
mv $demo /tmp/demo-$id.rs
cargo test --workspace --offline --no-fail-fast 2>&1 | grep -E "^test result|FAILED|failed" | sort | uniq -c | head -8
mv /tmp/demo-$id.rs $demo
echo "== demo WITH the change"
cargo test --offline -p $crate --test $name "$@" 2>&1 | grep -E "^test result|panicked" | head -4
echo "== demo WITHOUT the change"
git apply -R seeded/patch.diff
cargo test --offline -p $crate --test $name "$@" 2>&1 | grep -E "^test result|panicked" | head -4
git apply seeded/patch.diff
git status --short | head -5
