#!/usr/bin/env python3
"""Regenerates /verif/MANIFEST.json from the table below; a property is claimed iff its check binary exists."""
import json, os, subprocess
ROOT = os.path.dirname(os.path.dirname(os.path.abspath(__file__)))
E1 = "E1 vsched"; E2 = "E2 loom"; E3 = "E3 vseq"; E4 = "E4 vio"
T = {
 "C01": (E3 + " + " + E2, "bounded exhaustive enumeration of scope programs (set/drop/forget/with_local_recorder/panic) on the real thread-local recorder, reference = scope stack; loom on the real RecorderOnceCell with the recorder installed beforehand (late installers || lookups)", "4.C01"),
 "C02": (E2, "loom: all C11 executions of install/lookup on the real RecorderOnceCell source up to a preemption bound", "4.C02"),
 "C03": (E3+" + "+E1, "exhaustive pairs/triples over a key universe built through every construction path; all interleavings of first get_hash() calls", "4.C03"),
 "C04": (E2+" + "+E1+" + "+E3, "loom on atomics.rs + controlled-scheduler interleavings of real handles + exhaustive value/op enumeration", "4.C04"),
 "C05": (E1+" + "+E2, "preemption-bounded exhaustive interleaving exploration of the real AtomicBucket (controlled scheduler, every atomic/epoch-pointer op a scheduling point); loom (C11 memory model) on the same bucket.rs with crossbeam-epoch in its loom mode", "4.C05"),
 "C06": (E3+" + "+E1, "all operation sequences up to a depth on the real Registry vs a map reference; all interleavings of racing get_or_create/delete", "4.C06"),
 "C07": (E3+" + "+E1, "all register/update/describe/render/upkeep sequences up to a depth vs reference through an independent exposition parser; all interleavings of record vs render/upkeep", "4.C07"),
 "C08": (E3, "exhaustive strings up to a length over a nasty alphabet in every role, strict exposition-format parser as oracle", "4.C08"),
 "C09": (E3, "exhaustive configuration sweep x write/drain sequences on the real PayloadWriter, independent DogStatsD parser + accounting oracle", "4.C09"),
 "C10": (E1+" + "+E3+" + "+E4, "all interleavings of updates with flushes on the real DogStatsD State; all update/flush sequences up to a depth vs an exact reference; end-to-end framing over real sockets", "4.C10"),
 "C11": (E4, "enumeration of client/emit event histories and write answers (deviation-bounded) against the real transport thread with a quiescence barrier", "4.C11"),
 "C12": (E3, "all update/advance/observe sequences up to a depth with a mock clock on the real Recency + Registry, and via Prometheus render", "4.C12"),
 "C13": (E3, "exhaustive names x layer configurations on the real layers vs a reference written from the docs", "4.C13"),
 "C14": (E3, "all construct/clone/convert/drop sequences up to a depth on the real Cow under a tracking allocator", "4.C14"),
 "C15": (E3, "exhaustive bound lists x sample sequences x batchings; matcher sets x names; rolling-summary timelines under a mock clock", "4.C15"),
 "C16": (E3+" + "+E1, "complete tree of RNG answers with exact rational weights; all interleavings of push vs drain", "4.C16"),
 "C17": (E3, "all span trees up to depth 3 x field sets x label sets x filters on the real TracingContextLayer", "4.C17"),
 "C18": (E4, "enumeration of allowlists x peer addresses x paths x disturbance sequences against the real HTTP listener", "4.C18"),
 "C19": (E3+" + "+E1, "all describe/register/update/snapshot sequences up to a depth on the real DebuggingRecorder; all interleavings of record vs snapshot", "4.C19"),
 "C20": (E1, "all interleavings (Arc/Weak operations as scheduling points) of emitters vs into_inner / handle drop on the real RecoverableRecorder", "4.C20"),
}
NOTES = {
 "default": "Trusted base: the harness (scheduler, reference models, parsers), rustc, and for E1 sequential consistency at facade-operation granularity; bounds are stated in the evidence file. Every execution is of the real code in /repo's working tree.",
}
CAT = {"C18": "fault_enumeration"}
props = [json.loads(l) for l in open(os.path.join(ROOT, "properties.jsonl"))]
checks, na = [], []
for p in props:
    pid = p["id"]
    eng, tech, ref = T[pid]
    if os.path.exists(os.path.join(ROOT, "harness/src/bin", pid.lower() + ".rs")):
        checks.append({
            "property_id": pid,
            "quick_cmd": f"./check {pid} --tier quick",
            "thorough_cmd": f"./check {pid} --tier thorough",
            "evidence_file": f"/verif/evidence/{pid}.json",
            "replay_cmd_template": f"./check {pid} --replay {{path}}",
            "engine": eng,
            "level_claimed": {"category": CAT.get(pid, "model_checking"),
                              "text": f"Exhaustive within stated bounds, on the real code: {tech}. Reports schedules/sequences executed, distinct states and outcomes; a violation comes with a replay file.",
                              "design_ref": "DESIGN.md §" + ref},
            "level_note": NOTES["default"],
            "technique": tech,
        })
    else:
        na.append({"property_id": pid, "reason": "check not built yet (work in progress; DESIGN.md §" + ref + " describes the planned model-checking check)"})
commits = subprocess.run(["git", "-C", "/repo", "log", "--format=%h %s", "--grep=^verif hooks"], capture_output=True, text=True).stdout.strip().split("\n")
m = {
 "version": 1,
 "setup_cmd": "./setup.sh",
 "hooks": {"guard": "--cfg metrics_verif (facade/driver hooks) and --cfg metrics_verif_loom (loom import twins; set only for the loom harness crates that #[path]-include the files; /verif/loomb additionally builds crossbeam-epoch/-utils with their own --cfg crossbeam_loom)",
           "enable": "RUSTFLAGS='--cfg metrics_verif' cargo build --release in /verif/harness (path dependencies on /repo/*); /verif/loomh/build.rs and /verif/loomb/build.rs emit cargo:rustc-cfg=metrics_verif_loom",
           "baseline_off_cmd": "cd /repo && cargo test --workspace --no-fail-fast --offline",
           "source_commits": [c.split()[0] for c in commits if c],
           "add_only": True},
 "engines": [
  {"name": "E1 vsched", "path": "harness/src/vsched.rs", "serves_properties": ["C03","C04","C05","C06","C07","C10","C16","C19","C20"], "kind_free_text": "stateless model checking of the implementation: controlled scheduler over real OS threads, preemption-bounded DFS (iterative context bounding), replay + determinism validation"},
  {"name": "E2 loom", "path": "loomh/ (cell.rs, atomics.rs), loomb/ (bucket.rs + crossbeam-epoch in loom mode)", "serves_properties": ["C01","C02","C04","C05"], "kind_free_text": "loom 0.7.2 on the repository's own source files (#[path] include), C11 memory model, preemption bound or unbounded"},
  {"name": "E3 vseq", "path": "harness/src/vseq.rs", "serves_properties": ["C01","C03","C04","C06","C07","C08","C09","C10","C12","C13","C14","C15","C16","C17","C19"], "kind_free_text": "bounded exhaustive enumeration of operation sequences / inputs / configurations on fresh real objects against a reference model"},
  {"name": "E4 vio", "path": "harness/src/bin", "serves_properties": ["C09","C10","C11","C16","C18"], "kind_free_text": "enumeration of event histories and environment answers against real exporter threads over loopback sockets"},
 ],
 "checks": checks,
 "not_applicable": na,
 "notes": "All checks rebuild the harness against /repo's working tree before running. known_findings.json lists recorded and fixed defects. See DESIGN.md.",
}
json.dump(m, open(os.path.join(ROOT, "MANIFEST.json"), "w"), indent=1)
print("claimed:", [c["property_id"] for c in checks], "na:", len(na))
