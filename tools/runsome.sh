#!/bin/bash
# developer convenience: tools/runsome.sh <tier> <check ids...> : like runall.sh for a chosen list, in the order given
cd "$(dirname "$(readlink -f "$0")")/.."
tier="$1"; shift
for id in "$@"; do
  s=$(date +%s.%N)
  out=$(./check "$id" --tier "$tier" 2>&1); code=$?
  e=$(date +%s.%N)
  printf "%s exit=%d %.1fs :: %s\n" "$id" "$code" "$(echo "$e - $s" | bc)" "$(echo "$out" | tail -1 | cut -c1-200)"
  echo "$out" | grep -E "^(VIOLATION|MACHINERY)" | head -3
done
