# builds a private CARGO_HOME that is the union of the image's two registry caches
import os, sys, shutil
reg = os.path.expanduser("~/.cargo/registry")
home = sys.argv[1]
hashes = sorted(os.listdir(f"{reg}/index"))
for target in hashes:
    idx = f"{home}/registry/index/{target}"; cache=f"{home}/registry/cache/{target}"
    os.makedirs(idx, exist_ok=True); os.makedirs(cache, exist_ok=True)
    shutil.copy(f"{reg}/index/{target}/config.json", f"{idx}/config.json")
    for h in hashes:
        for root, dirs, files in os.walk(f"{reg}/index/{h}/.cache"):
            rel = os.path.relpath(root, f"{reg}/index/{h}")
            os.makedirs(f"{idx}/{rel}", exist_ok=True)
            for fn in files:
                s=f"{root}/{fn}"; d=f"{idx}/{rel}/{fn}"
                if not os.path.exists(d) or os.path.getsize(s) > os.path.getsize(d):
                    shutil.copy(s,d)
        for fn in os.listdir(f"{reg}/cache/{h}"):
            d=f"{cache}/{fn}"
            if not os.path.exists(d):
                os.link(f"{reg}/cache/{h}/{fn}", d)
shutil.copy(os.path.expanduser("~/.cargo/config.toml"), f"{home}/config.toml")
