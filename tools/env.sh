# sourced by setup.sh and check: toolchain + offline cargo environment
VERIF_ROOT="${VERIF_ROOT:-/verif}"
if [ -d "$VERIF_ROOT/.cargo-home" ] || [ ! -d /verif/.cargo-home ]; then
  export CARGO_HOME="$VERIF_ROOT/.cargo-home"
else
  export CARGO_HOME="/verif/.cargo-home"   # snapshot runs (vp run) reuse the merged registry cache
fi
export CARGO_NET_OFFLINE=true
export RUSTUP_TOOLCHAIN=stable
vcargo_hooks() { RUSTFLAGS="--cfg metrics_verif" CARGO_TARGET_DIR="$VERIF_ROOT/target/hooks" cargo "$@"; }
vcargo_loom()  { CARGO_TARGET_DIR="$VERIF_ROOT/target/loom" cargo "$@"; }
vcargo_loomb() { RUSTFLAGS="--cfg crossbeam_loom" CARGO_TARGET_DIR="$VERIF_ROOT/target/loomb" cargo "$@"; }
